import SageModel.Model.C05
import SageModel.Model.C06

/-!
# C06 — the multi-protein database path: `group_digests` and the merge of `reorder_peptides`

Mirrors, for a FASTA of several target proteins (no decoys),

* `Fasta::digest`: every protein digested on its own (`Sage.C05.digest`; within one protein a
  sequence is kept once, with the position of its first site);
* `enzyme::group_digests`: sort by (position, decoy, sequence, semi_enzymatic, missed_cleavages),
  then one group per run of digests with equal `decoy`, **`position`** and `sequence`; a group
  carries the proteins of its digests. The same sequence at two different protein positions is
  therefore TWO groups, each modified with its own position;
* `Parameters::digest`: `try_from` + `apply` + range filter per group, every form inheriting the
  group's proteins and position;
* `reorder_peptides`: forms that are equal in (monoisotopic, sequence, modifications, nterm, cterm)
  are merged into one entry: protein lists are concatenated (then sorted and de-duplicated), and
  — as coded — `position := min` of the merged positions in the order
  `Nterm < Cterm < Full < Internal` (so the unmodified form of a peptide that is N-terminal in
  one protein and internal in another is reported once, as `Nterm`, listing both proteins, while
  its `[`-modified form lists only the first protein). The model merges ALL equal forms; the code
  merges adjacent ones after its sort (C08's assumption A-sort covers the difference, and the
  driver's clause `form_listed_twice` watches it).
-/

namespace Sage.C06

def posRank : Position → Nat
  | .nterm => 0 | .cterm => 1 | .full => 2 | .internal => 3

def posOfRank : Nat → Position
  | 0 => .nterm | 1 => .cterm | 2 => .full | _ => .internal

/-- C05's position as C06's -/
def posOf5' : Sage.C05.Position → Position
  | .nterm => .nterm | .cterm => .cterm | .full => .full | .internal => .internal

/-- one digest of one protein (`decoy = false` throughout) -/
structure Occ where
  pos : Position
  seq : List Nat
  semi : Bool
  mc : Nat
  prot : Nat
deriving Repr

def keyLe : List Nat → List Nat → Bool
  | [], _ => true
  | _ :: _, [] => false
  | a :: as, b :: bs => a < b || (a == b && keyLe as bs)

/-- the sort key of `group_digests` (byte-wise string order: every byte + 1, terminated by 0) -/
def occKey (o : Occ) : List Nat :=
  posRank o.pos :: (o.seq.map (· + 1)) ++ [0, (if o.semi then 1 else 0), o.mc]

structure Group where
  pos : Position
  seq : List Nat
  prots : List Nat
deriving Repr

/-- the `for digest in digests` loop of `group_digests` -/
def groupLoop : Group → List Occ → List Group
  | cur, [] => [cur]
  | cur, d :: ds =>
    if d.pos == cur.pos && d.seq == cur.seq then groupLoop { cur with prots := cur.prots ++ [d.prot] } ds
    else cur :: groupLoop { pos := d.pos, seq := d.seq, prots := [d.prot] } ds

def insertKey {β : Type} (le : β → β → Bool) (x : β) : List β → List β
  | [] => [x]
  | y :: ys => if le x y then x :: y :: ys else y :: insertKey le x ys

/-- a (stable, structurally recursive) sort; which sort is used does not matter: digests with equal
    keys differ in their protein only -/
def sortKey {β : Type} (le : β → β → Bool) (l : List β) : List β := l.foldr (insertKey le) []

/-- `group_digests`; an empty list gives no groups (guarded; it used to index `digests[0]` and panic).
    Always `some`. -/
def groupDigests (occs : List Occ) : Option (List Group) :=
  match sortKey (fun a b => keyLe (occKey a) (occKey b)) occs with
  | [] => some []
  | d0 :: rest => some (groupLoop { pos := d0.pos, seq := d0.seq, prots := [] } (d0 :: rest))

/-- `Fasta::digest` for target proteins: protein `i` contributes `C05.digest par proteinᵢ` -/
def occsOf (par : Sage.C05.Params) (proteins : List (List UInt8)) : List Occ :=
  (proteins.zipIdx).flatMap fun (s, i) =>
    (Sage.C05.digest par s).map fun d =>
      { pos := posOf5' d.pos, seq := d.seq.map (·.toNat), semi := d.semi, mc := d.mc, prot := i }

/-- a database entry -/
structure Entry (α : Type) where
  pep : Peptide α
  prots : List Nat
deriving Repr

def insertSorted (x : Nat) : List Nat → List Nat
  | [] => [x]
  | y :: ys => if x < y then x :: y :: ys else if x == y then y :: ys else y :: insertSorted x ys

def unionSorted (a b : List Nat) : List Nat := a.foldl (fun acc x => insertSorted x acc) (b.foldl (fun acc x => insertSorted x acc) [])

section generic
variable {α : Type} [Add α] [OfNat α 0] [BEq α] [LE α] [DecidableLE α]

/-- the forms of one group, each with the group's proteins (and, in `pep.position`, its position) -/
def groupEntries (h2o : α) (table : List α) (vars statics : List (Target × α)) (max : Nat) (lo hi : α)
    (g : Group) : List (Entry α) :=
  (dbForms h2o table g.pos g.seq vars statics max lo hi).map fun f => { pep := f, prots := g.prots }

/-- the merge of `reorder_peptides`, given the test "equal in (mono, sequence, mods, nterm, cterm)" -/
def mergeInto (same : Peptide α → Peptide α → Bool) (e : Entry α) : List (Entry α) → List (Entry α)
  | [] => [{ e with prots := unionSorted e.prots [] }]
  | x :: xs =>
    if same x.pep e.pep then
      { pep := { x.pep with position := posOfRank (min (posRank x.pep.position) (posRank e.pep.position)) },
        prots := unionSorted x.prots e.prots } :: xs
    else x :: mergeInto same e xs

def mergeAll (same : Peptide α → Peptide α → Bool) (es : List (Entry α)) : List (Entry α) :=
  es.foldl (fun acc e => mergeInto same e acc) []

/-- `Parameters::digest` on several target proteins (no digest at all: the empty database; never `none`) -/
def database (h2o : α) (table : List α) (same : Peptide α → Peptide α → Bool) (par : Sage.C05.Params)
    (proteins : List (List UInt8)) (vars statics : List (Target × α)) (max : Nat) (lo hi : α) :
    Option (List (Entry α)) :=
  (groupDigests (occsOf par proteins)).map fun gs =>
    mergeAll same (gs.flatMap (groupEntries h2o table vars statics max lo hi))

end generic

/-! ## specification, from the request (independent of grouping and merging)

For every protein and every peptide occurrence of its digestion with its TRUE position, the forms
allowed at that position (`refForms`) must be in the database and list that protein; and a database
entry may list a protein only if the peptide occurs in it at a position that allows the form. -/

/-- observed entry: sequence, form, proteins -/
structure ObsEntry where
  seq : List Nat
  form : Form
  prots : List Nat

def multiVerdict (occs : List Occ) (vars statics : List (Target × Rat)) (max : Nat) (obs : List ObsEntry) : String :=
  let allowed (o : Occ) : List Form := refForms o.seq o.pos vars statics max
  let valid (s : List Nat) : Bool := s.all fun c => Sage.Gen.VALID_AA.contains c
  -- (1) completeness per protein and occurrence
  let missing := occs.findSome? fun o =>
    if !valid o.seq then none else
    (allowed o).findSome? fun f =>
      if obs.any (fun e => e.seq == o.seq && e.form == f && e.prots.contains o.prot) then none
      else some (if (refForms o.seq .internal vars statics max).contains f then "bad:form_missing_at_protein"
                 else "bad:terminal_form_missing")
  match missing with
  | some v => v
  | none =>
    -- (2) soundness of the attribution
    let wrong := obs.findSome? fun e =>
      e.prots.findSome? fun p =>
        let here := occs.filter fun o => o.prot == p && o.seq == e.seq
        if here.isEmpty then some "bad:form_at_protein_without_peptide"
        else if !valid e.seq then some "bad:invalid_sequence_accepted"
        else if here.any (fun o => (allowed o).contains e.form) then none
        else if occs.any (fun o => o.seq == e.seq && (allowed o).contains e.form) then some "bad:terminal_form_at_wrong_protein"
        else some "bad:form_not_a_placement"
    match wrong with
    | some v => v
    | none => if obs.any (fun e => e.prots.isEmpty) then "bad:entry_without_protein" else "ok"

end Sage.C06
