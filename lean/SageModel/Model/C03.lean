import SageModel.Proto

/-!
# C03 — model of the fragment index (core Lean only)

Mirrors, operation by operation, `crates/sage/src/database.rs`:

* `walkLeft` / `walkRight` / `bss` / `bssWith` — `binary_search_slice` (the two `while` loops; the two
  answers of std's `binary_search_by` are *parameters* of `bss`, `bssWith` plugs a concrete search in;
  the second search runs on `slice[left..]` as in the code);
* `binSearch` — a concrete lower-bound binary search standing in for `slice::binary_search_by`
  (std's result is only specified up to the choice among equal keys; `bss_canonical` shows the
  result of `binary_search_slice` does not depend on that choice);
* `Tol.bounds` — `Tolerance::bounds` (`mass.rs`), generic arithmetic;
* `window` — the window arithmetic at the top of `IndexedDatabase::query` / `IndexedQuery::page_search`
  (`mass = mz * charge`, ppm tolerance divided by the charge, `Pct` on fragments = `unreachable!`);
* `pageSearch` — `IndexedDatabase::query` + `IndexedQuery::page_search`: page range from `min_value`,
  per-page slice `page*B .. min((page+1)*B, len)`, inner index search, the edge filter literally;
* `buildIndex` — the tail of `Parameters::build_from_peptides`: sort by m/z, chunks of `B`,
  `min_value` = first m/z of each chunk, per-chunk sort by peptide index.

Everything is generic in the number type: it runs at `Float32` in the driver and is the subject of the
theorems for an arbitrary `LinearOrder`.

Spec: `scan` = `frags.filter (inWin masses q)`, the linear scan of the property text.
`dbInvClause` is the decidable index invariant evaluated on the layout exported from the real index.

Not modelled: NaN, `-0.0` (the code mixes `total_cmp` and `>=`; on NaN-free, zero-sign-normalised
floats both are the same linear order).
-/

namespace Sage.C03

variable {α : Type}

/-! ## `binary_search_slice` -/

/-- left walk: `while idx > 0 && key(slice[idx], low) != Less { idx -= 1 }` -/
def walkLeft [LT α] [DecidableLT α] (l : Array α) (low : α) : Nat → Nat
  | 0 => 0
  | i+1 => match l[i+1]? with
    | some x => if x < low then i+1 else walkLeft l low i
    | none => i+1   -- out of bounds: Rust would panic; unreachable because the start is ≤ len-1

/-- right walk with fuel: `while idx < len && key(slice[idx], high) != Greater { idx += 1 }` -/
def walkRight [LE α] [DecidableLE α] (l : Array α) (high : α) (idx : Nat) : Nat → Nat
  | 0 => idx
  | f+1 => match l[idx]? with
    | some x => if x ≤ high then walkRight l high (idx+1) f else idx
    | none => idx

/-- `binary_search_slice`, with the two `binary_search_by` answers (`Ok i | Err i => i`) as parameters;
    `rHi` is relative to `slice[left..]` -/
def bss [LT α] [DecidableLT α] [LE α] [DecidableLE α] (l : Array α) (lo hi : α) (rLo rHi : Nat) : Nat × Nat :=
  let L := walkLeft l lo (rLo - 1)       -- `idx.saturating_sub(1)` then the left loop
  (L, min (walkRight l hi (rHi + L) (l.size - (rHi + L))) l.size)

/-- lower-bound binary search on `l[lo..hi)`: first index whose element is not `< x` -/
def lowerBound [LT α] [DecidableLT α] (l : Array α) (x : α) : Nat → Nat → Nat → Nat
  | 0, lo, _ => lo
  | f+1, lo, hi =>
    if lo < hi then
      let mid := (lo + hi) / 2
      match l[mid]? with
      | some y => if y < x then lowerBound l x f (mid+1) hi else lowerBound l x f lo mid
      | none => lo
    else lo

/-- stand-in for `slice.binary_search_by(|a| key(a, &x))`, `Ok(i) | Err(i) => i` -/
def binSearch [LT α] [DecidableLT α] (l : Array α) (x : α) : Nat := lowerBound l x (l.size + 1) 0 l.size

/-- `binary_search_slice` with a concrete binary search `bs` (second search on `slice[left..]`) -/
def bssWith [LT α] [DecidableLT α] [LE α] [DecidableLE α] (bs : Array α → α → Nat) (l : Array α) (lo hi : α) : Nat × Nat :=
  let rLo := bs l lo
  let L := walkLeft l lo (rLo - 1)
  bss l lo hi rLo (bs (l.extract L l.size) hi)

/-- the model of `binary_search_slice(slice, total_cmp, lo, hi)` -/
def binarySearchSlice [LT α] [DecidableLT α] [LE α] [DecidableLE α] (l : Array α) (lo hi : α) : Nat × Nat :=
  bssWith binSearch l lo hi

/-! ## `Tolerance::bounds` and the query windows -/

inductive Tol (α : Type) where
  | ppm (lo hi : α)
  | pct (lo hi : α)
  | da  (lo hi : α)

/-- `Tolerance::bounds(center)`; `million` = `1_000_000.0`, `hundred` = `100.0` -/
def Tol.bounds [Add α] [Mul α] [Div α] (million hundred : α) : Tol α → α → α × α
  | .ppm lo hi, c => (c + c * lo / million, c + c * hi / million)
  | .pct lo hi, c => (c + c * lo / hundred, c + c * hi / hundred)
  | .da lo hi, c => (c + lo, c + hi)

structure Frag (α : Type) where
  pep : Nat
  mz  : α

structure Q (α : Type) where
  fragLo : α
  fragHi : α
  preLo  : α
  preHi  : α

/-- the window arithmetic of `query` + `page_search`; `charge` is `charge as f32`.
    `none` = the `unreachable!` (panic) on a `Pct` fragment tolerance -/
def window [Add α] [Mul α] [Div α] (million hundred : α) (preTol fragTol : Tol α)
    (preMass fragMz charge : α) : Option (Q α) :=
  let mass := fragMz * charge
  let tol : Option (Tol α) := match fragTol with
    | .ppm lo hi => some (.ppm (lo / charge) (hi / charge))
    | .pct _ _ => none
    | .da lo hi => some (.da lo hi)
  match tol with
  | none => none
  | some tol =>
    let f := tol.bounds million hundred mass
    let p := preTol.bounds million hundred preMass
    some { fragLo := f.1, fragHi := f.2, preLo := p.1, preHi := p.2 }

/-! ## `page_search` -/

section search
variable [LT α] [DecidableLT α] [LE α] [DecidableLE α]

def massOf (masses : Array α) (f : Frag α) : Option α := masses[f.pep]?

/-- specification predicate: fragment mass in the fragment window and parent peptide mass in the precursor window -/
def inWin (masses : Array α) (q : Q α) (f : Frag α) : Bool :=
  decide (q.fragLo ≤ f.mz) && decide (f.mz ≤ q.fragHi) &&
  match massOf masses f with
  | some m => decide (q.preLo ≤ m) && decide (m ≤ q.preHi)
  | none => false

/-- the **spec**: linear scan over all stored fragments -/
def scan (masses : Array α) (frags : List (Frag α)) (q : Q α) : List (Frag α) :=
  frags.filter (inWin masses q)

/-- the edge filter of `page_search`, literally (indices compared; a mass is looked at only at
    `pre_idx_lo` / `pre_idx_hi`) -/
def edgeFilter (masses : Array α) (q : Q α) (pLo pHi : Nat) (f : Frag α) : Bool :=
  (decide (pLo < f.pep) || (decide (f.pep = pLo) &&
      match massOf masses f with | some m => decide (q.preLo ≤ m) | none => false)) &&
  (decide (f.pep < pHi) || (decide (f.pep = pHi) &&
      match massOf masses f with | some m => decide (m ≤ q.preHi) | none => false)) &&
  decide (q.fragLo ≤ f.mz) && decide (f.mz ≤ q.fragHi)

/-- `&fragments[page*B .. min((page+1)*B, len)]` -/
def slice (frags : List (Frag α)) (B p : Nat) : List (Frag α) := (frags.drop (p*B)).take B

/-- `IndexedDatabase::query` (the precursor index range) followed by `IndexedQuery::page_search` -/
def pageSearch (bsA : Array α → α → Nat) (bsN : Array Nat → Nat → Nat)
    (masses minv : Array α) (frags : List (Frag α)) (B : Nat) (q : Q α) : List (Frag α) :=
  let pre := bssWith bsA masses q.preLo q.preHi
  let pg := bssWith bsA minv q.fragLo q.fragHi
  (List.range' pg.1 (pg.2 - pg.1)).flatMap fun p =>
    let s := slice frags B p
    let ix := bssWith bsN (s.map (·.pep)).toArray pre.1 pre.2
    ((s.drop ix.1).take (ix.2 - ix.1)).filter (edgeFilter masses q pre.1 pre.2)

/-- `pageSearch` with the concrete binary search -/
def pageSearchC (masses minv : Array α) (frags : List (Frag α)) (B : Nat) (q : Q α) : List (Frag α) :=
  pageSearch binSearch binSearch masses minv frags B q

end search

/-! ## the index invariant -/

def SortedArr [LE α] (l : Array α) : Prop :=
  ∀ (i j : Nat) (x y : α), i ≤ j → l[i]? = some x → l[j]? = some y → x ≤ y

/-- number of buckets: `ceil(n / B)` (what `par_chunks_mut(B)` yields) -/
def nPages (n B : Nat) : Nat := (n + B - 1) / B

/-- what `build_from_peptides` establishes (given peptides sorted by mass) and `page_search` relies on -/
structure DbInv [LE α] (masses minv : Array α) (frags : List (Frag α)) (B : Nat) : Prop where
  massesSorted : SortedArr masses
  bpos : 0 < B
  pages : frags.length ≤ minv.size * B
  minvSorted : SortedArr minv
  lower : ∀ p f m, f ∈ slice frags B p → minv[p]? = some m → m ≤ f.mz
  upper : ∀ p f m, f ∈ slice frags B p → minv[p+1]? = some m → f.mz ≤ m
  keysSorted : ∀ p, SortedArr (((slice frags B p).map (·.pep)).toArray)
  pepValid : ∀ f ∈ frags, f.pep < masses.size

section check
variable [LE α] [DecidableLE α]

/-- adjacent-pairs sortedness check -/
def sortedAdj (l : Array α) : Bool :=
  (List.range (l.size - 1)).all fun i =>
    match l[i]?, l[i+1]? with
    | some x, some y => decide (x ≤ y)
    | _, _ => true

def sortedAdjNat (l : List Nat) : Bool :=
  match l with
  | [] => true
  | [_] => true
  | a :: b :: t => decide (a ≤ b) && sortedAdjNat (b :: t)

/-- decidable index invariant, evaluated by the driver on the layout exported from the REAL index.
    Returns the name of the first violated clause, `""` if all hold. `npages` is stronger than
    `DbInv.pages` (it also excludes the out-of-range slice panic of `page_search`). -/
def dbInvClause (masses minv : Array α) (frags : List (Frag α)) (B : Nat) : String :=
  if B = 0 then "bpos" else
  if !sortedAdj masses then "massesSorted" else
  if minv.size != nPages frags.length B then "npages" else
  if !sortedAdj minv then "minvSorted" else
  if !(frags.all fun f => decide (f.pep < masses.size)) then "pepValid" else
  let pages := List.range minv.size
  if !(pages.all fun p => match minv[p]? with
        | some m => (slice frags B p).all fun f => decide (m ≤ f.mz)
        | none => true) then "lower" else
  if !(pages.all fun p => match minv[p+1]? with
        | some m => (slice frags B p).all fun f => decide (f.mz ≤ m)
        | none => true) then "upper" else
  if !(pages.all fun p => sortedAdjNat ((slice frags B p).map (·.pep))) then "keysSorted" else
  ""

def dbInvOk (masses minv : Array α) (frags : List (Frag α)) (B : Nat) : Bool :=
  dbInvClause masses minv frags B == ""

end check

/-! ## the index builder (tail of `build_from_peptides`) -/

section build
variable [LE α] [DecidableLE α]

def leMz (a b : Frag α) : Bool := decide (a.mz ≤ b.mz)
def lePep (a b : Frag α) : Bool := decide (a.pep ≤ b.pep)

/-- `fragments.sort_by(mz)`; `chunks_mut(B)`: `min = chunk[0].mz`, `chunk.sort_by(peptide_index)`.
    `none` = the panic of `par_chunks_mut(0)`.  (The code's sorts are unstable; the model's are stable.
    Which of several equal-m/z fragments lands in which bucket is therefore not compared — only results.) -/
def buildIndex (B : Nat) (ions : List (Frag α)) : Option (Array α × List (Frag α)) :=
  if B = 0 then none else
  let sorted := ions.mergeSort leMz
  let np := nPages sorted.length B
  let minv := (List.range np).filterMap fun p => (slice sorted B p).head?.map (·.mz)
  let frags := (List.range np).flatMap fun p => (slice sorted B p).mergeSort lePep
  some (minv.toArray, frags)

end build

/-! ## executable spec for `binary_search_slice` -/

section bssSpec
variable [LT α] [DecidableLT α] [LE α] [DecidableLE α]

/-- the "widest range" contract evaluated on a claimed pair `(L, R)`: name of the first violated clause.
    `range`: `L ≤ R ≤ len`; `covers`: every in-bounds element lies in `[L, R)`;
    `tight`: everything strictly after `L` is `≥ lo`, everything in `[L, R)` is `≤ hi`;
    `exit`: `L = 0 ∨ l[L] < lo`, `R = len ∨ hi < l[R]` (these pin the pair uniquely). -/
def bssClause (l : Array α) (lo hi : α) (L R : Nat) : String :=
  if !(decide (L ≤ R) && decide (R ≤ l.size)) then "range" else
  let idx := List.range l.size
  if !(idx.all fun i => match l[i]? with
        | some x => !(decide (lo ≤ x) && decide (x ≤ hi)) || (decide (L ≤ i) && decide (i < R))
        | none => true) then "covers" else
  if !(idx.all fun i => match l[i]? with
        | some x => (!decide (L < i) || decide (lo ≤ x)) && (!(decide (L ≤ i) && decide (i < R)) || decide (x ≤ hi))
        | none => true) then "tight" else
  if !((L == 0 || match l[L]? with | some x => decide (x < lo) | none => false) &&
       (R == l.size || match l[R]? with | some x => decide (hi < x) | none => false)) then "exit" else
  ""

end bssSpec


/-! ## linear-time executable forms

The definitions above are the subject of the theorems; the ones below are what the compiled driver runs.
Each is proved equal to its reference definition (core Lean only) and registered with `@[csimp]`, so every
caller of `buildIndex`, `pageSearchC`, `binarySearchSlice` gets the fast code without any change, and
every theorem about the reference definitions applies to what is executed.

* `buildIndexFast`: one pass over the sorted ions (the reference recomputes `drop (p*B)` for every page:
  `O(n²/B)`);
* `bssFast`: the second binary search runs in place on `l[L..]` (the reference copies the sub-slice);
* `pageSearchFast`: the visited pages are walked in one pass (`O(right_page·B)` list steps per query);
* `pageSearchA`: fragments held in an `Array` (`O(log n + visited pages·B)` per query) with
  `pageSearchA_eq : pageSearchA masses minv frags.toArray B q = pageSearchC masses minv frags B q`
  for callers that keep the array. -/

/-- one pass over consecutive chunks of `B`: `body (l.take B) ++ body ((l.drop B).take B) ++ …` (`k` chunks) -/
def flatChunks {β γ : Type} (body : List β → List γ) (B : Nat) : Nat → List β → List γ
  | 0, _ => []
  | k+1, l => body (l.take B) ++ flatChunks body B k (l.drop B)

theorem flatChunks_eq {β γ : Type} (body : List β → List γ) (B : Nat) (l0 : List β) :
    ∀ (k a : Nat), flatChunks body B k (l0.drop (a*B)) =
      (List.range' a k).flatMap (fun p => body ((l0.drop (p*B)).take B)) := by
  intro k
  induction k with
  | zero => intro a; simp [flatChunks]
  | succ k ih =>
    intro a
    have e : (l0.drop (a*B)).drop B = l0.drop ((a+1)*B) := by
      rw [List.drop_drop, Nat.add_mul, Nat.one_mul]
    simp only [flatChunks, List.range'_succ, List.flatMap_cons, e, ih (a+1)]

theorem filterMap_eq_flatMap {β γ : Type} (f : β → Option γ) (l : List β) :
    l.filterMap f = l.flatMap (fun a => (f a).toList) := by
  induction l with
  | nil => rfl
  | cons a t ih =>
    simp only [List.filterMap_cons, List.flatMap_cons, ih]
    cases f a <;> simp

section
variable [LE α] [DecidableLE α]

/-- `buildIndex` in one pass over the sorted ions (linear apart from the sorts) -/
def buildIndexFast (B : Nat) (ions : List (Frag α)) : Option (Array α × List (Frag α)) :=
  if B = 0 then none else
  let sorted := ions.mergeSort leMz
  let np := nPages sorted.length B
  let minv := flatChunks (fun c => (c.head?.map (·.mz)).toList) B np sorted
  let frags := flatChunks (fun c => c.mergeSort lePep) B np sorted
  some (minv.toArray, frags)

theorem buildIndex_eq_fast (B : Nat) (ions : List (Frag α)) : buildIndex B ions = buildIndexFast B ions := by
  unfold buildIndex buildIndexFast
  split
  · rfl
  · have h1 := flatChunks_eq (fun c : List (Frag α) => (c.head?.map (·.mz)).toList) B (ions.mergeSort leMz)
      (nPages (ions.mergeSort leMz).length B) 0
    have h2 := flatChunks_eq (fun c : List (Frag α) => c.mergeSort lePep) B (ions.mergeSort leMz)
      (nPages (ions.mergeSort leMz).length B) 0
    simp only [Nat.zero_mul, List.drop_zero] at h1 h2
    simp only [h1, h2, filterMap_eq_flatMap, slice, List.range_eq_range']
end

@[csimp] theorem buildIndex_csimp : @buildIndex = @buildIndexFast := by
  funext α _ _ B ions
  exact buildIndex_eq_fast B ions


theorem lowerBound_extract [LT α] [DecidableLT α] (l : Array α) (x : α) (L : Nat) :
    ∀ (f lo hi : Nat), hi + L ≤ l.size →
      lowerBound (l.extract L l.size) x f lo hi + L = lowerBound l x f (lo + L) (hi + L) := by
  intro f
  induction f with
  | zero => intro lo hi _; simp [lowerBound]
  | succ f ih =>
    intro lo hi hh
    by_cases hlt : lo < hi
    · have hlt' : lo + L < hi + L := by omega
      have hmid : (lo + L + (hi + L)) / 2 = (lo + hi) / 2 + L := by omega
      have hget : (l.extract L l.size)[(lo+hi)/2]? = l[(lo+hi)/2 + L]? := by
        rw [Array.getElem?_extract]
        have : (lo+hi)/2 < min l.size l.size - L := by omega
        rw [if_pos this, Nat.add_comm]
      rw [lowerBound, lowerBound]
      simp only [hlt, hlt', if_true, hmid, hget]
      cases l[(lo+hi)/2 + L]? with
      | none => rfl
      | some y =>
        simp only
        split
        · have := ih ((lo+hi)/2+1) hi hh
          rw [this]; congr 1; omega
        · exact ih lo ((lo+hi)/2) (by omega)
    · have hlt' : ¬ lo + L < hi + L := by omega
      rw [lowerBound, lowerBound]
      simp only [hlt, hlt', if_false]

theorem walkLeft_le' [LT α] [DecidableLT α] (l : Array α) (low : α) (s : Nat) : walkLeft l low s ≤ s := by
  induction s with
  | zero => simp [walkLeft]
  | succ i ih =>
    unfold walkLeft
    split
    · split <;> omega
    · omega

section
variable [LT α] [DecidableLT α] [LE α] [DecidableLE α]

/-- `binary_search_slice` with the concrete search, the second search done in place on `l[L..]`
    (no copy of the sub-slice) -/
def bssFast (l : Array α) (lo hi : α) : Nat × Nat :=
  let rLo := binSearch l lo
  let L := walkLeft l lo (rLo - 1)
  bss l lo hi rLo (lowerBound l hi (l.size - L + 1) L l.size - L)

theorem bssFast_eq (l : Array α) (lo hi : α) : bssWith binSearch l lo hi = bssFast l lo hi := by
  unfold bssWith bssFast
  simp only
  congr 1
  generalize walkLeft l lo (binSearch l lo - 1) = L
  unfold binSearch
  by_cases hL : L ≤ l.size
  · have hs : (l.extract L l.size).size = l.size - L := by simp [Array.size_extract]
    have := lowerBound_extract l hi L (l.size - L + 1) 0 (l.size - L) (by omega)
    rw [hs]
    have e : l.size - L + L = l.size := by omega
    rw [e, Nat.zero_add] at this
    omega
  · have hs : (l.extract L l.size).size = 0 := by simp [Array.size_extract]; omega
    rw [hs]
    have e : l.size - L + 1 = 1 := by omega
    rw [e]
    have hn : ¬ L < l.size := by omega
    simp [lowerBound, hn]
end

section
variable [LT α] [DecidableLT α] [LE α] [DecidableLE α]

/-- what `page_search` does with one page's slice `s` -/
def pageBody (masses : Array α) (q : Q α) (pLo pHi : Nat) (s : List (Frag α)) : List (Frag α) :=
  let ix := bssFast (s.map (·.pep)).toArray pLo pHi
  ((s.drop ix.1).take (ix.2 - ix.1)).filter (edgeFilter masses q pLo pHi)

/-- `pageSearchC` walking the visited pages in one pass over the fragment list: `O(right_page · B)` list
    steps per query instead of `O(pages · n)`, no sub-slice copies in the binary searches -/
def pageSearchFast (masses minv : Array α) (frags : List (Frag α)) (B : Nat) (q : Q α) : List (Frag α) :=
  let pre := bssFast masses q.preLo q.preHi
  let pg := bssFast minv q.fragLo q.fragHi
  flatChunks (pageBody masses q pre.1 pre.2) B (pg.2 - pg.1) (frags.drop (pg.1 * B))

theorem pageSearchC_eq_fast (masses minv : Array α) (frags : List (Frag α)) (B : Nat) (q : Q α) :
    pageSearchC masses minv frags B q = pageSearchFast masses minv frags B q := by
  unfold pageSearchC pageSearch pageSearchFast
  simp only [bssFast_eq, flatChunks_eq, pageBody, slice]

/-- **Array-backed `page_search`**: the fragment list held as an `Array` (random access to a page, like the
    Rust slice `&fragments[page*B .. min((page+1)*B, len)]`): `O(log + visited pages · B)` per query. -/
def pageSearchA (masses minv : Array α) (frags : Array (Frag α)) (B : Nat) (q : Q α) : List (Frag α) :=
  let pre := bssFast masses q.preLo q.preHi
  let pg := bssFast minv q.fragLo q.fragHi
  (List.range' pg.1 (pg.2 - pg.1)).flatMap fun p =>
    pageBody masses q pre.1 pre.2 (frags.extract (p*B) (p*B + B)).toList

omit [LT α] [DecidableLT α] [LE α] [DecidableLE α] in
theorem extract_toList_eq_slice (frags : List (Frag α)) (B p : Nat) :
    (frags.toArray.extract (p*B) (p*B + B)).toList = slice frags B p := by
  simp [slice]

/-- the Array-backed search is the List-based model `pageSearchC` (hence every theorem about it applies) -/
theorem pageSearchA_eq (masses minv : Array α) (frags : List (Frag α)) (B : Nat) (q : Q α) :
    pageSearchA masses minv frags.toArray B q = pageSearchC masses minv frags B q := by
  unfold pageSearchA pageSearchC pageSearch
  simp only [bssFast_eq, extract_toList_eq_slice, pageBody]

end

@[csimp] theorem pageSearchC_csimp : @pageSearchC = @pageSearchFast := by
  funext α _ _ _ _ masses minv frags B q
  exact pageSearchC_eq_fast masses minv frags B q

@[csimp] theorem binarySearchSlice_csimp : @binarySearchSlice = @bssFast := by
  funext α _ _ _ _ l lo hi
  exact bssFast_eq l lo hi



/-! ## the query object: one `query()` followed by a sequence of `page_search` calls

`IndexedDatabase::query` computes the precursor index range once and stores it with the tolerances in an
`IndexedQuery`; `page_search(&self, mz, charge)` only READS that object. `IQuery` / `mkQuery` /
`IQuery.pageSearch` mirror exactly this split; `runSeq` is a sequence of lookups through ONE query object
(what the scorer does: `for peak { for charge in 1..zmax { page_search(peak.mass, charge) } }`, whose
masses are not monotone). `lookup` is the from-scratch reference: a fresh query for every lookup. -/

structure IQuery (α : Type) where
  preTol : Tol α
  fragTol : Tol α
  preMass : α
  preIdxLo : Nat
  preIdxHi : Nat

section iquery
variable [Add α] [Mul α] [Div α] [LT α] [DecidableLT α] [LE α] [DecidableLE α]

/-- `IndexedDatabase::query(precursor_mass, precursor_tol, fragment_tol)` -/
def mkQuery (million hundred : α) (masses : Array α) (preTol fragTol : Tol α) (preMass : α) : IQuery α :=
  let p := preTol.bounds million hundred preMass
  let r := bssWith binSearch masses p.1 p.2
  { preTol := preTol, fragTol := fragTol, preMass := preMass, preIdxLo := r.1, preIdxHi := r.2 }

/-- `IndexedQuery::page_search(&self, fragment_mz, charge)`: reads the query object, returns no new state.
    `none` = the `unreachable!` panic on a `Pct` fragment tolerance. -/
def IQuery.pageSearch (million hundred : α) (iq : IQuery α) (masses minv : Array α) (frags : List (Frag α))
    (B : Nat) (mz charge : α) : Option (List (Frag α)) :=
  match window million hundred iq.preTol iq.fragTol iq.preMass mz charge with
  | none => none
  | some q =>
    let pg := bssWith binSearch minv q.fragLo q.fragHi
    some ((List.range' pg.1 (pg.2 - pg.1)).flatMap fun p =>
      let s := slice frags B p
      let ix := bssWith binSearch (s.map (·.pep)).toArray iq.preIdxLo iq.preIdxHi
      ((s.drop ix.1).take (ix.2 - ix.1)).filter (edgeFilter masses q iq.preIdxLo iq.preIdxHi))

/-- a sequence of lookups `(mz, charge)` through ONE query object, in the given order -/
def runSeq (million hundred : α) (iq : IQuery α) (masses minv : Array α) (frags : List (Frag α)) (B : Nat)
    (l : List (α × α)) : List (Option (List (Frag α))) :=
  l.map fun x => iq.pageSearch million hundred masses minv frags B x.1 x.2

/-- the reference: a fresh query for this one lookup — a function of the database, the query parameters
    and `(mz, charge)` only -/
def lookup (million hundred : α) (masses minv : Array α) (frags : List (Frag α)) (B : Nat)
    (preTol fragTol : Tol α) (preMass mz charge : α) : Option (List (Frag α)) :=
  (window million hundred preTol fragTol preMass mz charge).map (pageSearchC masses minv frags B)

/-- a lookup through a query object is the from-scratch lookup (core-only proof; used by the driver's model) -/
theorem IQuery.pageSearch_eq_lookup (million hundred : α) (masses minv : Array α) (frags : List (Frag α))
    (B : Nat) (preTol fragTol : Tol α) (preMass mz charge : α) :
    (mkQuery million hundred masses preTol fragTol preMass).pageSearch million hundred masses minv frags B mz charge
      = lookup million hundred masses minv frags B preTol fragTol preMass mz charge := by
  unfold IQuery.pageSearch lookup mkQuery
  cases fragTol <;> rfl

end iquery

end Sage.C03
