/-!
# Model of `sage_core::spectrum::select_most_intense_peak` (core Lean only)

Shared by C18 (TMT reporter ions) and C04 (fragment matching). Generic over the number type `α`:
it runs at `Float32` in the driver (bit-exact correspondence) and is the subject of theorems
under `[LinearOrder α]` / at `ℚ`.

Rust (crates/sage/src/spectrum.rs, crates/sage/src/database.rs, crates/sage/src/mass.rs):

```
pub fn select_most_intense_peak(peaks, center, tolerance, offset) -> Option<&Peak> {
    let (lo, hi) = tolerance.bounds(center);
    let (lo, hi) = (lo + offset.unwrap_or_default(), hi + offset.unwrap_or_default());
    let (i, j) = binary_search_slice(peaks, |peak, query| peak.mass.total_cmp(query), lo, hi);
    let mut best_peak = None;
    let mut max_int = 0.0;
    for peak in peaks[i..j].iter().filter(|peak| peak.mass >= lo && peak.mass <= hi) {
        if peak.intensity >= max_int { max_int = peak.intensity; best_peak = Some(peak); }
    }
    best_peak
}
```

What is modelled how:

* `Tolerance::bounds` — the same operations in the same order (`center * lo / 1_000_000.0`, then
  `center + delta`), so at `Float32` the window edges are the very floats the code computes.
* `binary_search_slice` — its two walk loops (`walkLeft`, `walkRight`) exactly; std's
  `binary_search_by` is a *parameter* of `selectCore` (`rLo`, `rHi`: the two answers). The theorems
  hold for EVERY answer `rLo ≤ len` (std returns an index `≤ len`), i.e. they do not depend on std's
  algorithm; the executable `select` plugs in `binSearchBy`, a transcription of the current std loop.
* `total_cmp` is modelled by `<` on `α` (`Less ⇔ x < q`, `Greater ⇔ q < x`). On floats this is
  `total_cmp` for all values that are not NaN and not zeros of different sign — masses are positive
  finite numbers; the generators keep to that.
* the scan: `max_int` starts at `0`, the comparison is `>=` (so among equally intense peaks the LAST
  one — highest mass — wins, a peak of intensity exactly 0 is selected, and a peak of negative or
  NaN intensity is never selected).
* `peaks[i..j]` panics when `i > j`; `bss_le` (Lemmas/C18Select.lean) shows `i ≤ j ≤ len` always, so the model's
  `drop/take` is the slice.
-/

namespace Sage.Select

/-- `spectrum::Peak` -/
structure Peak (α : Type) where
  mass : α
  intensity : α
deriving Repr, BEq

/-- `mass::Tolerance` -/
inductive Tol (α : Type) where
  | ppm (lo hi : α)
  | pct (lo hi : α)
  | da (lo hi : α)
deriving Repr

section generic
variable {α : Type}

/-- `Tolerance::bounds` -/
def Tol.bounds [Add α] [Mul α] [Div α] [OfNat α 1000000] [OfNat α 100] (t : Tol α) (center : α) : α × α :=
  match t with
  | .ppm lo hi =>
    let deltaLo := center * lo / 1000000
    let deltaHi := center * hi / 1000000
    (center + deltaLo, center + deltaHi)
  | .pct lo hi =>
    let deltaLo := center * lo / 100
    let deltaHi := center * hi / 100
    (center + deltaLo, center + deltaHi)
  | .da lo hi => (center + lo, center + hi)

/-- the comparator closure `|peak, query| peak.mass.total_cmp(query)` on non-NaN values -/
def cmp [LT α] [DecidableLT α] (x q : α) : Ordering :=
  if x < q then .lt else if q < x then .gt else .eq

/-- the `while size > 1` loop of std's `binary_search_by` (Rust 1.82+), with fuel -/
def binLoop [LT α] [DecidableLT α] (l : Array α) (q : α) : Nat → Nat → Nat → Nat
  | 0, _, base => base
  | fuel + 1, size, base =>
    if size > 1 then
      let half := size / 2
      let mid := base + half
      let base' := match l[mid]? with
        | some x => if cmp x q == .gt then base else mid
        | none => base
      binLoop l q fuel (size - half) base'
    else base

/-- std's `slice.binary_search_by(|a| a.total_cmp(q))`, `Ok(i) | Err(i) => i` -/
def binSearchBy [LT α] [DecidableLT α] (l : Array α) (q : α) : Nat :=
  if l.size = 0 then 0 else
  let base := binLoop l q l.size l.size 0
  match l[base]? with
  | some x => match cmp x q with
    | .eq => base
    | .lt => base + 1
    | .gt => base
  | none => base

/-- left walk of `binary_search_slice`:
    `while idx > 0 && key(&slice[idx], &low) != Ordering::Less { idx -= 1 }` -/
def walkLeft [LT α] [DecidableLT α] (l : Array α) (low : α) : Nat → Nat
  | 0 => 0
  | i + 1 => match l[i + 1]? with
    | some x => if x < low then i + 1 else walkLeft l low i
    | none => i + 1   -- out of bounds: Rust would panic; unreachable since the start index is ≤ len − 1

/-- right walk of `binary_search_slice` (with fuel):
    `while idx < slice.len() && key(&slice[idx], &high) != Ordering::Greater { idx += 1 }` -/
def walkRight [LT α] [DecidableLT α] (l : Array α) (high : α) (idx : Nat) : Nat → Nat
  | 0 => idx
  | f + 1 => match l[idx]? with
    | some x => if high < x then idx else walkRight l high (idx + 1) f
    | none => idx

/-- `binary_search_slice(slice, key, low, high)` with the two `binary_search_by` answers as
    parameters: `rLo` for `low` on the whole slice, `rHi` for `high` on `slice[left_idx..]` -/
def bss [LT α] [DecidableLT α] (l : Array α) (lo hi : α) (rLo rHi : Nat) : Nat × Nat :=
  let left := walkLeft l lo (rLo - 1)
  (left, min (walkRight l hi (rHi + left) (l.size - (rHi + left))) l.size)

/-- `peak.mass >= lo && peak.mass <= hi` -/
def inWin [LE α] [DecidableLE α] (lo hi : α) (p : Peak α) : Bool :=
  decide (lo ≤ p.mass) && decide (p.mass ≤ hi)

/-- loop body: `if peak.intensity >= max_int { max_int = peak.intensity; best_peak = Some(peak) }` -/
def scanStep [LE α] [DecidableLE α] (st : Option (Peak α) × α) (p : Peak α) : Option (Peak α) × α :=
  if st.2 ≤ p.intensity then (some p, p.intensity) else st

/-- the `for` loop over the filtered slice; `best_peak = None`, `max_int = 0.0` -/
def scan [LE α] [DecidableLE α] [OfNat α 0] (window : List (Peak α)) (lo hi : α) : Option (Peak α) :=
  ((window.filter (inWin lo hi)).foldl scanStep (none, (0 : α))).1

/-- `select_most_intense_peak` after the window `[lo, hi]` is known, for given answers of the two
    binary searches -/
def selectCore [LT α] [DecidableLT α] [LE α] [DecidableLE α] [OfNat α 0]
    (peaks : List (Peak α)) (lo hi : α) (rLo rHi : Nat) : Option (Peak α) :=
  let ms : Array α := (peaks.map (·.mass)).toArray
  let ij := bss ms lo hi rLo rHi
  scan ((peaks.drop ij.1).take (ij.2 - ij.1)) lo hi

/-- the executable instance: std's binary search plugged in -/
def selectIn [LT α] [DecidableLT α] [LE α] [DecidableLE α] [OfNat α 0]
    (peaks : List (Peak α)) (lo hi : α) : Option (Peak α) :=
  let ms : Array α := (peaks.map (·.mass)).toArray
  let rLo := binSearchBy ms lo
  let left := walkLeft ms lo (rLo - 1)
  let rHi := binSearchBy (ms.extract left ms.size) hi
  selectCore peaks lo hi rLo rHi

/-- the search window: `tolerance.bounds(center)` shifted by `offset.unwrap_or_default()` -/
def window [Add α] [Mul α] [Div α] [OfNat α 1000000] [OfNat α 100] [OfNat α 0]
    (center : α) (tol : Tol α) (offset : Option α) : α × α :=
  let b := tol.bounds center
  (b.1 + offset.getD 0, b.2 + offset.getD 0)

/-- `select_most_intense_peak(peaks, center, tolerance, offset)` -/
def select [LT α] [DecidableLT α] [LE α] [DecidableLE α] [Add α] [Mul α] [Div α]
    [OfNat α 1000000] [OfNat α 100] [OfNat α 0]
    (peaks : List (Peak α)) (center : α) (tol : Tol α) (offset : Option α) : Option (Peak α) :=
  let w := window center tol offset
  selectIn peaks w.1 w.2

/-- `peak.map(|p| p.intensity).unwrap_or_default()` — the value reported for an optional peak -/
def intensityOr0 [OfNat α 0] : Option (Peak α) → α
  | some p => p.intensity
  | none => 0

/-! ### specification (naive linear scan, no binary search) -/

/-- the peaks of the whole list that lie in the closed window, in list order -/
def inWindow [LE α] [DecidableLE α] (peaks : List (Peak α)) (lo hi : α) : List (Peak α) :=
  peaks.filter (inWin lo hi)

/-- executable check of a claimed result of `select…` against the definition:
    * `none`  ⇒ no peak in the window has intensity ≥ 0 (with intensities ≥ 0: the window is empty);
    * `some p` ⇒ `p` is one of the peaks in the window, `p.intensity ≥ 0`, no peak in the window is
      more intense, and every peak after the last occurrence of `p` in the window is strictly less
      intense (ties go to the last). -/
def selectOk [LE α] [DecidableLE α] [LT α] [DecidableLT α] [BEq α] [OfNat α 0]
    (peaks : List (Peak α)) (lo hi : α) (r : Option (Peak α)) : Bool :=
  let w := inWindow peaks lo hi
  match r with
  | none => w.all (fun q => !decide ((0 : α) ≤ q.intensity))
  | some p =>
    w.any (fun q => q.mass == p.mass && q.intensity == p.intensity) &&
    decide ((0 : α) ≤ p.intensity) &&
    w.all (fun q => decide (q.intensity ≤ p.intensity)) &&
    -- after the last occurrence of `p`, everything is strictly smaller
    ((w.reverse.takeWhile (fun q => !(q.mass == p.mass && q.intensity == p.intensity))).all
      (fun q => decide (q.intensity < p.intensity)))

end generic

end Sage.Select
