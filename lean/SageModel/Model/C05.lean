import SageModel.Proto
import SageModel.Generated.Consts

/-!
# C05 — model of in-silico digestion (`enzyme.rs`) and FASTA reading (`fasta.rs`); core Lean only

Sequences are byte lists (`List UInt8`); the statement is about ASCII content (for non-ASCII text
`str::get(a..b)` may return `None` and `trim` knows more white space — outside the model).

* `Enzyme.new`, `EnzymeBuilder → EnzymeParameters` (`database.rs`) with their defaults and asserts;
* `Enzyme::cleavage_sites`: the loop over the regex matches with the `skip_suffix` test exactly as
  coded. The regex engine is a parameter: `Enzyme::new` can only build `[set]` (one match per
  residue in the set) and `$` (one empty match at the end of the text); `findIter` is their meaning;
* non-specific sites, `missed_cleavage_sites` (windows of 1..=mc+1 appended after the originals),
  `semi_enzymatic_sites`, and the final loop of `digest` (`get(a..b)`, length bounds, `seen` set,
  `Position`);
* `Fasta::parse` as a line state machine (`lines()`, `is_empty`, `trim`, `strip_prefix('>')`,
  `split_ascii_whitespace().next().unwrap()`, decoy-tag filter); `none` = the `unwrap` panic.

The **spec** (second half) is written independently of the algorithm: boundaries, allowed spans by
O(n²) enumeration, and Boolean clauses evaluated by the driver on the implementation's output.
-/

namespace Sage.C05

abbrev Seq := List UInt8

/-! ## enzyme construction -/

/-- the regex shapes `Enzyme::new` can build, by their meaning -/
inductive Pattern where
  /-- `[set]`: one (one-byte) match at every residue that is in the set -/
  | cls (set : List UInt8)
  /-- `$`: exactly one empty match, at the end of the text -/
  | eos
deriving Repr, DecidableEq

structure Enzyme where
  pat : Pattern
  skip : Option UInt8
  cTerminal : Bool
  semi : Bool
deriving Repr, DecidableEq

def validAA (c : UInt8) : Bool := Sage.Gen.VALID_AA.contains c.toNat

/-- `Enzyme::new`. Outer `none` = one of the two `assert!`s fails (panic); `some none` = no enzyme
    (non-specific digestion). `36` is `'$'`. -/
def Enzyme.new (cleave : Seq) (skip : Option UInt8) (cTerm semi : Bool) : Option (Option Enzyme) :=
  if !(cleave.all validAA || cleave == [36]) then none
  else if !(skip.all validAA) then none
  else if cleave.isEmpty then some none
  else if cleave == [36] then
    some (some { pat := .eos, skip := none, cTerminal := true, semi := false })
  else some (some { pat := .cls cleave, skip := skip, cTerminal := cTerm, semi := semi })

structure Params where
  mc : Nat
  minLen : Nat
  maxLen : Nat
  enzyme : Option Enzyme
deriving Repr

/-- `EnzymeBuilder` (all fields optional) -/
structure Builder where
  mc : Option Nat
  minLen : Option Nat
  maxLen : Option Nat
  cleaveAt : Option Seq
  restrict : Option UInt8
  cTerminal : Option Bool
  semi : Option Bool

/-- `impl From<EnzymeBuilder> for EnzymeParameters`; `none` = panic in `Enzyme::new`.
    Defaults: 1 missed cleavage, lengths 5..=50, cleave at "KR", C-terminal, not semi; the
    restriction has no default here (`None` stays `None`). -/
def Builder.toParams (b : Builder) : Option Params :=
  (Enzyme.new (b.cleaveAt.getD [75, 82]) b.restrict (b.cTerminal.getD true) (b.semi.getD false)).map
    fun e => { mc := b.mc.getD 1, minLen := b.minLen.getD 5, maxLen := b.maxLen.getD 50, enzyme := e }

/-! ## cleavage sites -/

structure Site where
  start : Nat
  stop : Nat
  mc : Nat
  semi : Bool
deriving Repr, DecidableEq

def inSet (set : List UInt8) : Option UInt8 → Bool
  | some c => set.contains c
  | none => false

/-- `regex.find_iter(sequence)`: `(start, end)` of every match, in order -/
def findIter (pat : Pattern) (s : Seq) : List (Nat × Nat) :=
  match pat with
  | .cls set => ((List.range s.length).filter (fun p => inSet set s[p]?)).map (fun p => (p, p + 1))
  | .eos => [(s.length, s.length)]

/-- `right < sequence.len() && sequence[right..].starts_with(skip)` -/
def skipAt (e : Enzyme) (s : Seq) (right : Nat) : Bool :=
  match e.skip with
  | some k => decide (right < s.length) && s[right]? == some k
  | none => false

/-- the `for mat in find_iter` loop of `Enzyme::cleavage_sites`, carrying `left`;
    the final push `left..len` is the `[]` case -/
def sitesLoop (e : Enzyme) (s : Seq) : List (Nat × Nat) → Nat → List Site
  | [], left => [⟨left, s.length, 0, false⟩]
  | m :: rest, left =>
    if skipAt e s (if e.cTerminal then m.2 else m.1) then sitesLoop e s rest left
    else ⟨left, if e.cTerminal then m.2 else m.1, 0, false⟩ ::
      sitesLoop e s rest (if e.cTerminal then m.2 else m.1)

def Enzyme.cleavageSites (e : Enzyme) (s : Seq) : List Site := sitesLoop e s (findIter e.pat s) 0

/-- non-specific digest: `for len in min..=max { for i in 0..=n.saturating_sub(len) { i..i+len } }`
    (for `len > n` this yields the single out-of-range site `0..len`, dropped later by `get`) -/
def nonSpecificSites (minLen maxLen n : Nat) : List Site :=
  (List.range (maxLen + 1 - minLen)).flatMap fun d =>
    (List.range (n - (minLen + d) + 1)).map fun i => ⟨i, i + (minLen + d), 0, false⟩

def cleavageSites (par : Params) (s : Seq) : List Site :=
  match par.enzyme with
  | some e => e.cleavageSites s
  | none => nonSpecificSites par.minLen par.maxLen s.length

/-- `sites.windows(k+1)` mapped to `win[0].start .. win[k].end`, labelled `k` -/
def windows (k : Nat) : List Site → List Site
  | [] => []
  | a :: rest =>
    (match (a :: rest)[k]? with
     | some z => [⟨a.start, z.stop, k, false⟩]
     | none => []) ++ windows k rest

/-- `missed_cleavage_sites`: for `cleavage in 1..=1+mc` the windows of that size, appended after the
    originals (so window size 1 repeats the originals) -/
def missedCleavageSites (sites : List Site) (mc : Nat) : List Site :=
  sites ++ (List.range (mc + 1)).flatMap (fun k => windows k sites)

/-- the two semi-enzymatic children per `cut_site in start..end` -/
def semiOf (x : Site) : List Site :=
  (List.range (x.stop - x.start)).flatMap fun d =>
    [⟨x.start, x.start + d, x.mc, true⟩, ⟨x.start + d, x.stop, x.mc, true⟩]

def semiEnzymaticSites (sites : List Site) : List Site := sites ++ sites.flatMap semiOf

/-! ## the digest loop -/

inductive Position where
  | nterm | cterm | full | internal
deriving Repr, DecidableEq

structure Digest where
  seq : Seq
  mc : Nat
  pos : Position
  semi : Bool
deriving Repr, DecidableEq

/-- `s[i..j]` -/
def sub (s : Seq) (i j : Nat) : Seq := (s.drop i).take (j - i)

/-- `sequence.get(a..b)` on ASCII text -/
def getRange (s : Seq) (a b : Nat) : Option Seq :=
  if a ≤ b ∧ b ≤ s.length then some (sub s a b) else none

def posOf (n a b : Nat) : Position :=
  if a = 0 then (if b = n then .full else .nterm) else (if b = n then .cterm else .internal)

def lenOk (par : Params) (len : Nat) : Bool :=
  decide (par.minLen ≤ len) && decide (len ≤ par.maxLen) && decide (0 < len)

/-- the final loop of `digest`; `seen` is the `FnvHashSet` (as a list) -/
def digestLoop (par : Params) (s : Seq) : List Site → List Seq → List Digest
  | [], _ => []
  | x :: rest, seen =>
    match getRange s x.start x.stop with
    | none => digestLoop par s rest seen
    | some w =>
      if lenOk par w.length && !seen.contains w then
        ⟨w, x.mc, posOf s.length x.start x.stop, x.semi⟩ :: digestLoop par s rest (w :: seen)
      else digestLoop par s rest seen

def isSemi (par : Params) : Bool :=
  match par.enzyme with
  | some e => e.semi
  | none => false

/-- the full site list handed to the final loop -/
def allSites (par : Params) (s : Seq) : List Site :=
  let sites := cleavageSites par s
  let mc := match par.enzyme with
    | none => 0
    | some _ => par.mc
  let sites := if mc = 0 then sites else missedCleavageSites sites mc
  if isSemi par then semiEnzymaticSites sites else sites

/-- `EnzymeParameters::digest` (the protein name and `decoy = false` are constant and omitted).
    `missed_cleavages` is a `u8` in the code and `1 + missed_cleavages` overflows at 255: the model
    is for `mc < 255`. -/
def digest (par : Params) (s : Seq) : List Digest := digestLoop par s (allSites par s) []

/-- `digest` including the one panic of the real function: `missed_cleavages` is a `u8` and
    `1 + missed_cleavages` overflows at 255. In the harness build (dev profile, overflow checks on)
    that is a panic; in a release build the sum wraps to 0, the range `1..=0` is empty and NO
    missed-cleavage window is generated, i.e. the digest silently behaves like `missed_cleavages = 0`.
    Without an enzyme the count is forced to 0 first and nothing overflows. -/
def digestP (par : Params) (s : Seq) : Option (List Digest) :=
  if par.enzyme.isSome && decide (255 ≤ par.mc) then none else some (digest par s)

/-! ## specification of digestion (independent of the algorithm) -/

/-- the residue test of the rule: for a C-terminal enzyme the residue *before* position `p` is a
    cleavage residue, for an N-terminal enzyme the residue *at* `p` is; `$` cleaves nowhere -/
def trig (e : Enzyme) (s : Seq) (p : Nat) : Bool :=
  match e.pat with
  | .eos => false
  | .cls set => if e.cTerminal then decide (0 < p) && inSet set s[p - 1]? else inSet set s[p]?

/-- "do not cleave if this residue follows the cleavage site" -/
def restricted (e : Enzyme) (s : Seq) (p : Nat) : Bool :=
  match e.skip with
  | some k => s[p]? == some k
  | none => false

/-- `p` is a cleavage position strictly inside the protein -/
def isCutPos (e : Enzyme) (s : Seq) (p : Nat) : Bool :=
  decide (0 < p) && decide (p < s.length) && trig e s p && !restricted e s p

/-- boundaries: the two protein termini and the cleavage positions -/
def isBd (e : Enzyme) (s : Seq) (p : Nat) : Bool := p == 0 || p == s.length || isCutPos e s p

/-- number of cleavage positions strictly inside `(i, j)` -/
def internal (e : Enzyme) (s : Seq) (i j : Nat) : Nat :=
  ((List.range' (i + 1) (j - i - 1)).filter (isCutPos e s)).length

/-- a span `i..j` that may produce a peptide, with the missed-cleavage count of its (parent)
    fully enzymatic span, and whether it is a semi-enzymatic child -/
structure Cand where
  i : Nat
  j : Nat
  mc : Nat
  semi : Bool
deriving Repr, DecidableEq

/-- fully enzymatic spans: both ends boundaries, at most `mc` boundaries strictly inside -/
def fullSpans (e : Enzyme) (mc : Nat) (s : Seq) : List Cand :=
  (List.range (s.length + 1)).flatMap fun i =>
    (List.range (s.length + 1)).filterMap fun j =>
      if decide (i < j) && isBd e s i && isBd e s j && decide (internal e s i j ≤ mc)
      then some ⟨i, j, internal e s i j, false⟩ else none

/-- semi-enzymatic spans: exactly one end of a fully enzymatic parent moved strictly inside it -/
def semiSpans (e : Enzyme) (mc : Nat) (s : Seq) : List Cand :=
  (fullSpans e mc s).flatMap fun c =>
    (List.range' (c.i + 1) (c.j - c.i - 1)).flatMap fun x => [⟨c.i, x, c.mc, true⟩, ⟨x, c.j, c.mc, true⟩]

/-- non-specific: every window -/
def nonSpecificSpans (s : Seq) : List Cand :=
  (List.range (s.length + 1)).flatMap fun i =>
    (List.range (s.length + 1)).filterMap fun j =>
      if i < j then some ⟨i, j, 0, false⟩ else none

def allowed (par : Params) (s : Seq) : List Cand :=
  match par.enzyme with
  | none => nonSpecificSpans s
  | some e => fullSpans e par.mc s ++ (if e.semi then semiSpans e par.mc s else [])

/-- allowed spans whose length is within the bounds -/
def cands (par : Params) (s : Seq) : List Cand :=
  (allowed par s).filter fun c => lenOk par (c.j - c.i)

def produces (s : Seq) (c : Cand) (w : Seq) : Bool := sub s c.i c.j == w

def nodupB : List Seq → Bool
  | [] => true
  | x :: xs => !xs.contains x && nodupB xs

/-- each peptide once per protein -/
def clNodup (out : List Digest) : Bool := nodupB (out.map (·.seq))
/-- every peptide is the substring of an allowed span -/
def clSound (cs : List Cand) (s : Seq) (out : List Digest) : Bool :=
  out.all fun d => cs.any fun c => produces s c d.seq
/-- the substring of every allowed span is a peptide -/
def clComplete (cs : List Cand) (s : Seq) (out : List Digest) : Bool :=
  cs.all fun c => out.any fun d => produces s c d.seq
/-- label = minimum over the producing spans of the parent's missed-cleavage count -/
def clLabel (cs : List Cand) (s : Seq) (out : List Digest) : Bool :=
  out.all fun d =>
    (cs.any fun c => produces s c d.seq && c.mc == d.mc) &&
    (cs.all fun c => !produces s c d.seq || decide (d.mc ≤ c.mc))
/-- the position is that of some producing span -/
def clPos (cs : List Cand) (s : Seq) (out : List Digest) : Bool :=
  out.all fun d => cs.any fun c => produces s c d.seq && posOf s.length c.i c.j == d.pos
/-- flagged semi-enzymatic iff no fully enzymatic span produces the peptide -/
def clSemi (cs : List Cand) (s : Seq) (out : List Digest) : Bool :=
  out.all fun d => d.semi == !(cs.any fun c => !c.semi && produces s c d.seq)

/-- name of the first violated clause, or `ok` -/
def specVerdict (par : Params) (s : Seq) (out : List Digest) : String :=
  let cs := cands par s
  if !clNodup out then "bad:duplicate" else
  if !clSound cs s out then "bad:unsound" else
  if !clComplete cs s out then "bad:incomplete" else
  if !clLabel cs s out then "bad:label" else
  if !clPos cs s out then "bad:position" else
  if !clSemi cs s out then "bad:semi_flag" else "ok"

def specOk (par : Params) (s : Seq) (out : List Digest) : Bool :=
  let cs := cands par s
  clNodup out && clSound cs s out && clComplete cs s out && clLabel cs s out && clPos cs s out &&
    clSemi cs s out

/-! ## big proteins: verdict by comparison with the proved model

The O(n²)–O(n³) enumeration above is what the driver evaluates for proteins up to 160 residues.
Beyond that the verdict is taken against the model's own output, which is justified by two theorems:
`digest_meets_spec` (the model's output satisfies `specOk`) and `spec_unique` (any two outputs that
satisfy `specOk` have the same peptide sequences with the same label and semi flag). So a missing /
extra / duplicated sequence, a different label or a different semi flag IS a violation of the naive
spec. Only the position is not unique ("true of some occurrence"): it is accepted when equal to the
model's, and otherwise checked weakly (some occurrence of the string has that position). -/

def occursAt (s w : Seq) (pos : Position) : Bool :=
  (List.range (s.length + 1 - w.length)).any fun i =>
    posOf s.length i (i + w.length) == pos && sub s i (i + w.length) == w

def fastVerdict (s : Seq) (model impl : List Digest) : String :=
  if impl == model then "ok" else
  if !clNodup impl then "bad:duplicate" else
  if impl.any (fun d => !(model.any fun m => m.seq == d.seq)) then "bad:unsound" else
  if model.any (fun m => !(impl.any fun d => d.seq == m.seq)) then "bad:incomplete" else
  if impl.any (fun d => model.any fun m => m.seq == d.seq && m.mc != d.mc) then "bad:label" else
  if impl.any (fun d => model.any fun m => m.seq == d.seq && m.semi != d.semi) then "bad:semi_flag" else
  if impl.any (fun d => !occursAt s d.seq d.pos) then "bad:position" else "ok"

/-- the verdict the driver prints: naive spec up to 160 residues, comparison with the proved model beyond -/
def digestVerdict (par : Params) (s : Seq) (model impl : List Digest) : String :=
  if s.length ≤ 160 then
    (if (cands par s).length * (impl.length + 1) > 3000000 then "na" else specVerdict par s impl)
  else fastVerdict s model impl

/-! ## FASTA -/

/-- `char::is_whitespace` on ASCII (used by `str::trim`): TAB LF VT FF CR SPACE -/
def isWs (c : UInt8) : Bool := c == 32 || (decide (9 ≤ c) && decide (c ≤ 13))
/-- `u8::is_ascii_whitespace` (used by `split_ascii_whitespace`): no VT -/
def isAsciiWs (c : UInt8) : Bool := c == 32 || c == 9 || c == 10 || c == 12 || c == 13

def stripCR (l : Seq) : Seq := if l.getLast? == some 13 then l.dropLast else l

/-- `str::lines`: split after every `\n`; a piece that ends in `\n` loses it and then one `\r`;
    a last piece without `\n` is returned as it is; no empty last piece -/
def linesAux : Seq → Seq → List Seq
  | [], cur => if cur.isEmpty then [] else [cur]
  | c :: rest, cur => if c == 10 then stripCR cur :: linesAux rest [] else linesAux rest (cur ++ [c])

def lines (t : Seq) : List Seq := linesAux t []

def trimEnd (l : Seq) : Seq := (l.reverse.dropWhile isWs).reverse
def trim (l : Seq) : Seq := trimEnd (l.dropWhile isWs)

/-- `id.split_ascii_whitespace().next()` -/
def firstToken (id : Seq) : Option Seq :=
  let r := id.dropWhile isAsciiWs
  if r.isEmpty then none else some (r.takeWhile (fun c => !isAsciiWs c))

/-- `hay.contains(needle)` -/
def containsSub : Seq → Seq → Bool
  | [], needle => needle.isEmpty
  | c :: t, needle => needle.isPrefixOf (c :: t) || containsSub t needle

structure FState where
  targets : List (Seq × Seq)
  lastId : Seq
  s : Seq
deriving Repr

/-- `!acc.contains(&decoy_tag) || !generate_decoys` -/
def keep (tag : Seq) (gen : Bool) (acc : Seq) : Bool := !containsSub acc tag || !gen

/-- the `if !s.is_empty() { … push … }` block; `none` = `unwrap` on a missing first token -/
def flush (tag : Seq) (gen : Bool) (st : FState) : Option (List (Seq × Seq)) :=
  if st.s.isEmpty then some st.targets else
  match firstToken st.lastId with
  | none => none
  | some acc => some (if keep tag gen acc then st.targets ++ [(acc, st.s)] else st.targets)

def step (tag : Seq) (gen : Bool) (st : FState) (line : Seq) : Option FState :=
  if line.isEmpty then some st else
  match trim line with
  | 62 :: id => (flush tag gen st).map fun t => ⟨t, id, []⟩
  | l => some { st with s := st.s ++ l }

def parseLines (tag : Seq) (gen : Bool) : List Seq → FState → Option (List (Seq × Seq))
  | [], st => flush tag gen st
  | l :: ls, st =>
    match step tag gen st l with
    | none => none
    | some st' => parseLines tag gen ls st'

/-- `Fasta::parse(contents, decoy_tag, generate_decoys).targets`; `none` = panic -/
def parse (tag : Seq) (gen : Bool) (text : Seq) : Option (List (Seq × Seq)) :=
  parseLines tag gen (lines text) ⟨[], [], []⟩

/-! ## specification of FASTA reading (does not share the state machine)

Lines are the pieces between `\n`s, trimmed. A *record* is a header line (`>` first) together with
the lines after it up to the next header line; its accession is the first token of the header, its
sequence the concatenation of its lines. Records without sequence are not delivered; decoy-tagged
records are dropped iff decoys are generated. Text before the first header is not part of any record
(`Fasta::parse` panics on it unless it is blank — outside the statement). -/

/-- pieces between `\n`s (right fold; a trailing empty piece is harmless) -/
def splitNL : Seq → List Seq
  | [] => [[]]
  | c :: t =>
    match splitNL t with
    | [] => [[]]
    | h :: r => if c == 10 then [] :: h :: r else (c :: h) :: r

def isHeader (l : Seq) : Bool := l.head? == some 62

/-- `(header text after '>', concatenated sequence)` of every record, over trimmed lines -/
def specRecs : List Seq → List (Seq × Seq)
  | [] => []
  | l :: rest =>
    if isHeader l then (l.drop 1, (rest.takeWhile (fun x => !isHeader x)).flatten) :: specRecs rest
    else specRecs rest

/-- records with a sequence, as `(accession, sequence)`; `none` if such a record has no accession -/
def specNamed (recs : List (Seq × Seq)) : Option (List (Seq × Seq)) :=
  (recs.filter (fun r => !r.2.isEmpty)).mapM fun r => (firstToken r.1).map fun a => (a, r.2)

def specFasta (tag : Seq) (gen : Bool) (tlines : List Seq) : Option (List (Seq × Seq)) :=
  (specNamed (specRecs tlines)).map fun rs => rs.filter fun r => keep tag gen r.1

def fastaVerdict (tag : Seq) (gen : Bool) (text : Seq) (out : List (Seq × Seq)) : String :=
  match specNamed (specRecs ((splitNL text).map trim)) with
  | none => "na"
  | some all =>
    let want := all.filter fun r => keep tag gen r.1
    if out == want then "ok"
    else if out.length != want.length then
      (if out == all || out == all.filter (fun r => !keep tag gen r.1) then "bad:decoy_rule" else "bad:record_count")
    else if out.map (·.1) != want.map (·.1) then "bad:accession"
    else "bad:sequence"


/-! ## `Fasta::digest` (per-record digestion with the decoy flag) -/

/-- one output of `Fasta::digest`: accession, the digest, `decoy` -/
structure FItem where
  acc : Seq
  d : Digest
  decoy : Bool
deriving Repr, DecidableEq

/-- the `filter_map` closure of `Fasta::digest`: digests of a decoy-tagged protein are flagged decoy
    when decoys are not generated, and dropped when they are -/
def fastaDigestOf (tag : Seq) (gen : Bool) (par : Params) (recs : List (Seq × Seq)) : List FItem :=
  recs.flatMap fun r =>
    (digest par r.2).filterMap fun d =>
      if containsSub r.1 tag then (if !gen then some ⟨r.1, d, true⟩ else none) else some ⟨r.1, d, false⟩

/-- `Fasta::parse(text, tag, gen).digest(&params)`; `none` = panic in `parse`. The rayon
    `par_iter().flat_map_iter().collect()` is modelled by its contract: every record is digested
    once, results concatenated in record order, whatever the pool size. -/
def fastaDigest (tag : Seq) (gen : Bool) (par : Params) (text : Seq) : Option (List FItem) :=
  (parse tag gen text).map (fastaDigestOf tag gen par)

/-- spec side: the records of the independent FASTA spec, each digested, flagged by the decoy rule -/
def fdWant (tag : Seq) (gen : Bool) (par : Params) (recs : List (Seq × Seq)) : List FItem :=
  recs.flatMap fun r => (digest par r.2).map fun d => ⟨r.1, d, containsSub r.1 tag && !gen⟩

def countItem (l : List FItem) (acc w : Seq) : Nat := (l.filter fun it => it.acc == acc && it.d.seq == w).length

/-- is `a` a permutation of `b` (multiset equality by counting) -/
def permB (a b : List FItem) : Bool :=
  a.length == b.length && a.all fun x => (a.filter (· == x)).length == (b.filter (· == x)).length

/-- verdict on the implementation's per-pool outputs (`pools`: one list per rayon pool size) -/
def fdVerdict (tag : Seq) (gen : Bool) (par : Params) (text : Seq) (pools : List (List FItem)) : String :=
  match specFasta tag gen ((splitNL text).map trim) with
  | none => "na"
  | some recs =>
    let want := fdWant tag gen par recs
    match pools with
    | [] => "ok"
    | p0 :: ps =>
      if ps.any (fun p => !permB p p0) then "bad:thread_dependent"
      else if p0.any (fun it => it.decoy != (containsSub it.acc tag && !gen)) then "bad:decoy_flag"
      else if want.any (fun it => decide (countItem p0 it.acc it.d.seq < countItem want it.acc it.d.seq))
        then "bad:record_not_digested"
      else if !permB p0 want then "bad:digest_mismatch"
      else "ok"

end Sage.C05
