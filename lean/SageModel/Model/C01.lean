import SageModel.Proto
import SageModel.Generated.Consts
import SageModel.Generated.Columns
import SageModel.Model.C12

/-!
# C01 — end-to-end row truthfulness: the executable specification `RowOK`

This file is the *specification* side of C01 (core Lean only). Everything here is written as
naively as possible, directly from the property text, and deliberately independent of the models
of the search pipeline: it re-derives, from the inputs of a run (configuration, FASTA records,
spectra) and one row of an output table, whether the row is truthful.

* the peptide string parses; stripped of modifications it is a legal digestion product of every
  listed protein (after un-prefixing / un-reversing for generated decoys), and every protein of
  which it is a legal product is listed;
* its modifications are configured ones on eligible sites;
* `calcmass` equals the mass recomputed from the string (exact ℚ arithmetic on the exact values of
  the f32 constants, with a rounding allowance of `(n+4)·2⁻²³·M`);
* `expmass − isotope_error` agrees with `calcmass` within the precursor tolerance;
* label / protein list / decoy prefix / length / missed-cleavage / charge / rank / q-value columns
  agree with one another, and pin / matched-fragment rows join on `psm_id`.
-/

namespace Sage.C01
open Sage.Proto

/-! ## inputs of a run -/

structure Tol where
  kind : Nat      -- 0 = ppm, 1 = Da
  lo : Rat
  hi : Rat
deriving Repr

structure Cfg where
  cleave : List UInt8
  restrict : Option UInt8
  cterm : Bool
  semi : Bool
  mc : Nat
  minLen : Nat
  maxLen : Nat
  minMass : Rat
  maxMass : Rat
  statics : List (List UInt8 × Nat)          -- key, f32 bits
  vars : List (List UInt8 × List Nat)
  maxVar : Nat
  decoyTag : List UInt8
  genDecoys : Bool
  ptol : Tol
  ftol : Tol
  isoLo : Int
  isoHi : Int
  zLo : Nat
  zHi : Nat
  reportPsms : Nat
  chimera : Bool
  minPeaks : Nat
  maxPeaks : Nat
  minMatched : Nat
  maxFragCharge : Option Nat
  deisotope : Bool
  annotate : Bool
  pin : Bool
  predictRt : Bool
  batch : Nat
  bucket : Nat
  minIonIndex : Nat
  tmt : Nat            -- 0 = none, else the plex size name (6, 10, 11, 16, 18), MS2 level
  overrideCharge : Bool  -- `override_precursor_charge`: the annotated charge is ignored
  prefilter : Bool       -- `database.prefilter`: chunked pre-filter build of the database
  prefilterChunk : Nat
  -- `quant.lfq` / `quant.lfq_settings` (defaults of `LfqSettings::default()` when absent from the request)
  lfq : Bool := false
  lfqPeakScoring : Nat := 3     -- 0 RetentionTime, 1 SpectralAngle, 2 Intensity, 3 Hybrid
  lfqIntegration : Nat := 1     -- 0 Apex, 1 Sum
  lfqSpectralAngle : Rat := 7 / 10
  lfqPpm : Rat := 5
  lfqCombine : Bool := true
  -- `quant.tmt_settings`
  tmtLevel : Nat := 2
  tmtSn : Bool := false

/-- a spectrum that is not searched (mzML files only): an MS1 scan (LFQ signal) or the MS3 reporter scan of an MS2
    spectrum (`ref` = that spectrum's id) -/
structure Extra where
  level : Nat
  title : List UInt8
  rt : Nat                      -- f32 bits, seconds
  ref : Option (List UInt8 × Nat)
  inj : Nat                     -- f32 bits
  noise : Option Nat            -- a noise array holding this value (f32 bits) for every peak
  peaks : List (Nat × Nat)

/-- how one spectrum file was written -/
structure FileFmt where
  format : Nat := 0             -- 0 MGF, 1 mzML, 2 mzML.gz
  style : Nat := 0              -- bit 0: 64-bit m/z, bit 1: 64-bit intensity, bit 2: zlib, bit 3: time in minutes
  inj : List Nat := []          -- ion injection time (f32 bits) of the MS2 spectra
  extras : List Extra := []

structure Spectrum where
  title : List UInt8
  pepmz : Nat          -- f32 bits
  charge : Option Nat
  rt : Nat
  peaks : List (Nat × Nat)

structure Planted where
  file : Nat
  title : List UInt8
  peptide : List UInt8

structure Run where
  cfg : Cfg
  fasta : List (List UInt8 × List UInt8)     -- accession, sequence
  files : List (List Spectrum)
  planted : List Planted
  fmts : List FileFmt := []                  -- one per file; missing = MGF
  lfqPlanted : List (Nat × List UInt8 × Bool) := [] -- (file, peptide, exact): clean MS1 envelope of a planted peptide;
                                             -- exact = the envelope is exactly the theoretical isotope distribution
  parquet : Bool := false                    -- the harness ran the binary a second time with `--parquet`

def Run.fmt (run : Run) (i : Nat) : FileFmt := run.fmts.getD i {}

/-! ## rows -/

structure Row where
  psmId : Nat
  peptide : List UInt8
  proteins : List UInt8
  numProteins : Nat
  filename : List UInt8
  scannr : List UInt8
  rank : Nat
  label : Int
  expmass : Nat      -- f32 bits
  calcmass : Nat
  charge : Nat
  peptideLen : Nat
  missedCleavages : Nat
  semiEnzymatic : Nat
  isotopeError : Nat
  precursorPpm : Nat
  fragmentPpm : Nat
  hyperscore : Nat   -- f64 bits
  deltaNext : Nat
  deltaBest : Nat
  rt : Nat
  matchedPeaks : Nat
  longestB : Nat
  longestY : Nat
  scoredCandidates : Nat
  poisson : Nat
  discriminant : Nat
  posteriorError : Nat
  spectrumQ : Nat
  peptideQ : Nat
  proteinQ : Nat
  ms2Intensity : Nat
  matchedIntensityPct : Nat

structure PinRow where
  specId : Nat
  label : Int
  scanNr : List UInt8
  expMass : Nat
  calcMass : Nat
  fileName : List UInt8
  rank : Nat
  z2 : Nat
  z3 : Nat
  z4 : Nat
  z5 : Nat
  z6 : Nat
  zOther : Nat
  peptideLen : Nat
  missedCleavages : Nat
  peptide : List UInt8
  proteins : List UInt8

structure FragRow where
  psmId : Nat
  kind : List UInt8
  ordinal : Int
  charge : Int
  mzCalc : Nat
  mzExp : Nat
  intensity : Nat

/-! ## peptide strings: `[+m]-A[+m]BC-[+m]` -/

structure ParsedPeptide where
  nterm : Option Rat
  residues : List (UInt8 × Option Rat)
  cterm : Option Rat
deriving Repr

def isDigit (c : UInt8) : Bool := 48 ≤ c && c ≤ 57
def isUpper (c : UInt8) : Bool := 65 ≤ c && c ≤ 90

/-- decimal text `[+-]ddd[.ddd]` → exact rational; anything else → none (no exponent form:
    Rust's `{:+}` of an f32 never prints one) -/
def parseDecimal (s : List UInt8) : Option Rat :=
  let (neg, rest) := match s with
    | 43 :: r => (false, r)
    | 45 :: r => (true, r)
    | r => (false, r)
  let intPart := rest.takeWhile isDigit
  let rest2 := rest.dropWhile isDigit
  let fracPart := match rest2 with
    | 46 :: r => some r
    | [] => some []
    | _ => none
  match fracPart with
  | none => none
  | some frac =>
    if !frac.all isDigit || (intPart.isEmpty && frac.isEmpty) then none else
    let toNat (ds : List UInt8) : Nat := ds.foldl (fun a d => a * 10 + (d.toNat - 48)) 0
    let v : Rat := (toNat intPart : Rat) + (toNat frac : Rat) / ((10 ^ frac.length : Nat) : Rat)
    some (if neg then -v else v)

/-- `[` decimal `]` at the head of `s` -/
def parseBracket (s : List UInt8) : Option (Rat × List UInt8) :=
  match s with
  | 91 :: r =>
    let body := r.takeWhile (· != 93)
    match r.dropWhile (· != 93) with
    | 93 :: rest => (parseDecimal body).map (fun q => (q, rest))
    | _ => none
  | _ => none

/-- residues with optional bracket, until end of input or a `-` (C-terminal modification) -/
def parseResidues : Nat → List UInt8 → Option (List (UInt8 × Option Rat) × List UInt8)
  | 0, _ => none
  | _ + 1, [] => some ([], [])
  | fuel + 1, c :: rest =>
    if c == 45 then some ([], c :: rest) else
    if !isUpper c then none else
    match rest with
    | 91 :: _ =>
      match parseBracket rest with
      | none => none
      | some (q, rest') =>
        match parseResidues fuel rest' with
        | none => none
        | some (rs, tl) => some ((c, some q) :: rs, tl)
    | _ =>
      match parseResidues fuel rest with
      | none => none
      | some (rs, tl) => some ((c, none) :: rs, tl)

def parsePeptide (s : List UInt8) : Option ParsedPeptide :=
  let (nterm, rest) : Option Rat × List UInt8 :=
    match s with
    | 91 :: _ =>
      match parseBracket s with
      | some (q, 45 :: r) => (some q, r)
      | _ => (none, s)        -- will fail below: '[' is not a residue
    | _ => (none, s)
  match parseResidues (rest.length + 1) rest with
  | none => none
  | some (rs, tl) =>
    match tl with
    | [] => some { nterm := nterm, residues := rs, cterm := none }
    | 45 :: r =>
      match parseBracket r with
      | some (q, []) => some { nterm := nterm, residues := rs, cterm := some q }
      | _ => none
    | _ => none

def ParsedPeptide.seq (p : ParsedPeptide) : List UInt8 := p.residues.map (·.1)

/-! ## masses -/

/-- exact value of `MONOISOTOPIC_MASSES[c - 'A']` (0 for anything else) -/
def residueMass (c : UInt8) : Rat :=
  if isUpper c then (Sage.Gen.MONOISOTOPIC.getD (c.toNat - 65) 0) else 0

/-- mass recomputed from the parsed string, exactly -/
def recomputedMass (p : ParsedPeptide) : Rat :=
  Sage.Gen.H2O + (p.residues.map (fun (c, m) => residueMass c + m.getD 0)).sum
    + p.nterm.getD 0 + p.cterm.getD 0

def absR (q : Rat) : Rat := if q < 0 then -q else q

def f32val (bits : Nat) : Rat := (ratOfF32Bits bits).getD 0
def f32finite (bits : Nat) : Bool := (ratOfF32Bits bits).isSome
def f64val (bits : Nat) : Rat := (ratOfF64Bits bits).getD 0
def f64finite (bits : Nat) : Bool := (ratOfF64Bits bits).isSome

/-- does the decimal text value `q` denote the f32 with these bits? The displayed text is the
    shortest decimal that round-trips, so it lies within half an ulp (relative 2⁻²⁴) of the float -/
def denotesF32 (q : Rat) (bits : Nat) : Bool :=
  match ratOfF32Bits bits with
  | none => false
  | some v => absR (q - v) * (2 ^ 23 : Nat) ≤ absR v

/-! ## digestion legality (naive, straight from the enzyme rules) -/

def memB (c : UInt8) (l : List UInt8) : Bool := l.any (· == c)

/-- is `p` (0 < p < n) a cleavage position of `prot` under the configured enzyme? Mirrors the rule
    "cleave after (C-terminal) / before (N-terminal) a residue of `cleave`, unless the residue at the
    cut position is the restriction residue" — for N-terminal enzymes that residue is the cleavage
    residue itself, exactly as the program does it. -/
def isSite (cfg : Cfg) (prot : List UInt8) (p : Nat) : Bool :=
  if cfg.cleave == [36] then false else   -- "$": no digestion
  if p == 0 || p ≥ prot.length then false else
  let hit := if cfg.cterm then (match prot[p - 1]? with | some c => memB c cfg.cleave | none => false)
             else (match prot[p]? with | some c => memB c cfg.cleave | none => false)
  let blocked := match cfg.restrict, prot[p]? with
    | some r, some c => c == r
    | _, _ => false
  hit && !blocked

def isBoundary (cfg : Cfg) (prot : List UInt8) (p : Nat) : Bool :=
  p == 0 || p == prot.length || isSite cfg prot p

/-- number of cleavage sites strictly inside (i, j) -/
def internalSites (cfg : Cfg) (prot : List UInt8) (i j : Nat) : Nat :=
  ((List.range (j - i - 1)).filter (fun d => isSite cfg prot (i + 1 + d))).length

/-- the span [i, j) of `prot` is a fully enzymatic product with `k` missed cleavages -/
def fullSpan (cfg : Cfg) (prot : List UInt8) (i j : Nat) : Option Nat :=
  if i < j && j ≤ prot.length && isBoundary cfg prot i && isBoundary cfg prot j
     && internalSites cfg prot i j ≤ cfg.mc then some (internalSites cfg prot i j) else none

/-- all (missed-cleavage counts of) ways the span [i, j) is a legal product -/
def spanLegal (cfg : Cfg) (prot : List UInt8) (i j : Nat) : List Nat :=
  if cfg.cleave.isEmpty then
    -- non-specific digestion: every window within the length bounds
    if i < j && j ≤ prot.length then [0] else []
  else
  let full := (fullSpan cfg prot i j).toList
  if !cfg.semi then full else
  -- semi-enzymatic: one end of a fully enzymatic parent moved strictly inside it
  let right := (List.range (prot.length - j)).filterMap (fun d => fullSpan cfg prot i (j + 1 + d))
  let left := (List.range i).filterMap (fun i' => fullSpan cfg prot i' j)
  full ++ right ++ left

/-- missed-cleavage counts of all occurrences of `pep` in `prot` as a legal digestion product -/
def legalOccurrences (cfg : Cfg) (prot pep : List UInt8) : List Nat :=
  let n := pep.length
  if n == 0 || n < cfg.minLen || n > cfg.maxLen then [] else
  (List.range (prot.length + 1 - n)).flatMap (fun i =>
    if (prot.drop i).take n == pep then spanLegal cfg prot i (i + n) else [])

def isLegalProduct (cfg : Cfg) (prot pep : List UInt8) : Bool := !(legalOccurrences cfg prot pep).isEmpty

/-- un-reverse a generated decoy: first and last residue stay, the inside is reversed -/
def unreverse (s : List UInt8) : List UInt8 :=
  match s with
  | [] => []
  | [a] => [a]
  | a :: rest => a :: (rest.dropLast.reverse ++ [rest.getLast!])

def unreverseMods {β} [Inhabited β] (s : List β) : List β :=
  match s with
  | [] => []
  | [a] => [a]
  | a :: rest => a :: (rest.dropLast.reverse ++ [rest.getLast!])

/-! ## modifications -/

/-- does key `k` (documented syntax) apply to a residue `c` inside the sequence? -/
def keyIsResidue (k : List UInt8) (c : UInt8) : Bool := k == [c]

/-- N-terminal keys: `^` / `[` optionally followed by the first residue -/
def keyIsNterm (k : List UInt8) (first : UInt8) : Bool :=
  k == [94] || k == [91] || k == [94, first] || k == [91, first]
def keyIsCterm (k : List UInt8) (last : UInt8) : Bool :=
  k == [36] || k == [93] || k == [36, last] || k == [93, last]

def configuredMasses (cfg : Cfg) (applies : List UInt8 → Bool) : List Nat :=
  (cfg.statics.filter (fun (k, _) => applies k)).map (·.2) ++
  (cfg.vars.filter (fun (k, _) => applies k)).flatMap (·.2)

/-- every modification shown in the string is a configured mass on an eligible site; terminal keys
    with a residue (`^M`) put their mass on that residue or on the terminus — both are accepted here
    (which of the two is C06's business) -/
def modsConfigured (cfg : Cfg) (p : ParsedPeptide) : Bool :=
  let seq := p.seq
  match seq.head?, seq.getLast? with
  | some first, some last =>
    let n := seq.length
    let okRes := (List.range n).all (fun i =>
      match p.residues[i]? with
      | some (c, some q) =>
        let cands := configuredMasses cfg (fun k => keyIsResidue k c
          || (i == 0 && keyIsNterm k first && k.length == 2)
          || (i + 1 == n && keyIsCterm k last && k.length == 2))
        cands.any (denotesF32 q)
      | _ => true)
    let okN := match p.nterm with
      | some q => (configuredMasses cfg (fun k => keyIsNterm k first)).any (denotesF32 q)
      | none => true
    let okC := match p.cterm with
      | some q => (configuredMasses cfg (fun k => keyIsCterm k last)).any (denotesF32 q)
      | none => true
    okRes && okN && okC
  | _, _ => false

/-- static modifications are present on every eligible residue that shows no modification at all -/
def staticsPresent (cfg : Cfg) (p : ParsedPeptide) : Bool :=
  p.residues.all (fun (c, m) =>
    match m with
    | some _ => true
    | none => !(cfg.statics.any (fun (k, _) => keyIsResidue k c)))

/-! ## tolerances -/

def tolBounds (t : Tol) (center : Rat) : Rat × Rat :=
  if t.kind == 0 then (center + center * t.lo / 1000000, center + center * t.hi / 1000000)
  else (center + t.lo, center + t.hi)

/-! ## helpers over byte strings -/

def splitOn (sep : UInt8) (s : List UInt8) : List (List UInt8) :=
  let rec go (cur : List UInt8) (acc : List (List UInt8)) : List UInt8 → List (List UInt8)
    | [] => (cur.reverse :: acc).reverse
    | c :: rest => if c == sep then go [] (cur.reverse :: acc) rest else go (c :: cur) acc rest
  go [] [] s

def startsWith (s pre : List UInt8) : Bool := s.take pre.length == pre

def natToBytes (n : Nat) : List UInt8 := bytesOfStr (toString n)

def fileIndexWith (suf : List UInt8) (name : List UInt8) : Option Nat :=
  let pre := bytesOfStr "file"
  if startsWith name pre && name.length > pre.length + suf.length && name.drop (name.length - suf.length) == suf then
    let mid := (name.drop pre.length).take (name.length - pre.length - suf.length)
    if mid.all isDigit then (strOfBytes mid).toNat? else none
  else none

/-- the harness names the spectrum files `file<i>.mgf` / `file<i>.mzML` / `file<i>.mzML.gz` -/
def fileIndex (name : List UInt8) : Option Nat :=
  ((fileIndexWith (bytesOfStr ".mgf") name).orElse fun _ => fileIndexWith (bytesOfStr ".mzML.gz") name).orElse
    fun _ => fileIndexWith (bytesOfStr ".mzML") name

/-- the name the `filename` columns must show for input file `i` (the file name of the configured path) -/
def fileNameOf (run : Run) (i : Nat) : List UInt8 :=
  bytesOfStr "file" ++ natToBytes i ++
    bytesOfStr (match (run.fmt i).format with | 0 => ".mgf" | 1 => ".mzML" | _ => ".mzML.gz")

/-- index of the input file a `filename` cell names (the cell must be exactly that file's name) -/
def fileOf (run : Run) (name : List UInt8) : Option Nat :=
  (fileIndex name).bind fun fi => if fi < run.files.length && fileNameOf run fi == name then some fi else none

def findSpectrum (run : Run) (r : Row) : Option Spectrum := do
  let fi ← fileOf run r.filename
  let f ← run.files[fi]?
  f.find? (fun s => s.title == r.scannr)

/-! ## the row predicate -/

/-- first failing clause of `RowOK`, or `none` when the row is truthful -/
def rowViolation (run : Run) (r : Row) : Option String :=
  let cfg := run.cfg
  match parsePeptide r.peptide with
  | none => some "peptide_string_unparsable"
  | some p =>
    let seq := p.seq
    let decoy := r.label == -1
    if r.label != 1 && r.label != -1 then some "label_not_pm1" else
    -- the reported discriminant score is finite whether the rescoring model was fitted or the heuristic fallback used
    if !(f32finite r.discriminant) then some "discriminant_score_not_finite" else
    let names := splitOn 59 r.proteins
    if names.length != r.numProteins then some "num_proteins" else
    if seq.length != r.peptideLen then some "peptide_len" else
    -- decoy prefix / label agreement
    let tagged := names.all (fun n => startsWith n cfg.decoyTag)
    let labelOk :=
      if cfg.genDecoys then (if decoy then tagged else names.all (fun n => !(startsWith n cfg.decoyTag)))
      else (decoy == tagged)
    if !labelOk then some "label_vs_protein_names" else
    -- the target-side sequence and accession of every listed protein
    let targetSeq := if decoy && cfg.genDecoys then unreverse seq else seq
    let accOf (n : List UInt8) : List UInt8 := if decoy && cfg.genDecoys then n.drop cfg.decoyTag.length else n
    let lookup (n : List UInt8) : Option (List UInt8) := (run.fasta.find? (fun (a, _) => a == accOf n)).map (·.2)
    if names.any (fun n => (lookup n).isNone) then some "protein_not_in_fasta" else
    if names.any (fun n => match lookup n with | some s => !(isLegalProduct cfg s targetSeq) | none => true)
      then some "not_a_digestion_product_of_listed_protein" else
    -- completeness of the protein list: every FASTA record (tagged records are dropped by the reader when
    -- decoys are generated) of which the target-side sequence is a legal product is listed. Forms carrying a
    -- terminal modification are exempt when a protein-terminus key (`[` / `]`) is configured, because such a
    -- form exists only for occurrences at the protein terminus.
    let protTermKeys := (cfg.statics.map (·.1) ++ cfg.vars.map (·.1)).any (fun k => k.head? == some 91 || k.head? == some 93)
    let exempt := protTermKeys && (p.nterm.isSome || p.cterm.isSome || (p.residues.head?.bind (·.2)).isSome
                    || (p.residues.getLast?.bind (·.2)).isSome)
    -- (with FASTA-supplied decoys only records of the row's own class are demanded: a peptide shared by a
    --  target and a decoy-tagged protein is reported as a target listing its target proteins — C01 asks for
    --  agreement of the columns, not for decoy proteins on target rows)
    let candidates := run.fasta.filter (fun (a, _) =>
      if cfg.genDecoys then !(startsWith a cfg.decoyTag) else (startsWith a cfg.decoyTag == decoy))
    let missing := candidates.filter (fun (a, s) =>
      isLegalProduct cfg s targetSeq && !(names.any (fun n => accOf n == a)))
    if !exempt && !missing.isEmpty then some "protein_list_incomplete" else
    -- sorted, duplicate-free protein list
    if !(names.zip (names.drop 1)).all (fun (a, b) => strOfBytes a < strOfBytes b) then some "protein_list_not_sorted_set" else
    -- modifications
    if !modsConfigured cfg p then some "modification_not_configured" else
    -- a mass that is configured ONLY under a protein-terminus key (`[` / `]`, with or without a residue) may appear
    -- only on a peptide that has an occurrence at that terminus of one of its listed proteins
    let atProtN := names.any (fun n => match lookup n with | some s => startsWith s targetSeq | none => false)
    let atProtC := names.any (fun n => match lookup n with
      | some s => s.drop (s.length - targetSeq.length) == targetSeq | none => false)
    let onlyUnder (q : Rat) (prot : List UInt8 → Bool) (other : List UInt8 → Bool) : Bool :=
      (configuredMasses cfg prot).any (denotesF32 q) && !((configuredMasses cfg other).any (denotesF32 q))
    let firstR := seq.head?.getD 0
    let lastR := seq.getLast?.getD 0
    let nMass : List Rat := p.nterm.toList ++ ((p.residues.head?.bind (·.2)).toList.filter fun q =>
      !((configuredMasses cfg (fun k => keyIsResidue k firstR)).any (denotesF32 q)))
    let cMass : List Rat := p.cterm.toList ++ ((p.residues.getLast?.bind (·.2)).toList.filter fun q =>
      !((configuredMasses cfg (fun k => keyIsResidue k lastR)).any (denotesF32 q)))
    if !atProtN && nMass.any (fun q => onlyUnder q (fun k => k == [91] || k == [91, firstR]) (fun k => k == [94] || k == [94, firstR]))
      then some "protein_n_terminal_modification_on_other_peptide" else
    if !atProtC && cMass.any (fun q => onlyUnder q (fun k => k == [93] || k == [93, lastR]) (fun k => k == [36] || k == [36, lastR]))
      then some "protein_c_terminal_modification_on_other_peptide" else
    if !staticsPresent cfg p then some "static_modification_missing" else
    -- calcmass
    if !f32finite r.calcmass || !f32finite r.expmass || !f32finite r.isotopeError then some "mass_not_finite" else
    let m := recomputedMass p
    let calcM := f32val r.calcmass
    let allow := ((seq.length + 4 : Nat) : Rat) * absR m / (2 ^ 23 : Nat)
    if absR (calcM - m) > allow then some "calcmass_ne_recomputed" else
    if calcM < cfg.minMass - allow || calcM > cfg.maxMass + allow then some "calcmass_outside_peptide_mass_range" else
    -- expmass vs calcmass within the precursor tolerance after the reported isotope offset
    let expm := f32val r.expmass
    let iso := f32val r.isotopeError
    let (lo, hi) := tolBounds cfg.ptol (expm - iso)
    let slack := 8 * absR expm / (2 ^ 23 : Nat)
    if calcM < lo - slack || calcM > hi + slack then some "expmass_outside_precursor_tolerance" else
    -- the isotope offset is a configured one: k · NEUTRON with isoLo ≤ k ≤ isoHi
    let kOk := (List.range (cfg.isoHi - cfg.isoLo + 1).toNat).any (fun d =>
      let k : Int := cfg.isoLo + d
      absR (iso - (k : Rat) * Sage.Gen.NEUTRON) ≤ absR ((k : Rat) * Sage.Gen.NEUTRON) / (2 ^ 22 : Nat))
    if !kOk then some "isotope_error_not_configured" else
    -- missed cleavages / semi flag
    let mcs := names.flatMap (fun n => match lookup n with | some s => legalOccurrences cfg s targetSeq | none => [])
    if !(mcs.any (· == r.missedCleavages)) then some "missed_cleavages" else
    if r.semiEnzymatic > 1 || (r.semiEnzymatic == 1 && !cfg.semi) then some "semi_enzymatic_flag" else
    -- charge / expmass vs the spectrum
    match findSpectrum run r with
    | none => some "spectrum_not_in_input"
    | some sp =>
      let zOk := match sp.charge, cfg.overrideCharge with
        | some z, false => r.charge == z
        | _, _ => cfg.zLo ≤ r.charge && r.charge ≤ cfg.zHi
      if !zOk then some "charge" else
      let mz := f32val sp.pepmz
      let wantExp := (mz - Sage.Gen.PROTON) * (r.charge : Rat)
      if absR (expm - wantExp) > 4 * absR wantExp / (2 ^ 23 : Nat) then some "expmass_ne_precursor_mz_times_charge" else
      if r.rank == 0 || r.rank > cfg.reportPsms then some "rank_out_of_range" else
      -- q-values in (0, 1]
      let qOk (b : Nat) : Bool := match ratOfF32Bits b with | some q => 0 < q && q ≤ 1 | none => false
      if !qOk r.spectrumQ then some "spectrum_q_range" else
      if !qOk r.peptideQ then some "peptide_q_range" else
      if !qOk r.proteinQ then some "protein_q_range" else
      if !f64finite r.hyperscore || !f64finite r.deltaNext || !f64finite r.deltaBest then some "score_not_finite" else
      if f64val r.deltaBest < 0 then some "delta_best_negative" else
      if r.matchedPeaks < cfg.minMatched then some "matched_peaks_below_min" else
      none

/-! ## cross-row clauses -/

def sameSpectrum (a b : Row) : Bool := a.filename == b.filename && a.scannr == b.scannr

/-- ranks of every spectrum run 1..k without gaps; hyperscore non-increasing with rank (outside
    chimeric mode, where each PSM is scored on a different residual spectrum); psm ids unique -/
def tableViolation (run : Run) (rows : List Row) : Option String :=
  let ids := rows.map (·.psmId)
  if ids.eraseDups.length != ids.length then some "psm_id_not_unique" else
  let bad := rows.find? (fun r =>
    let grp := rows.filter (sameSpectrum r)
    let ranks := grp.map (·.rank)
    !((List.range grp.length).all (fun k => ranks.any (· == k + 1))))
  match bad with
  | some _ => some "ranks_not_1_to_k"
  | none =>
    if run.cfg.chimera then none else
    let bad2 := rows.find? (fun r => rows.any (fun s =>
      sameSpectrum r s && r.rank < s.rank && f64val r.hyperscore < f64val s.hyperscore))
    match bad2 with
    | some _ => some "hyperscore_not_nonincreasing_by_rank"
    | none => none

/-- insertion of a row into a list kept in decreasing discriminant-score order -/
def insertByScore (r : Row) : List Row → List Row
  | [] => [r]
  | x :: xs => if f32val x.discriminant < f32val r.discriminant then r :: x :: xs else x :: insertByScore r xs

/-- the spectrum-level q-value column equals the target-decoy definition (C12) applied to the rows in
    decreasing order of the reported discriminant score — this ties the caller's sort to C12. Undecided
    (not flagged) when two rows with different labels share a score: their relative order is then not
    determined by the reported columns. -/
def spectrumQViolation (rows : List Row) : Option String :=
  let sorted := rows.foldl (fun acc r => insertByScore r acc) []
  let ambiguous := (sorted.zip (sorted.drop 1)).any (fun (a, b) => a.discriminant == b.discriminant && a.label != b.label)
  if ambiguous || rows.any (fun r => !(f32finite r.discriminant)) then none else
  let labels := sorted.map (fun r => r.label == -1)
  let qs := (Sage.C12.spectrumQ labels).1
  if (sorted.zip qs).any (fun (r, q) => absR (f32val r.spectrumQ - q) * (2 ^ 22 : Nat) > q) then
    some "spectrum_q_ne_definition_in_discriminant_order" else none

def zOneHot (charge : Nat) : List Nat :=
  [if charge == 2 then 1 else 0, if charge == 3 then 1 else 0, if charge == 4 then 1 else 0,
   if charge == 5 then 1 else 0, if charge == 6 then 1 else 0, if charge < 2 || charge > 6 then charge else 0]

/-- every pin row repeats its TSV row -/
def pinViolation (rows : List Row) (pins : List PinRow) : Option String :=
  if pins.length != rows.length then some "pin_row_count" else
  match pins.find? (fun p =>
    match rows.find? (fun r => r.psmId == p.specId) with
    | none => true
    | some r => !(r.label == p.label && r.expmass == p.expMass && r.calcmass == p.calcMass && r.rank == p.rank
        && r.peptide == p.peptide && r.proteins == p.proteins && r.peptideLen == p.peptideLen
        && r.missedCleavages == p.missedCleavages && r.filename == p.fileName
        && zOneHot r.charge == [p.z2, p.z3, p.z4, p.z5, p.z6, p.zOther])) with
  | some _ => some "pin_row_disagrees_with_tsv_row"
  | none => none

/-- neutral mass of the b (N-terminal) / y (C-terminal) ion with the given ordinal, from the peptide string -/
def ionMassOf (p : ParsedPeptide) (isB : Bool) (ordinal : Nat) : Rat :=
  let ms := p.residues.map (fun (c, m) => residueMass c + m.getD 0)
  if isB then p.nterm.getD 0 + (ms.take ordinal).sum
  else Sage.Gen.H2O + p.cterm.getD 0 + (ms.drop (ms.length - ordinal)).sum

/-- matched-fragment rows join on psm_id; their number per PSM equals matched_peaks; kinds / ordinals are
    plausible; `fragment_mz_calculated` is (ion mass + z·PROTON)/z recomputed from the PSM's peptide string,
    and the experimental m/z lies within the fragment tolerance of it -/
def fragViolation (run : Run) (rows : List Row) (frags : List FragRow) : Option String :=
  if frags.any (fun f => !(rows.any (fun r => r.psmId == f.psmId))) then some "fragment_row_without_psm" else
  match rows.find? (fun r => (frags.filter (fun f => f.psmId == r.psmId)).length != r.matchedPeaks) with
  | some _ => some "matched_peaks_ne_fragment_rows"
  | none =>
    match frags.find? (fun f =>
      match rows.find? (fun r => r.psmId == f.psmId) with
      | none => true
      | some r => !(decide ((1 : Int) ≤ f.ordinal) && decide (f.ordinal < (r.peptideLen : Int)) && decide ((1 : Int) ≤ f.charge)
                    && (f.kind == bytesOfStr "b" || f.kind == bytesOfStr "y"))) with
    | some _ => some "fragment_ordinal_or_kind"
    | none =>
      match frags.find? (fun f =>
        match rows.find? (fun r => r.psmId == f.psmId) with
        | none => true
        | some r =>
          match parsePeptide r.peptide with
          | none => true
          | some p =>
            let z : Rat := ((f.charge.toNat : Nat) : Rat)
            let mass := ionMassOf p (f.kind == bytesOfStr "b") f.ordinal.toNat
            let want := (mass + z * Sage.Gen.PROTON) / z
            let calcV := f32val f.mzCalc
            let exp := f32val f.mzExp
            -- f32 rounding: the y series is obtained by subtracting cumulative sums from the TOTAL peptide mass,
            -- so the absolute error of even a light ion scales with the mass of the whole peptide
            let slack := ((r.peptideLen + 8 : Nat) : Rat) * (absR want + absR (recomputedMass p)) / (2 ^ 22 : Nat)
            let (lo, hi) := tolBounds run.cfg.ftol (want - Sage.Gen.PROTON)
            !(f32finite f.mzCalc && f32finite f.mzExp && absR (calcV - want) ≤ slack
              && lo - slack ≤ exp - Sage.Gen.PROTON && exp - Sage.Gen.PROTON ≤ hi + slack)) with
      | some _ => some "fragment_mz_ne_recomputed"
      | none => none

structure TmtRow where
  filename : List UInt8
  scannr : List UInt8
  inj : Nat := 0         -- `ion_injection_time`, f32 bits
  values : List Nat      -- f32 bits

/-- reporter m/z of the configured plex (tables regenerated from tmt.rs; pinned by Props/Consts) -/
def plexMasses (tmt : Nat) : List Rat :=
  if tmt == 6 then Sage.Gen.TMT6PLEX
  else if tmt == 10 then Sage.Gen.TMT11PLEX.take 10
  else if tmt == 11 then Sage.Gen.TMT11PLEX
  else if tmt == 16 then Sage.Gen.TMT18PLEX.take 16
  else if tmt == 18 then Sage.Gen.TMT18PLEX
  else []

/-- definitional reporter value: the largest intensity among the spectrum's RAW peaks whose m/z lies
    within ±20 ppm of the channel (0 when there is none); `none` when a peak sits within 1 ppm of a
    window edge (guard band: the verdict is then not decided here) -/
def reporterValue (sp : Spectrum) (label : Rat) : Option Rat :=
  let lo := label * (1 - 20 / 1000000)
  let hi := label * (1 + 20 / 1000000)
  let g := label / 1000000
  if sp.peaks.any (fun (mz, _) => let m := f32val mz; (absR (m - lo) < g) || (absR (m - hi) < g)) then none else
  some ((sp.peaks.filter (fun (mz, _) => let m := f32val mz; lo ≤ m && m ≤ hi)).foldl
    (fun acc (_, i) => if f32val i > acc then f32val i else acc) 0)

/-- the spectra `tmt.tsv` has a row for, as (file, id shown in `scannr`, ion injection time bits, peaks to read the
    reporters from, noise divisor): at MS2 level every MS2 spectrum of every file under its own id; at MS3 level every
    MS3 scan of the mzML files under the id of the MS2 spectrum it references. With `sn` the intensities of a scan
    of the quantified level that carries a noise array are divided by it (the harness writes a constant power of two,
    so the quotient is exact). MGF spectra have no injection time (0). -/
def tmtSources (run : Run) : List (Nat × List UInt8 × Nat × List (Nat × Nat) × Rat) :=
  run.files.zipIdx.flatMap fun fi =>
    let fmt := run.fmt fi.2
    if run.cfg.tmtLevel == 2 then
      fi.1.zipIdx.map fun sk => (fi.2, sk.1.title, (if fmt.format == 0 then 0 else fmt.inj.getD sk.2 0), sk.1.peaks, (1 : Rat))
    else if fmt.format == 0 then [] else
      (fmt.extras.filter fun e => e.level == run.cfg.tmtLevel).map fun e =>
        (fi.2, (e.ref.map (·.1)).getD [], e.inj, e.peaks,
         match run.cfg.tmtSn, e.noise with | true, some nz => f32val nz | _, _ => (1 : Rat))

/-- `tmt.tsv`: one row per spectrum of the quantified level (`tmtSources`), identified by (filename, scannr) — so
    every row joins the results table on the same two columns, and no two rows share them —; `ion_injection_time`
    is the spectrum's; one value per channel in plex order, each the most intense peak within 20 ppm of the channel
    (MS2-level quantification exempts the reporter region from deisotoping, so raw and processed agree there;
    MS3 scans are not deisotoped at all). -/
def tmtViolation (run : Run) (rows : List TmtRow) : Option String :=
  let masses := plexMasses run.cfg.tmt
  let srcs := tmtSources run
  if rows.length != srcs.length then some "tmt_row_count" else
  if rows.any (fun r => (rows.filter fun q => q.filename == r.filename && q.scannr == r.scannr).length != 1) then
    some "tmt_duplicate_file_scannr" else
  match rows.findSome? (fun r =>
    match (fileOf run r.filename).bind (fun fi => srcs.find? fun s => s.1 == fi && s.2.1 == r.scannr) with
    | none => some "tmt_row_of_unknown_spectrum"
    | some (_, _, inj, peaks, nz) =>
      if !(f32finite r.inj && f32val r.inj == f32val inj) then some "tmt_ion_injection_time" else
      if r.values.length != masses.length then some "tmt_channel_count" else
      let sp : Spectrum := { title := [], pepmz := 0, charge := none, rt := 0, peaks := peaks }
      if (List.range masses.length).any (fun k =>
          match reporterValue sp (masses.getD k 0), r.values[k]? with
          | some want, some got => !(f32finite got && f32val got * nz == want)
          | none, _ => false
          | _, none => true) then some "tmt_value_ne_most_intense_peak_in_window" else none) with
  | some c => some c
  | none => none

/-- every PSM row of a quantified spectrum finds its reporter row: at MS2 level every result row, at MS3 level every
    result row whose MS2 spectrum has an MS3 scan -/
def tmtJoinViolation (run : Run) (rows : List Row) (tmts : List TmtRow) : Option String :=
  let srcs := tmtSources run
  if rows.any (fun r =>
      match fileOf run r.filename with
      | none => true
      | some fi =>
        (srcs.any fun s => s.1 == fi && s.2.1 == r.scannr) &&
        !(tmts.any fun t => t.filename == r.filename && t.scannr == r.scannr)) then some "tmt_no_row_for_result_row" else none

/-! ## `lfq.tsv` -/

structure LfqRow where
  peptide : List UInt8
  charge : Int
  proteins : List UInt8
  q : Nat                -- f32 bits
  score : Nat            -- f64 bits
  angle : Nat            -- f64 bits
  values : List Nat      -- f64 bits, one per file column

structure LfqTable where
  fileCols : List (List UInt8)     -- the header cells after the six fixed columns
  rows : List LfqRow

/-- `0.01f32`, the threshold of `build_feature_map` (`feat.peptide_q <= 0.01`) -/
def onePercentF32 : Rat := f32val 1008981770

/-- does input file `i` contain any MS1 spectrum? (MGF files never do) -/
def hasMs1 (run : Run) (i : Nat) : Bool :=
  let fmt := run.fmt i
  fmt.format != 0 && fmt.extras.any (fun e => e.level == 1)

/-- `lfq.tsv` against the configuration, the input files and `results.sage.tsv`:
    * the file exists iff LFQ was requested; after the six fixed columns (pinned by `lfq_columns_ok`) there is one
      intensity column per input file, named and ordered like the input files;
    * every row is a (peptide, charge) precursor — charge `-1` iff charge states are combined, otherwise a searched
      precursor charge — of a peptide that `results.sage.tsv` reports as a TARGET (label 1) with `peptide_q ≤ 0.01`:
      no decoy peptide, no peptide that is not in the results, no peptide outside 1% peptide-level FDR;
    * its `proteins` cell is the `proteins` cell of that peptide's result rows;
    * `q_value ∈ (0, 1]`, `score ∈ (0, 1]`, `spectral_angle` finite, `≤ 1` and not below the configured threshold
      (a peak is only integrated where the intensity-weighted normalised spectral angle reaches it);
    * one finite intensity `≥ 0` per file, not all of them zero, and exactly `0` for a file without MS1 spectra;
    * no two rows with the same (peptide, charge);
    * a planted peptide with a clean MS1 isotope envelope in a file (generator's claim), whose result row is a target
      at 1% peptide-level FDR, has a row with a positive intensity in that file's column. (When the claim says the
      envelope is EXACTLY the theoretical distribution the clause has its own name: the cosine of identical vectors
      can round above 1, `acos` is then NaN and the peak is rejected — see findings/C01-lfq-exact-envelope.req.) -/
def lfqViolation (run : Run) (rows : List Row) (t : Option LfqTable) : Option String :=
  match run.cfg.lfq, t with
  | false, none => none
  | false, some _ => some "lfq_file_without_lfq_requested"
  | true, none => some "lfq_file_missing"
  | true, some t =>
    let nfiles := run.files.length
    if t.fileCols != (List.range nfiles).map (fileNameOf run) then some "lfq_file_columns_ne_input_files" else
    let passing (r : Row) : Bool := r.label == 1 && f32finite r.peptideQ && f32val r.peptideQ ≤ onePercentF32
    let eps : Rat := 1 / 1000000000
    match t.rows.findSome? (fun l =>
      let tagc (c : String) : Option String := some (c ++ "@" ++ strOfBytes l.peptide ++ "/" ++ toString l.charge)
      match parsePeptide l.peptide with
      | none => tagc "lfq_peptide_unparsable"
      | some _ =>
        let same := rows.filter (fun r => r.peptide == l.peptide)
        if same.isEmpty then tagc "lfq_peptide_not_in_results" else
        if same.any (fun r => r.label != 1) then tagc "lfq_decoy_peptide" else
        if !(same.any passing) then tagc "lfq_peptide_not_at_1pct_peptide_fdr" else
        if same.any (fun r => r.proteins != l.proteins) then tagc "lfq_proteins_ne_results" else
        if run.cfg.lfqCombine && l.charge != -1 then tagc "lfq_charge_not_combined" else
        if !run.cfg.lfqCombine && !(decide ((run.cfg.zLo : Int) ≤ l.charge) && decide (l.charge ≤ (run.cfg.zHi : Int))) then
          tagc "lfq_charge_not_searched" else
        (match ratOfF32Bits l.q with
         | none => tagc "lfq_q_value_range"
         | some q => if 0 < q && q ≤ 1 then none else tagc "lfq_q_value_range").orElse fun _ =>
        (match ratOfF64Bits l.score with
         | none => tagc "lfq_score_range"
         | some x => if 0 < x && x ≤ 1 + eps then none else tagc "lfq_score_range").orElse fun _ =>
        (match ratOfF64Bits l.angle with
         | none => tagc "lfq_spectral_angle_range"
         | some a =>
           if a > 1 + eps then tagc "lfq_spectral_angle_range" else
           if a < run.cfg.lfqSpectralAngle - eps then tagc "lfq_spectral_angle_below_threshold" else none).orElse fun _ =>
        if l.values.length != nfiles then tagc "lfq_intensity_columns" else
        if l.values.any (fun v => match ratOfF64Bits v with | some x => x < 0 | none => true) then
          tagc "lfq_intensity_negative_or_not_finite" else
        if l.values.all (fun v => f64val v == 0) then tagc "lfq_row_without_intensity" else
        if l.values.zipIdx.any (fun vi => !hasMs1 run vi.2 && f64val vi.1 != 0) then
          tagc "lfq_intensity_in_file_without_ms1" else
        none) with
    | some c => some c
    | none =>
      if t.rows.any (fun l => (t.rows.filter fun m => m.peptide == l.peptide && m.charge == l.charge).length != 1) then
        some "lfq_duplicate_peptide_charge" else
      run.lfqPlanted.findSome? fun fp =>
        if !(rows.any fun r => r.peptide == fp.2.1 && passing r && r.filename == fileNameOf run fp.1) then none else
        if t.rows.any (fun l => l.peptide == fp.2.1 &&
            (match l.values[fp.1]? with | some v => f64finite v && f64val v > 0 | none => false)) then none
        else if fp.2.2 then some "lfq_exact_isotope_envelope_not_quantified"
        else some ("lfq_planted_peptide_not_quantified@" ++ strOfBytes fp.2.1)

/-- how many of the generator's LFQ claims were live (their PSM is a target at 1% peptide-level FDR) -/
def lfqClaimsLive (run : Run) (rows : List Row) : Nat :=
  (run.lfqPlanted.filter fun fp => rows.any fun r =>
    r.peptide == fp.2.1 && r.label == 1 && f32finite r.peptideQ && f32val r.peptideQ ≤ onePercentF32 &&
    r.filename == fileNameOf run fp.1).length

/-- residue multiset with I and L identified (isobaric): sorted list of codes -/
def ilComposition (seq : List UInt8) : List UInt8 :=
  let norm := seq.map (fun c => if c == 73 then (76 : UInt8) else c)
  norm.foldl (fun acc c => (acc.filter (· < c)) ++ [c] ++ (acc.filter (fun x => !(x < c)))) []

def sameSpectrumAs (run : Run) (file : Nat) (title : List UInt8) (r : Row) : Bool :=
  r.filename == fileNameOf run file && r.scannr == title

/-- planted peptides: reported at rank 1 for their spectrum. When the planted target is displaced by
    a DECOY made of the same residues up to I/L (hence with an identical b/y mass ladder only if the
    reversal differs by I↔L swaps — an exact score tie that the stable sort resolves in favour of the
    lower peptide index), the clause has its own, narrow name: that behaviour is a known finding. -/
def plantedViolation (run : Run) (rows : List Row) : Option String :=
  run.planted.findSome? (fun pl =>
    if rows.any (fun r => sameSpectrumAs run pl.file pl.title r && r.rank == 1 && r.peptide == pl.peptide) then none else
    match rows.find? (fun r => sameSpectrumAs run pl.file pl.title r && r.rank == 1), parsePeptide pl.peptide with
    | some top, some want =>
      match parsePeptide top.peptide with
      | some got =>
        if top.label == -1 && got.seq != want.seq && ilComposition got.seq == ilComposition want.seq
           && got.seq.head? == want.seq.head? && got.seq.getLast? == want.seq.getLast?
        then some "planted_outranked_by_isobaric_decoy" else some "planted_peptide_not_rank_1"
      | none => some "planted_peptide_not_rank_1"
    | _, _ => some "planted_peptide_not_rank_1")

/-! ## parquet output (`sage --parquet`)

The harness runs the binary a SECOND time on the same inputs with `--parquet` (another output directory) and reads
`results.sage.parquet`, `matched_fragments.sage.parquet` and `lfq.parquet` back with the `parquet` crate's record
reader. `parquetViolation` says that these tables carry the same information as the TSV tables of the first run:

* psm ids are handed out by a shared counter while spectra are scored in parallel, so they differ from run to run:
  rows of the two runs are joined on **(filename, scannr, rank)** — unique in the TSV by `tableViolation` — and
  never on `psm_id`; fragment rows go through their own run's `psm_id` to their PSM row and from there through
  that key. Every other column of `results.sage.tsv` was observed to be identical between two runs of the same
  binary on the same inputs, which is what makes an exact comparison meaningful;
* every column the parquet schema shares with `results.sage.tsv` is compared exactly: text columns byte for byte,
  integer columns as integers, `is_decoy` against `label == -1`, `semi_enzymatic` against the 0/1 cell, f32 columns
  as bit patterns (the TSV prints the shortest decimal that round-trips — ryu — and the harness's `str::parse::<f32>`
  recovers the bits; two NaNs are equal whatever their payload). `hyperscore`, `delta_next`, `delta_best`, `poisson`
  are f64 in sage and in the TSV but f32 in the parquet schema (`as f32`): the parquet bits must be the IEEE
  round-to-nearest-even narrowing of the TSV's f64 (`Float.toFloat32`);
* `stripped_peptide` is the residue sequence of the `peptide` cell;
* `reporter_ion_intensity` of a PSM row is the channel list of the `tmt.tsv` row with the SAME (filename, scannr) —
  and null when the run has no such row (no TMT, MS3-level quantification of a spectrum without MS3 scan);
* `matched_fragments.sage.parquet` exists iff `--annotate-matches`; per PSM its rows are the TSV's fragment rows
  (as a multiset of (type, ordinal, charge, calculated m/z, experimental m/z, intensity));
* `lfq.parquet` exists iff `lfq.tsv` does. It is in LONG format (one row per precursor and input file, decoy
  precursors included) where the TSV is WIDE (one row per target precursor, one intensity column per file): the
  non-decoy rows of a (peptide, charge) — null charge ⇔ the TSV's `-1` — are exactly one per input file, carry the
  TSV row's `proteins` and `q_value`, and `intensity` is the f32 narrowing of that file's f64 TSV cell; every non-decoy
  parquet row belongs to a TSV row; decoy precursors (absent from the TSV) have one row per input file each;
* `--parquet` writes parquet INSTEAD of the TSV tables. -/

/-- the seven f32 columns of `results.sage.tsv` that `Row` does not carry (same order as the rows) -/
structure TsvExtra where
  alignedRt : Nat
  predictedRt : Nat
  deltaRtModel : Nat
  ionMobility : Nat
  predictedMobility : Nat
  deltaMobility : Nat
  longestYPct : Nat

/-- one row of `results.sage.parquet` (floats: f32 bits) -/
structure PqRow where
  psmId : Int
  filename : List UInt8
  scannr : List UInt8
  peptide : List UInt8
  stripped : List UInt8
  proteins : List UInt8
  numProteins : Int
  rank : Int
  isDecoy : Bool
  expmass : Nat
  calcmass : Nat
  charge : Int
  peptideLen : Int
  missedCleavages : Int
  semiEnzymatic : Bool
  ms2Intensity : Nat
  isotopeError : Nat
  precursorPpm : Nat
  fragmentPpm : Nat
  hyperscore : Nat
  deltaNext : Nat
  deltaBest : Nat
  rt : Nat
  alignedRt : Nat
  predictedRt : Nat
  deltaRtModel : Nat
  ionMobility : Nat
  predictedMobility : Nat
  deltaMobility : Nat
  matchedPeaks : Int
  longestB : Int
  longestY : Int
  longestYPct : Nat
  matchedIntensityPct : Nat
  scoredCandidates : Int
  poisson : Nat
  discriminant : Nat
  posteriorError : Nat
  spectrumQ : Nat
  peptideQ : Nat
  proteinQ : Nat
  reporters : Option (List (Option Nat))     -- `reporter_ion_intensity`: null, or a list of nullable f32

/-- one row of `matched_fragments.sage.parquet` -/
structure PqFragRow where
  psmId : Int
  kind : List UInt8
  ordinal : Int
  charge : Int
  mzCalc : Nat
  mzExp : Nat
  intensity : Nat

/-- one row of `lfq.parquet` (long format) -/
structure PqLfqRow where
  peptide : List UInt8
  stripped : List UInt8
  charge : Option Int
  proteins : List UInt8
  isDecoy : Bool
  q : Nat
  filename : List UInt8
  intensity : Nat

structure PqTables where
  extras : List TsvExtra
  rows : List PqRow
  frags : Option (List PqFragRow)
  lfq : Option (List PqLfqRow)
  tsvToo : Bool                      -- the `--parquet` run also wrote one of the TSV tables

/-- the optional trailing group of the reply -/
inductive PqReply where
  | absent                           -- the request did not ask for the parquet run
  | failed (cls : String)            -- the second run failed, or a file could not be read / lacks a column
  | tables (t : PqTables)

def f32IsNaN (b : Nat) : Bool := (b / 2 ^ 23) % 256 == 255 && b % 2 ^ 23 != 0

/-- equal as bit patterns; two NaNs are equal whatever their sign / payload (the TSV prints `NaN`) -/
def sameF32 (a b : Nat) : Bool := a == b || (f32IsNaN a && f32IsNaN b)

/-- f32 bits of `x as f32` for the f64 with these bits (IEEE round to nearest, ties to even) -/
def narrowF64 (b : Nat) : Nat := (Float.ofBits b.toUInt64).toFloat32.toBits.toNat

/-- `a` and `b` hold the same elements with the same multiplicities -/
def sameMultiset {α} [BEq α] : List α → List α → Bool
  | [], b => b.isEmpty
  | x :: a, b => b.any (· == x) && sameMultiset a (b.erase x)

def stripOf (peptide : List UInt8) : Option (List UInt8) := (parsePeptide peptide).map (·.seq)

/-- first column in which a parquet PSM row differs from the TSV row of the same (filename, scannr, rank) -/
def pqRowDiff (r : Row) (x : TsvExtra) (p : PqRow) : Option String :=
  if p.peptide != r.peptide then some "peptide" else
  if p.proteins != r.proteins then some "proteins" else
  if p.numProteins != (r.numProteins : Int) then some "num_proteins" else
  if p.isDecoy != (r.label == -1) then some "is_decoy" else
  if !sameF32 p.expmass r.expmass then some "expmass" else
  if !sameF32 p.calcmass r.calcmass then some "calcmass" else
  if p.charge != (r.charge : Int) then some "charge" else
  if p.peptideLen != (r.peptideLen : Int) then some "peptide_len" else
  if p.missedCleavages != (r.missedCleavages : Int) then some "missed_cleavages" else
  if p.semiEnzymatic != (r.semiEnzymatic == 1) then some "semi_enzymatic" else
  if !sameF32 p.ms2Intensity r.ms2Intensity then some "ms2_intensity" else
  if !sameF32 p.isotopeError r.isotopeError then some "isotope_error" else
  if !sameF32 p.precursorPpm r.precursorPpm then some "precursor_ppm" else
  if !sameF32 p.fragmentPpm r.fragmentPpm then some "fragment_ppm" else
  if !sameF32 p.hyperscore (narrowF64 r.hyperscore) then some "hyperscore" else
  if !sameF32 p.deltaNext (narrowF64 r.deltaNext) then some "delta_next" else
  if !sameF32 p.deltaBest (narrowF64 r.deltaBest) then some "delta_best" else
  if !sameF32 p.rt r.rt then some "rt" else
  if !sameF32 p.alignedRt x.alignedRt then some "aligned_rt" else
  if !sameF32 p.predictedRt x.predictedRt then some "predicted_rt" else
  if !sameF32 p.deltaRtModel x.deltaRtModel then some "delta_rt_model" else
  if !sameF32 p.ionMobility x.ionMobility then some "ion_mobility" else
  if !sameF32 p.predictedMobility x.predictedMobility then some "predicted_mobility" else
  if !sameF32 p.deltaMobility x.deltaMobility then some "delta_mobility" else
  if p.matchedPeaks != (r.matchedPeaks : Int) then some "matched_peaks" else
  if p.longestB != (r.longestB : Int) then some "longest_b" else
  if p.longestY != (r.longestY : Int) then some "longest_y" else
  if !sameF32 p.longestYPct x.longestYPct then some "longest_y_pct" else
  if !sameF32 p.matchedIntensityPct r.matchedIntensityPct then some "matched_intensity_pct" else
  if p.scoredCandidates != (r.scoredCandidates : Int) then some "scored_candidates" else
  if !sameF32 p.poisson (narrowF64 r.poisson) then some "poisson" else
  if !sameF32 p.discriminant r.discriminant then some "sage_discriminant_score" else
  if !sameF32 p.posteriorError r.posteriorError then some "posterior_error" else
  if !sameF32 p.spectrumQ r.spectrumQ then some "spectrum_q" else
  if !sameF32 p.peptideQ r.peptideQ then some "peptide_q" else
  if !sameF32 p.proteinQ r.proteinQ then some "protein_q" else
  none

/-- the parquet PSM rows of the TSV row's (filename, scannr, rank) -/
def pqPartners (pq : List PqRow) (r : Row) : List PqRow :=
  pq.filter fun p => p.filename == r.filename && p.scannr == r.scannr && p.rank == (r.rank : Int)

def pqAt (r : Row) : String := "@" ++ strOfBytes r.filename ++ ":" ++ strOfBytes r.scannr ++ "#" ++ toString r.rank

/-- `results.sage.parquet` against `results.sage.tsv` -/
def pqResultsViolation (rows : List Row) (t : PqTables) : Option String :=
  if t.extras.length != rows.length then some "parquet_unparsable_tsv_extras" else
  let ids := t.rows.map (·.psmId)
  if ids.eraseDups.length != ids.length then some "parquet_psm_id_not_unique" else
  match (rows.zip t.extras).findSome? (fun rx =>
    match pqPartners t.rows rx.1 with
    | [] => some ("parquet_row_missing" ++ pqAt rx.1)
    | [p] =>
      match pqRowDiff rx.1 rx.2 p with
      | some col => some ("parquet_value_ne_tsv:" ++ col ++ pqAt rx.1)
      | none =>
        if stripOf p.peptide != some p.stripped then some ("parquet_stripped_peptide_ne_peptide_sequence" ++ pqAt rx.1)
        else none
    | _ => some ("parquet_row_duplicate" ++ pqAt rx.1)) with
  | some c => some c
  | none =>
    -- every TSV row has exactly one partner and the keys are distinct: a surplus row has no TSV row
    if t.rows.length != rows.length then some "parquet_row_without_tsv_row" else none

/-- `reporter_ion_intensity` of every PSM row against the `tmt.tsv` row of the same (filename, scannr) -/
def pqReporterViolation (tmts : List TmtRow) (t : PqTables) : Option String :=
  t.rows.findSome? fun p =>
    let at_ := "@" ++ strOfBytes p.filename ++ ":" ++ strOfBytes p.scannr ++ "#" ++ toString p.rank
    match tmts.find? (fun q => q.filename == p.filename && q.scannr == p.scannr), p.reporters with
    | none, none => none
    | none, some _ => some ("parquet_reporter_ions_without_tmt_row" ++ at_)
    | some _, none => some ("parquet_reporter_ions_missing" ++ at_)
    | some q, some l =>
      if l.length == q.values.length &&
         (l.zip q.values).all (fun lv => match lv.1 with | some v => sameF32 v lv.2 | none => false) then none
      else some ("parquet_reporter_ions_ne_tmt_row" ++ at_)

def fragKeyTsv (f : FragRow) : List UInt8 × Int × Int × Nat × Nat × Nat :=
  (f.kind, f.ordinal, f.charge, f.mzCalc, f.mzExp, f.intensity)
def fragKeyPq (f : PqFragRow) : List UInt8 × Int × Int × Nat × Nat × Nat :=
  (f.kind, f.ordinal, f.charge, f.mzCalc, f.mzExp, f.intensity)

/-- `matched_fragments.sage.parquet` against `matched_fragments.sage.tsv` (joined through the PSM rows) -/
def pqFragViolation (run : Run) (rows : List Row) (frags : List FragRow) (t : PqTables) : Option String :=
  match run.cfg.annotate, t.frags with
  | false, none => none
  | false, some _ => some "parquet_fragments_file_without_annotate_matches"
  | true, none => some "parquet_fragments_file_missing"
  | true, some pf =>
    if pf.any (fun f => !(t.rows.any fun p => p.psmId == f.psmId)) then some "parquet_fragment_row_without_psm" else
    rows.findSome? fun r =>
      match pqPartners t.rows r with
      | [p] =>
        let a := (frags.filter fun f => f.psmId == r.psmId).map fragKeyTsv
        let b := (pf.filter fun f => f.psmId == p.psmId).map fragKeyPq
        if sameMultiset a b then none else some ("parquet_fragments_ne_tsv" ++ pqAt r)
      | _ => some ("parquet_row_missing" ++ pqAt r)

def lfqChargeOf (c : Int) : Option Int := if c == -1 then none else some c

/-- `lfq.parquet` (long) against `lfq.tsv` (wide) -/
def pqLfqViolation (lfq : Option LfqTable) (t : PqTables) : Option String :=
  match lfq, t.lfq with
  | none, none => none
  | none, some _ => some "parquet_lfq_file_without_lfq_tsv"
  | some _, none => some "parquet_lfq_file_missing"
  | some w, some pl =>
    let n := w.fileCols.length
    let targets := pl.filter fun x => !x.isDecoy
    match w.rows.findSome? (fun l =>
      let at_ := "@" ++ strOfBytes l.peptide ++ "/" ++ toString l.charge
      let grp := targets.filter fun x => x.peptide == l.peptide && x.charge == lfqChargeOf l.charge
      if grp.length != n then some ("parquet_lfq_rows_ne_one_per_file" ++ at_) else
      w.fileCols.zipIdx.findSome? fun ci =>
        match grp.filter (fun x => x.filename == ci.1) with
        | [x] =>
          if x.proteins != l.proteins then some ("parquet_lfq_value_ne_tsv:proteins" ++ at_) else
          if !sameF32 x.q l.q then some ("parquet_lfq_value_ne_tsv:q_value" ++ at_) else
          if !(match l.values[ci.2]? with | some v => sameF32 x.intensity (narrowF64 v) | none => false) then
            some ("parquet_lfq_value_ne_tsv:intensity" ++ at_ ++ "@" ++ strOfBytes ci.1) else
          if stripOf x.peptide != some x.stripped then some ("parquet_lfq_stripped_peptide_ne_peptide_sequence" ++ at_) else
          none
        | _ => some ("parquet_lfq_rows_ne_one_per_file" ++ at_)) with
    | some c => some c
    | none =>
      if targets.any (fun x => !(w.rows.any fun l => l.peptide == x.peptide && lfqChargeOf l.charge == x.charge)) then
        some "parquet_lfq_row_without_tsv_row" else
      -- decoy precursors are not in the TSV: shape only (each of them once per input file)
      let decoys := pl.filter fun x => x.isDecoy
      if decoys.any (fun x =>
          let grp := decoys.filter fun y => y.peptide == x.peptide && y.charge == x.charge
          n == 0 || grp.length % n != 0 ||
          w.fileCols.any fun c => (grp.filter fun y => y.filename == c).length != grp.length / n) then
        some "parquet_lfq_decoy_rows_ne_one_per_file" else
      if decoys.any (fun x => stripOf x.peptide != some x.stripped) then
        some "parquet_lfq_stripped_peptide_ne_peptide_sequence" else none

/-- the parquet tables of the second (`--parquet`) run against the TSV tables of the first -/
def parquetViolation (run : Run) (rows : List Row) (frags : List FragRow) (tmts : List TmtRow)
    (lfq : Option LfqTable) (pq : PqReply) : Option String :=
  match run.parquet, pq with
  | false, .absent => none
  | false, _ => some "parquet_tables_without_request"
  | true, .absent => some "parquet_tables_missing_from_reply"
  | true, .failed cls => some ("parquet_run_failed_" ++ cls)
  | true, .tables t =>
    (pqResultsViolation rows t).orElse fun _ =>
    (pqReporterViolation tmts t).orElse fun _ =>
    (pqFragViolation run rows frags t).orElse fun _ =>
    (pqLfqViolation lfq t).orElse fun _ =>
    if t.tsvToo then some "parquet_mode_also_wrote_tsv" else none

/-! ## column tables (regenerated from runner.rs by the translator): header ↦ field -/

/-- what each TSV header must carry, as the (normalised) Rust expression of the pushed field -/
def expectedTsv : List (String × String) := [
  ("psm_id", "feature.psm_id"),
  ("peptide", "peptide.to_string()"),
  ("proteins", "peptide.proteins(&self.database.decoy_tag,self.database.generate_decoys)"),
  ("num_proteins", "peptide.proteins.len()"),
  ("filename", "filenames[feature.file_id]"),
  ("scannr", "feature.spec_id"),
  ("rank", "feature.rank"),
  ("label", "feature.label"),
  ("expmass", "feature.expmass"),
  ("calcmass", "feature.calcmass"),
  ("charge", "feature.charge"),
  ("peptide_len", "feature.peptide_len"),
  ("missed_cleavages", "feature.missed_cleavages"),
  ("semi_enzymatic", "peptide.semi_enzymaticasu8"),
  ("isotope_error", "feature.isotope_error"),
  ("precursor_ppm", "feature.delta_mass"),
  ("fragment_ppm", "feature.average_ppm"),
  ("hyperscore", "feature.hyperscore"),
  ("delta_next", "feature.delta_next"),
  ("delta_best", "feature.delta_best"),
  ("rt", "feature.rt"),
  ("aligned_rt", "feature.aligned_rt"),
  ("predicted_rt", "feature.predicted_rt"),
  ("delta_rt_model", "feature.delta_rt_model"),
  ("ion_mobility", "feature.ims"),
  ("predicted_mobility", "feature.predicted_ims"),
  ("delta_mobility", "feature.delta_ims_model"),
  ("matched_peaks", "feature.matched_peaks"),
  ("longest_b", "feature.longest_b"),
  ("longest_y", "feature.longest_y"),
  ("longest_y_pct", "feature.longest_y_pct"),
  ("matched_intensity_pct", "feature.matched_intensity_pct"),
  ("scored_candidates", "feature.scored_candidates"),
  ("poisson", "feature.poisson"),
  ("sage_discriminant_score", "feature.discriminant_score"),
  ("posterior_error", "feature.posterior_error"),
  ("spectrum_q", "feature.spectrum_q"),
  ("peptide_q", "feature.peptide_q"),
  ("protein_q", "feature.protein_q"),
  ("ms2_intensity", "feature.ms2_intensity")]

def expectedFrag : List (String × String) := [
  ("psm_id", "psm_id"),
  ("fragment_type", "ion_type"),
  ("fragment_ordinals", "fragments.fragment_ordinals[id]"),
  ("fragment_charge", "fragments.charges[id]"),
  ("fragment_mz_calculated", "fragments.mz_calculated[id]"),
  ("fragment_mz_experimental", "fragments.mz_experimental[id]"),
  ("fragment_intensity", "fragments.intensities[id]")]

/-- the PIN columns that repeat TSV columns -/
def expectedPinShared : List (String × String) := [
  ("SpecId", "feature.psm_id"),
  ("Label", "feature.label"),
  ("ScanNr", "scannr"),
  ("ExpMass", "feature.expmass"),
  ("CalcMass", "feature.calcmass"),
  ("FileName", "filenames[feature.file_id]"),
  ("retentiontime", "feature.rt"),
  ("ion_mobility", "feature.ims"),
  ("rank", "feature.rank")]

def expectedTmt : List (String × String) := [
  ("filename", "filenames[q.file_id]"), ("scannr", "q.spec_id"), ("ion_injection_time", "q.ion_injection_time")]

def expectedLfq : List (String × String) := [
  ("peptide", "self.database[peptide_ix].to_string()"),
  ("charge", "charge.unwrap_or(-1)"),
  ("proteins", "self.database[peptide_ix].proteins(&self.database.decoy_tag,self.database.generate_decoys)"),
  ("q_value", "peak.q_value"),
  ("score", "peak.score"),
  ("spectral_angle", "peak.spectral_angle")]

/-- documented defaults (DOCS.md) applied by `Input::build` to absent optional settings -/
def expectedInputDefaults : List (String × String) := [
  ("report_psms", ".unwrap_or(1)"),
  ("max_peaks", ".unwrap_or(150)"),
  ("min_peaks", ".unwrap_or(15)"),
  ("min_matched_peaks", ".unwrap_or(4)"),
  ("annotate_matches", ".unwrap_or(false)"),
  ("precursor_charge", ".unwrap_or((2,4))"),
  ("override_precursor_charge", ".unwrap_or(false)"),
  ("isotope_errors", ".unwrap_or((0,0))"),
  ("deisotope", ".unwrap_or(true)"),
  ("chimera", ".unwrap_or(false)"),
  ("wide_window", ".unwrap_or(false)"),
  ("predict_rt", ".unwrap_or(true)"),
  ("write_pin", ".unwrap_or(false)")]

def expectedDatabaseDefaults : List (String × String) := [
  ("peptide_min_mass", ".unwrap_or(500.0)"),
  ("peptide_max_mass", ".unwrap_or(5000.0)"),
  ("ion_kinds", ".unwrap_or(vec![Kind::B,Kind::Y])"),
  ("min_ion_index", ".unwrap_or(2)"),
  ("decoy_tag", ".unwrap_or_else(||\"rev_\".into())"),
  ("max_variable_mods", ".map(|x|x.max(1)).unwrap_or(2)"),
  ("generate_decoys", ".unwrap_or(true)")]

/-- every expected (key, value) pair occurs in the regenerated table -/
def tableHas (table expected : List (String × String)) : Bool :=
  expected.all (fun e => table.any (fun t => t == e))

end Sage.C01
