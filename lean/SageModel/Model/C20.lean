import SageModel.Proto

/-!
# C20 — model of `sage_core::ml::retention_alignment::global_alignment` and of the
`predict` step of `retention_model` / `mobility_model` (core Lean only)

The model is written once, generically in the number type `α`:

* `α := Float` (IEEE binary64) in the driver — the same operations in the same order as the Rust
  code, except that the Rust code visits the rows of the RT matrix in `DashMap` order (not fixed), so
  the per-file sums are compared within a stated summation bound (see `Drv/C20.lean`);
* `α := Rat` / any ordered field in the theorems (`Props/C20.lean`) and in the executable spec;
* `α := XQ` (`Option Rat`, `none` = NaN/±∞, `x / 0 = none`) for the finiteness theorems.

Rust, `retention_alignment.rs` (as repaired: a file whose largest `ceil(rt)` is 0 gets `max_rt = 1`):

```
max_rt[f]   = max over features of file f of (rt.ceil() as u32)            ; 0 ⇒ 1.0
rts[p][f]   = min rt over the confident targets (label == 1 && spectrum_q <= 0.01) of peptide p in f
row p       : v[f] = rts[p][f] / max_rt[f]   (NaN when absent) ; kept iff mean(v present).is_normal()
mean_rts[p] = mean of the finite entries of row p (file order)
file f      : over rows with finite v[f]:  len, dot = Σ x·y, sum_x, sum_y   (x = v[f], y = mean_rts)
              x̄ = sum_x/len, ȳ = sum_y/len, ssxy = dot − len·x̄·ȳ, sx2 = 1e-8 + Σ (x − x̄)²
              slope = ssxy/sx2, intercept = ȳ − slope·x̄ ; non-finite slope ⇒ 1 ; non-finite intercept ⇒ 0
              Alignment { max_rt as f32, slope as f32, intercept as f32 }
feature     : aligned_rt = (rt / max_rt) * slope + intercept       (f32)
```

`retention_model::predict`: `bounded = r.clamp(0.0, 1.0) as f32; predicted_rt = bounded;
delta_rt_model = (aligned_rt - bounded).abs()` where `r = lr.predict_peptide(..)`; `mobility_model`
has the same shape with `clamp(0.0, 2.0)` and `ims` in place of `aligned_rt`.

Inputs the real code rejects: a feature whose `file_id ≥ n_files` makes `max_rt[feat.file_id]`
panic (index out of bounds) — modelled as `none` (reply `panic`).
-/

namespace Sage.C20

/-- the float-class predicates the code uses (`is_finite`, NaN test inside `f64::min`, `is_normal`) -/
class FloatLike (α : Type) where
  isFinite : α → Bool
  isNaN : α → Bool
  isNormal : α → Bool

open FloatLike

instance : FloatLike Float where
  isFinite x := x.isFinite
  isNaN x := x.isNaN
  -- finite, non-zero, not subnormal: |x| ≥ 2⁻¹⁰²² (bit pattern 0x0010000000000000)
  isNormal x := x.isFinite && decide (Float.ofBits 0x0010000000000000 ≤ x.abs)

instance : FloatLike Float32 where
  isFinite x := x.isFinite
  isNaN x := x.isNaN
  isNormal x := x.isFinite && decide (Float32.ofBits 0x00800000 ≤ x.abs)

/-- exact arithmetic: everything is finite; "normal" means `|x| ≥ 2⁻¹⁰²²` (the f64 threshold, so that
    the exact-arithmetic spec keeps the same rows as the code except within rounding of that bound) -/
instance : FloatLike Rat where
  isFinite _ := true
  isNaN _ := false
  isNormal x := decide (Sage.Proto.dyadic 1 1022 ≤ (if x < 0 then -x else x))

/-- `len as f64` etc.; core has no `NatCast Float` -/
scoped instance : NatCast Float := ⟨Float.ofNat⟩
scoped instance : NatCast Float32 := ⟨Float32.ofNat⟩

/-- one PSM, reduced to the fields the alignment reads -/
structure Feat (α : Type) where
  file : Nat
  pep : Nat
  label : Int
  q : α
  rt : α

/-- one row of the RT matrix: a peptide, its normalised RT per file (`none` = absent = the matrix'
    `NaN`), and `mean_rts[row]` -/
structure Row (α : Type) where
  pep : Nat
  xs : List (Option α)
  y : α

section generic
variable {α : Type}

/-- `fold(init, |s, t| s + t)` -/
def sumFrom [Add α] (init : α) (l : List α) : α := l.foldl (· + ·) init

/-- `feat.label == 1 && feat.spectrum_q <= 0.01` -/
def confident [LE α] [DecidableLE α] (thr : α) (x : Feat α) : Bool :=
  x.label == 1 && decide (x.q ≤ thr)

/-- `max_rt_by_file`, one file: atomic `fetch_max` of `rt.ceil() as u32` from 0, then `0 ⇒ 1`
    (`ceilNat` is `rt.ceil() as u32`: saturating, NaN ↦ 0) -/
def maxRtNat (ceilNat : α → Nat) (fs : List (Feat α)) (f : Nat) : Nat :=
  let m := (fs.filter (fun x => x.file == f)).foldl (fun m x => max m (ceilNat x.rt)) 0
  if m > 0 then m else 1

/-- Rust `f64::min`: a NaN operand is ignored -/
def fmin [LT α] [DecidableLT α] [FloatLike α] (a b : α) : α :=
  if isNaN a then b else if isNaN b then a else if b < a then b else a

/-- `mean_rt_by_file`: entry of peptide `p`, file `f` (min RT over the confident targets) -/
def minRt [LT α] [DecidableLT α] [LE α] [DecidableLE α] [FloatLike α]
    (thr : α) (fs : List (Feat α)) (p f : Nat) : Option α :=
  (fs.filter (fun x => confident thr x && x.pep == p && x.file == f)).foldl
    (fun acc x => match acc with
      | none => some x.rt
      | some m => some (fmin m x.rt)) none

/-- keys of the `DashMap`: peptides with at least one confident target, here in order of first
    occurrence (the code's order is not fixed) -/
def peptides [LE α] [DecidableLE α] (thr : α) (fs : List (Feat α)) : List Nat :=
  ((fs.filter (confident thr)).map (·.pep)).eraseDups

/-- mean of the listed values: `sum / len` (`NaN`/`none` for the empty list: `0/0`) -/
def meanOf [NatCast α] [Add α] [Div α] (l : List α) : α :=
  sumFrom ((0 : Nat) : α) l / ((l.length : Nat) : α)

variable [NatCast α] [Add α] [Sub α] [Mul α] [Div α] [LT α] [DecidableLT α] [LE α] [DecidableLE α]
  [FloatLike α]

/-- `rt_matrix` + `mean_rts`: the row of peptide `p`, or `none` when its mean is not `is_normal`
    (zero, subnormal, NaN, ±∞) -/
def rowOf (ceilNat : α → Nat) (thr : α) (fs : List (Feat α)) (nFiles : Nat) (p : Nat) : Option (Row α) :=
  let xs : List (Option α) := (List.range nFiles).map fun f =>
    (minRt thr fs p f).map (fun r => r / ((maxRtNat ceilNat fs f : Nat) : α))
  -- `rt_matrix`: mean over ALL present entries decides whether the row is kept
  if isNormal (meanOf (xs.filterMap id)) then
    -- `global_alignment`: mean over the finite entries, in file order
    some { pep := p, xs := xs, y := meanOf ((xs.filterMap id).filter isFinite) }
  else none

def rtRows (ceilNat : α → Nat) (thr : α) (fs : List (Feat α)) (nFiles : Nat) : List (Row α) :=
  (peptides thr fs).filterMap (rowOf ceilNat thr fs nFiles)

/-- the points of file `f`'s regression: `(x, y)` over the rows whose entry for `f` is finite -/
def pairs (rows : List (Row α)) (f : Nat) : List (α × α) :=
  rows.filterMap fun r =>
    match r.xs[f]? with
    | some (some x) => if isFinite x then some (x, r.y) else none
    | _ => none

/-- the per-file regression before the guards; `ε` is the code's `1E-8` -/
def fit (ε : α) (pts : List (α × α)) : α × α :=
  let n : α := ((pts.length : Nat) : α)
  let dot := sumFrom ((0 : Nat) : α) (pts.map fun p => p.1 * p.2)
  let sx := sumFrom ((0 : Nat) : α) (pts.map (·.1))
  let sy := sumFrom ((0 : Nat) : α) (pts.map (·.2))
  let xm := sx / n
  let ym := sy / n
  let ssxy := dot - n * xm * ym
  let sx2 := sumFrom ε (pts.map fun p => (p.1 - xm) * (p.1 - xm))
  let slope := ssxy / sx2
  (slope, ym - slope * xm)

/-- `if !slope.is_finite() { slope = 1.0 }`, `if !intercept.is_finite() { intercept = 0.0 }` -/
def guardFinite (si : α × α) : α × α :=
  (if isFinite si.1 then si.1 else ((1 : Nat) : α), if isFinite si.2 then si.2 else ((0 : Nat) : α))

/-- `Alignment` of one file: `(max_rt, slope, intercept)`; `narrow` is the `as f32` cast -/
def alignFile (narrow : α → α) (ceilNat : α → Nat) (ε : α) (fs : List (Feat α))
    (rows : List (Row α)) (f : Nat) : Nat × α × α :=
  let si := guardFinite (fit ε (pairs rows f))
  (maxRtNat ceilNat fs f, narrow si.1, narrow si.2)

/-- `global_alignment`, the returned vector; `none` = panic (`file_id ≥ n_files`) -/
def globalAlignment (narrow : α → α) (ceilNat : α → Nat) (thr ε : α) (fs : List (Feat α))
    (nFiles : Nat) : Option (List (Nat × α × α)) :=
  if fs.any (fun x => decide (nFiles ≤ x.file)) then none else
  let rows := rtRows ceilNat thr fs nFiles
  some ((List.range nFiles).map (alignFile narrow ceilNat ε fs rows))

end generic

/-- `feature.aligned_rt = (feature.rt / a.max_rt) * a.slope + a.intercept` (all f32 in the code) -/
def alignedRt {β : Type} [Add β] [Mul β] [Div β] (rt mx slope intercept : β) : β :=
  (rt / mx) * slope + intercept

/-- Rust `f64::clamp(lo, hi)` (NaN stays NaN: both comparisons are false) -/
def clamp {β : Type} [LT β] [DecidableLT β] (x lo hi : β) : β :=
  if x < lo then lo else if hi < x then hi else x

/-- `predict`: `(predicted, delta)` from the raw model output `r : β` (f64) and the observed value
    `obs : γ` (f32: `aligned_rt`, resp. `ims`); `cast` = `as f32`, `absF` = `f32::abs`:
    `bounded = r.clamp(lo, hi) as f32; delta = (obs - bounded).abs()` -/
def predictOut {β γ : Type} [LT β] [DecidableLT β] [Sub γ] (cast : β → γ) (absF : γ → γ)
    (lo hi r : β) (obs : γ) : γ × γ :=
  let bounded := cast (clamp r lo hi)
  (bounded, absF (obs - bounded))

/-! ## executable specification (evaluated on the implementation's outputs by the driver)

Clause names are what the driver prints after `bad:`. All clauses are generic; the driver evaluates
the order/finite/identity clauses on the implementation's f32 values as they are, and the
equivariance clause in exact `Rat` arithmetic with a stated allowance. -/

section spec
variable {β : Type}

/-- `nonfinite_param`: every alignment parameter is finite -/
def specParamsFinite [FloatLike β] (al : List (β × β × β)) : Bool :=
  al.all fun a => isFinite a.1 && isFinite a.2.1 && isFinite a.2.2

/-- `max_rt_nonpositive`: every file's scale is strictly positive -/
def specMaxPos [NatCast β] [LT β] [DecidableLT β] (al : List (β × β × β)) : Bool :=
  al.all fun a => decide (((0 : Nat) : β) < a.1)

/-- `scale`: the normalisation maps every non-negative RT of the file into [0, 1]: `rt ≤ max_rt` -/
def specScale [NatCast β] [LE β] [DecidableLE β] [FloatLike β]
    (fs : List (Feat β)) (al : List (β × β × β)) : Bool :=
  fs.all fun x =>
    match al[x.file]? with
    | none => false
    | some a => !(isFinite x.rt && decide (((0 : Nat) : β) ≤ x.rt)) || decide (x.rt ≤ a.1)

/-- `aligned_ne_affine`: each feature's aligned RT is its file's linear map applied to `rt / max_rt`
    (`same` is bit equality on floats, NaN = NaN) -/
def specAffine [Add β] [Mul β] [Div β] (same : β → β → Bool)
    (fs : List (Feat β)) (al : List (β × β × β)) (aligned : List β) : Bool :=
  fs.length == aligned.length &&
  (fs.zip aligned).all fun (x, v) =>
    match al[x.file]? with
    | none => false
    | some a => same v (alignedRt x.rt a.1 a.2.1 a.2.2)

/-- `nonfinite_aligned`: a feature with a finite RT has a finite aligned RT -/
def specAlignedFinite [FloatLike β] (fs : List (Feat β)) (aligned : List β) : Bool :=
  (fs.zip aligned).all fun (x, v) => !isFinite x.rt || isFinite v

/-- `not_monotone`: within a file whose slope is ≥ 0, a larger RT never gets a smaller aligned RT
    (O(n²), as naive as possible) -/
def specMonotone [NatCast β] [LE β] [DecidableLE β] [LT β] [DecidableLT β] [FloatLike β]
    (fs : List (Feat β)) (al : List (β × β × β)) (aligned : List β) : Bool :=
  let fv := fs.zip aligned
  fv.all fun (x, v) => fv.all fun (x', v') =>
    match al[x.file]? with
    | none => false
    | some a =>
      !(x.file == x'.file && isFinite x.rt && isFinite x'.rt && decide (((0 : Nat) : β) ≤ a.2.1)
          && decide (x.rt ≤ x'.rt)) || decide (v ≤ v')

/-- `predicted_out_of_range` / `delta_ne_abs_diff` / `nonfinite_prediction` for one feature of
    `predict` (bounds `lo ≤ predicted ≤ hi`; delta is exactly `|obs − predicted|`) -/
def specPredict [LE β] [DecidableLE β] [Sub β] [FloatLike β] (same : β → β → Bool) (absF : β → β)
    (lo hi obs predicted delta : β) : Option String :=
  if !(isFinite predicted) then some "nonfinite_prediction"
  else if !(decide (lo ≤ predicted) && decide (predicted ≤ hi)) then some "predicted_out_of_range"
  else if !(same delta (absF (obs - predicted))) then some "delta_ne_abs_diff"
  else if isFinite obs && !(isFinite delta) then some "nonfinite_delta"
  else none

end spec

/-! ### equivariance clause (exact arithmetic) -/

/-- rows in which exactly one of the two files has an entry -/
def unsharedRows (rows : List (Row Rat)) (f g : Nat) : Nat :=
  (rows.filter fun r =>
    match r.xs[f]?, r.xs[g]? with
    | some (some _), some (some _) => false
    | some (some _), _ => true
    | _, some (some _) => true
    | _, _ => false).length

/-- `(x_f, x_g, y)` over the rows present in both files -/
def sharedPts (rows : List (Row Rat)) (f g : Nat) : List (Rat × Rat × Rat) :=
  rows.filterMap fun r =>
    match r.xs[f]?, r.xs[g]? with
    | some (some a), some (some b) => some (a, b, r.y)
    | _, _ => none

/-- if file `g`'s normalised RTs are an exact affine image `a·x + b` (`a ≠ 0`) of file `f`'s over the
    same peptides (at least two distinct `x`), return `(a, b)` -/
def affineImage (rows : List (Row Rat)) (f g : Nat) : Option (Rat × Rat) :=
  if unsharedRows rows f g != 0 then none else
  match sharedPts rows f g with
  | [] => none
  | (x0, x0', _) :: rest =>
    match rest.find? (fun t => t.1 != x0) with
    | none => none
    | some (x1, x1', _) =>
      let a := (x1' - x0') / (x1 - x0)
      let b := x0' - a * x0
      if a != 0 && ((x0, x0', (0 : Rat)) :: rest).all (fun t => t.2.1 == a * t.1 + b) then some (a, b) else none

/-- centred sum of squares `Σ (x − x̄)²` of the regression points -/
def sxxC (pts : List (Rat × Rat)) : Rat :=
  let xm := meanOf (pts.map (·.1))
  sumFrom 0 (pts.map fun p => (p.1 - xm) * (p.1 - xm))

def absQ (x : Rat) : Rat := if x < 0 then -x else x

/-- `not_equivariant`: for files `f`, `g` that are exact affine images of one another
    (`x_g = a·x_f + b`), the two fitted maps agree on the fitted range:
    `|s_g·(a·x + b) + i_g − (s_f·x + i_f)| ≤ R·ε·(1/Sxx_f + 1/Sxx_g) + allowance` at both ends
    `x ∈ {min x_f, max x_f}` (a linear function bounded at both ends is bounded between them), where
    `R = max |slope₀·(x − x̄)|` is the fitted half-range of the ε = 0 regression
    (theorems `ols_equivariant`, `ols_eps_bound`). `allow f g x x'` is the rounding allowance. -/
def specEquivariantPair (ε : Rat) (rows : List (Row Rat)) (f g : Nat)
    (pf pg : Rat × Rat) (allow : Rat → Rat → Rat) : Bool :=
  match affineImage rows f g with
  | none => true
  | some (a, b) =>
    let ptsF := pairs rows f
    let ptsG := pairs rows g
    let sF := sxxC ptsF
    let sG := sxxC ptsG
    let xs := ptsF.map (·.1)
    let xm := meanOf xs
    let slope0 := (fit 0 ptsF).1
    let ends := [xs.foldl min (xs.headD 0), xs.foldl max (xs.headD 0)]
    let r := (ends.map fun x => absQ (slope0 * (x - xm))).foldl max 0
    ends.all fun x =>
      let x' := a * x + b
      decide (absQ (pg.1 * x' + pg.2 - (pf.1 * x + pf.2)) ≤ r * ε * (1 / sF + 1 / sG) + allow x x')

/-- a file "on its own": it has at least one row and none of its rows has an entry in another file -/
def ownFile (rows : List (Row Rat)) (f : Nat) : Bool :=
  !(pairs rows f).isEmpty &&
  rows.all fun r =>
    match r.xs[f]? with
    | some (some _) => (r.xs.filterMap id).length == 1
    | _ => true

end Sage.C20
