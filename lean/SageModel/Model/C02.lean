import SageModel.Proto
import SageModel.Model.C03
import SageModel.Model.C04
import SageModel.Model.C09
import SageModel.Model.C10

/-!
# C02 — model of `Scorer::score` (candidate selection, ranking, chimeric loop).  Core Lean only.

Mirrors, operation by operation, `crates/sage/src/scoring.rs` (heap: `Model/C10.lean`, index lookup:
`Model/C03.lean`, full scoring of one candidate: `Model/C04.lean`, ion series: `Model/C09.lean`):

| Rust                                            | model                                   |
|-------------------------------------------------|-----------------------------------------|
| `PreScore` + `#[derive(Ord)]`                   | `PreScore`, `PreScore.lt` (lexicographic: matched, peptide, precursor_charge, isotope_error) |
| `InitialHits`, `AddAssign`                      | `Hits`, `Hits.add`                      |
| `50.clamp(min(2r, len), len)`                   | `clamp`, `trimK`                        |
| `trim_hits` (`bounded_min_heapify` + `truncate`)| `trimHits` (C10's swap-level `boundedMinHeapify`) |
| `matched_peaks_with_isotope`                    | `mpwiRaw` (dense vector indexed by `pep − pre_idx_lo`, first-hit bookkeeping, counters), `mpwi` (early return + trim) |
| `matched_peaks`                                 | `matchedPeaks` (isotope fold + trim / the single call with isotope 0) |
| `initial_hits`                                  | `initialHits` (wide-window incl. isolation-window scaling / annotated charge / charge range; final trim) |
| `build_features` (ranking part)                 | `scoreVector`, `sortDesc` (the unique stable descending sort), `reportFrom`, `buildFeatures` |
| `score_standard`                                | `scoreStandard`                         |
| `remove_matched_peaks`                          | `removeMatched`                         |
| `score_chimera_fast`                            | `chimeraLoop`, `scoreChimera`           |
| `Scorer::score`                                 | `search`                                |

Arithmetic goes through C04's record of operations `Env α β` (`α` = f32, `β` = f64); comparisons on `α` through
the order type classes (so the functions run at `Float32` in the driver and are the subject of theorems over a
`LinearOrder`).  The ranking part (`buildFeatures`, `chimeraLoop`) is written against three parameters only:
`tle` (`total_cmp(x, y) != Greater` on hyperscores), `sub` (f64 subtraction) and `zero` (`f64::default()`), and an
abstract scorer `score : PreScore → Cand β`; the theorems hold for every scorer.

Inputs outside the model (the real code panics on them or the counters would wrap; the generator does not
produce them and the driver answers `na`): a `Pct` fragment tolerance (`unreachable!`), `query.level != 2`
(assert), no precursor (panic), more than 65535 fragment matches for one candidate (`u16` counter),
`max_fragment_charge = 255`, NaN masses.  `preliminary[idx]` out of bounds would be a panic in the real code; the
model leaves the state unchanged there and `candidates_exact` (Props) shows the case never arises.

The **spec** (`specClause`, at the end) is the brute force of the property text, see there.
-/

namespace Sage.C02

open Sage.C03 (Tol Frag Q)
open Sage.C04 (Env Peak)
open Sage.C09 (Kind)

/-! ## `PreScore`, `InitialHits` -/

/-- `struct PreScore { matched: u16, peptide: PeptideIx, precursor_charge: u8, isotope_error: i8 }` (`Default`: zeros) -/
structure PreScore where
  matched : Nat := 0
  peptide : Nat := 0
  charge : Nat := 0
  iso : Int := 0
deriving DecidableEq, Repr, Inhabited

/-- `#[derive(PartialOrd, Ord)]`: lexicographic in field order; `a < b` -/
def PreScore.lt (a b : PreScore) : Bool :=
  decide (a.matched < b.matched) || (decide (a.matched = b.matched) &&
    (decide (a.peptide < b.peptide) || (decide (a.peptide = b.peptide) &&
      (decide (a.charge < b.charge) || (decide (a.charge = b.charge) && decide (a.iso < b.iso))))))

/-- `struct InitialHits { matched_peaks, scored_candidates, preliminary }` -/
structure Hits where
  matchedPeaks : Nat := 0
  scored : Nat := 0
  prelim : Array PreScore := #[]
deriving Repr

/-- `impl AddAssign<InitialHits> for InitialHits` -/
def Hits.add (a b : Hits) : Hits :=
  { matchedPeaks := a.matchedPeaks + b.matchedPeaks, scored := a.scored + b.scored, prelim := a.prelim ++ b.prelim }

/-! ## `trim_hits` -/

/-- `Ord::clamp(self, min, max)` (asserts `min <= max`; `trimK` only calls it with `min ≤ max`) -/
def clamp (x lo hi : Nat) : Nat := if x < lo then lo else if hi < x then hi else x

/-- the literal `50` of `trim_hits` -/
def TRIM : Nat := 50

/-- `50.clamp((report_psms * 2).min(len), len)` -/
def trimK (r len : Nat) : Nat := clamp TRIM (min (r * 2) len) len

/-- `trim_hits`: `bounded_min_heapify(&mut preliminary, k); preliminary.truncate(k)` -/
def trimHits (r : Nat) (h : Hits) : Hits :=
  let k := trimK r h.prelim.size
  { h with prelim := (Sage.C10.boundedMinHeapify PreScore.lt h.prelim k).extract 0 k }

/-! ## `matched_peaks_with_isotope` -/

/-- the fragment index as C03 models it -/
structure Db (α : Type) where
  masses : Array α          -- `peptides[i].monoisotopic`, ascending
  minv : Array α
  frags : List (Frag α)
  B : Nat

/-- what of `Scorer` the search reads -/
structure Cfg (α : Type) where
  ptol : Tol α
  ftol : Tol α
  minMatched : Nat
  isoLo : Int
  isoHi : Int
  zLo : Nat
  zHi : Nat
  overrideCharge : Bool
  mfc : Option Nat
  chimera : Bool
  reportPsms : Nat
  wideWindow : Bool
  /-- the literal `Tolerance::Da(-2.4, 2.4)` used when the precursor has no isolation window -/
  defaultIsoWin : Tol α

/-- what of `Precursor` the search reads -/
structure Precursor (α : Type) where
  mz : α
  charge : Option Nat
  isoWin : Option (Tol α)

section search
variable {α β : Type}

/-- `precursor_mass - isotope_error as f32 * NEUTRON` -/
def queryMass (E : Env α β) (pm : α) (e : Int) : α := E.sub pm (E.mul (Sage.C04.ofInt E e) E.neutron)

/-- the four window edges `query` / `page_search(peak.mass, charge)` compute -/
def qwin (E : Env α β) (ptol ftol : Tol α) (qm peakMass : α) (fc : Nat) : Q α :=
  let f := Sage.C04.prelimWindow E ftol peakMass fc
  let p := Sage.C04.tolBounds E ptol qm
  { fragLo := f.1, fragHi := f.2, preLo := p.1, preHi := p.2 }

/-- the (peak, fragment charge) pairs of the double loop, in loop order -/
def peakCharges (peaks : List (Peak α)) (mfc : Nat) : List (α × Nat) :=
  peaks.flatMap fun p => (List.range' 1 (mfc - 1)).map fun fc => (p.mass, fc)

variable [LT α] [DecidableLT α] [LE α] [DecidableLE α]

/-- peptide indices of all fragments `page_search` yields over the double loop
    `for peak in peaks { for charge in 1..max_fragment_charge { for frag in page_search(..) {..} } }` -/
def hitPeps (E : Env α β) (db : Db α) (ptol ftol : Tol α) (qm : α) (peaks : List (Peak α)) (mfc : Nat) : List Nat :=
  (peakCharges peaks mfc).flatMap fun pc =>
    (Sage.C03.pageSearchC db.masses db.minv db.frags db.B (qwin E ptol ftol qm pc.1 pc.2)).map (·.pep)

/-- the loop body: `idx = pep - pre_idx_lo; sc = &mut preliminary[idx]; if sc.matched == 0 { scored_candidates += 1;
    sc.precursor_charge = ..; sc.peptide = ..; sc.isotope_error = .. }  sc.matched += 1; matched_peaks += 1` -/
def bump (lo z : Nat) (e : Int) (h : Hits) (pep : Nat) : Hits :=
  if lo ≤ pep then
    match h.prelim[pep - lo]? with
    | none => h     -- index out of bounds: a panic in the real code; never reached (`candidates_exact`)
    | some sc =>
      if sc.matched = 0 then
        { matchedPeaks := h.matchedPeaks + 1, scored := h.scored + 1,
          prelim := h.prelim.setIfInBounds (pep - lo) { matched := 1, peptide := pep, charge := z, iso := e } }
      else
        { matchedPeaks := h.matchedPeaks + 1, scored := h.scored,
          prelim := h.prelim.setIfInBounds (pep - lo) { sc with matched := sc.matched + 1 } }
  else h            -- `pep - pre_idx_lo` underflows: a panic in the real code; never reached

/-- `matched_peaks_with_isotope` up to (not including) the early return and the trim -/
def mpwiRaw (E : Env α β) (db : Db α) (ftol : Tol α) (mfcCfg : Option Nat) (peaks : List (Peak α))
    (pm : α) (z : Nat) (ptol : Tol α) (e : Int) : Hits :=
  let qm := queryMass E pm e
  let pb := Sage.C04.tolBounds E ptol qm
  let pre := Sage.C03.binarySearchSlice db.masses pb.1 pb.2      -- `(pre_idx_lo, pre_idx_hi)`
  let potential := pre.2 - pre.1 + 1
  let mfc := Sage.C04.maxFragmentCharge mfcCfg z
  (hitPeps E db ptol ftol qm peaks mfc).foldl (bump pre.1 z e)
    { matchedPeaks := 0, scored := 0, prelim := Array.replicate potential default }

/-- `matched_peaks_with_isotope` -/
def mpwi (E : Env α β) (db : Db α) (cfg : Cfg α) (peaks : List (Peak α)) (pm : α) (z : Nat) (ptol : Tol α) (e : Int) : Hits :=
  let h := mpwiRaw E db cfg.ftol cfg.mfc peaks pm z ptol e
  if h.matchedPeaks = 0 then h else trimHits cfg.reportPsms h

/-- `min_isotope_err..=max_isotope_err` -/
def isoRange (lo hi : Int) : List Int := (List.range (hi + 1 - lo).toNat).map fun (d : Nat) => lo + (d : Int)

/-- the isotope errors searched: the range if the two bounds differ, otherwise just `0` -/
def isotopes (lo hi : Int) : List Int := if lo ≠ hi then isoRange lo hi else [0]

/-- `matched_peaks` -/
def matchedPeaks (E : Env α β) (db : Db α) (cfg : Cfg α) (peaks : List (Peak α)) (pm : α) (z : Nat) (ptol : Tol α) : Hits :=
  if cfg.isoLo ≠ cfg.isoHi then
    trimHits cfg.reportPsms
      ((isoRange cfg.isoLo cfg.isoHi).foldl (fun h e => h.add (mpwi E db cfg peaks pm z ptol e)) {})
  else mpwi E db cfg peaks pm z ptol 0

/-- `impl Mul<f32> for Tolerance` -/
def tolMul (E : Env α β) : Tol α → α → Tol α
  | .ppm lo hi, c => .ppm (E.mul lo c) (E.mul hi c)
  | .pct lo hi, c => .pct (E.mul lo c) (E.mul hi c)
  | .da lo hi, c => .da (E.mul lo c) (E.mul hi c)

/-- `min_precursor_charge..=max_precursor_charge` -/
def chargeRange (lo hi : Nat) : List Nat := List.range' lo (hi + 1 - lo)

/-- the (precursor charge, precursor tolerance) pairs `initial_hits` searches, in order -/
def searched (E : Env α β) (cfg : Cfg α) (prec : Precursor α) : List (Nat × Tol α) :=
  if cfg.wideWindow then
    (chargeRange cfg.zLo cfg.zHi).map fun z => (z, tolMul E (prec.isoWin.getD cfg.defaultIsoWin) (E.ofNat z))
  else match prec.charge, cfg.overrideCharge with
    | some z, false => [(z, cfg.ptol)]
    | _, _ => (chargeRange cfg.zLo cfg.zHi).map fun z => (z, cfg.ptol)

/-- `initial_hits`. (In the annotated-charge branch the code calls `matched_peaks` directly, in the two other
    branches it folds `hits += matched_peaks(..)` from `InitialHits::default()`.) -/
def initialHits (E : Env α β) (db : Db α) (cfg : Cfg α) (peaks : List (Peak α)) (prec : Precursor α) : Hits :=
  let mz := E.sub prec.mz E.proton
  let one (zt : Nat × Tol α) : Hits := matchedPeaks E db cfg peaks (E.mul mz (E.ofNat zt.1)) zt.1 zt.2
  let h : Hits :=
    if cfg.wideWindow then (searched E cfg prec).foldl (fun h zt => h.add (one zt)) {}
    else match prec.charge, cfg.overrideCharge with
      | some z, false => one (z, cfg.ptol)
      | _, _ => (searched E cfg prec).foldl (fun h zt => h.add (one zt)) {}
  trimHits cfg.reportPsms h

end search

/-! ## `build_features`: ranking -/

/-- what the ranking needs of `score_candidate`'s result -/
structure Cand (β : Type) where
  pre : PreScore
  matched : Nat            -- `matched_b + matched_y`
  hs : β
deriving Repr

/-- the fields of `Feature` this property is about -/
structure Psm (β : Type) where
  pep : Nat
  charge : Nat
  iso : Int
  rank : Nat
  matched : Nat
  hs : β
  dnext : β
  dbest : β
deriving Repr

section rank
variable {β : Type}

/-- insertion step of the stable descending sort: `x` goes in front of the first `y` with `y.hs ≤ x.hs` -/
def insertDesc (tle : β → β → Bool) (x : Cand β) : List (Cand β) → List (Cand β)
  | [] => [x]
  | y :: ys => if tle y.hs x.hs then x :: y :: ys else y :: insertDesc tle x ys

/-- `score_vector.sort_by(|a, b| b.hyperscore.total_cmp(&a.hyperscore))`: `sort_by` is stable, and the stable
    sort of a list under a total preorder is unique, so any stable algorithm is a faithful model; this one
    (insertion from the right) is structurally recursive. `tle x y` = `x.total_cmp(y) != Greater`. -/
def sortDesc (tle : β → β → Bool) (l : List (Cand β)) : List (Cand β) := l.foldr (insertDesc tle) []

/-- `hits.preliminary.iter().filter(matched > 0).map(score_candidate).filter(matched_b + matched_y >= min_matched_peaks)`,
    then the sort -/
def scoreVector (tle : β → β → Bool) (score : PreScore → Cand β) (minMatched : Nat) (prelim : List PreScore) : List (Cand β) :=
  sortDesc tle (((prelim.filter fun p => decide (p.matched > 0)).map score).filter fun c => decide (c.matched ≥ minMatched))

/-- the `for idx in 0..report_psms.min(score_vector.len())` loop: rank `idx + 1`,
    `delta_next = hyperscore - score_vector.get(idx+1).map(hyperscore).unwrap_or_default()`,
    `delta_best = score_vector[0].hyperscore - hyperscore` -/
def reportFrom (sub : β → β → β) (zero : β) (sv : List (Cand β)) (r : Nat) : List (Psm β) :=
  let best : β := match sv with | [] => zero | c :: _ => c.hs
  (sv.take r).zipIdx.map fun ci =>
    { pep := ci.1.pre.peptide, charge := ci.1.pre.charge, iso := ci.1.pre.iso, rank := ci.2 + 1,
      matched := ci.1.matched, hs := ci.1.hs,
      dnext := sub ci.1.hs (match sv[ci.2 + 1]? with | some n => n.hs | none => zero),
      dbest := sub best ci.1.hs }

/-- `build_features(query, precursor, hits, report_psms, &mut features)` (the pushed features) -/
def buildFeatures (tle : β → β → Bool) (sub : β → β → β) (zero : β) (score : PreScore → Cand β)
    (minMatched r : Nat) (prelim : List PreScore) : List (Psm β) :=
  reportFrom sub zero (scoreVector tle score minMatched prelim) r

/-- `score_chimera_fast`'s loop; `σ` = the (shrinking) query spectrum, `fuel = report_psms` -/
def chimeraLoop {σ : Type} (tle : β → β → Bool) (sub : β → β → β) (zero : β) (score : σ → PreScore → Cand β)
    (remove : σ → Psm β → σ) (minMatched r : Nat) (prelim : List PreScore) : Nat → σ → List (Psm β) → List (Psm β)
  | 0, _, acc => acc
  | fuel + 1, q, acc =>
    if acc.length < r then
      match buildFeatures tle sub zero (score q) minMatched 1 prelim with
      | [] => acc
      | f :: _ => chimeraLoop tle sub zero score remove minMatched r prelim fuel (remove q f)
                    (acc ++ [{ f with rank := acc.length + 1 }])
    else acc

end rank

/-! ## the concrete scorer and `remove_matched_peaks` -/

section concrete
variable {α β : Type} [LT α] [DecidableLT α] [LE α] [DecidableLE α]

/-- what the scorer needs to know about the database peptides: ion series per configured kind, sequence length -/
structure PepInfo (α : Type) where
  series : Nat → List (Kind × List α)
  len : Nat → Nat

/-- `score_candidate` (C04's model), reduced to the fields the ranking reads; `SageHyperScore`, no annotation -/
def scoreCand (E : Env α β) (ftol : Tol α) (mfcCfg : Option Nat) (info : PepInfo α) (peaks : Array (Peak α))
    (pre : PreScore) : Cand β :=
  let mfc := Sage.C04.maxFragmentCharge mfcCfg pre.charge
  let s := Sage.C04.scoreCandidate E (fun mz => Sage.C04.select E peaks mz ftol none) (info.series pre.peptide)
    (info.len pre.peptide) mfc false false
  { pre := pre, matched := s.matchedB + s.matchedY, hs := s.hyperscore }

/-- `remove_matched_peaks`: every (fragment of every configured kind) × (charge in `1..max_fragment_charge`) selects
    its most intense peak; all peaks `==` to a selected one are dropped (`Peak: PartialEq` on both fields) -/
def removeMatched [BEq α] (E : Env α β) (ftol : Tol α) (mfcCfg : Option Nat) (info : PepInfo α) (peaks : Array (Peak α))
    (pep z : Nat) : Array (Peak α) :=
  let mfc := Sage.C04.maxFragmentCharge mfcCfg z
  let fzs := Sage.C04.fragCharges (info.series pep) mfc
  let toRemove : List (Peak α) := fzs.filterMap fun f => Sage.C04.select E peaks (Sage.C04.mzOf E f) ftol none
  (peaks.toList.filter fun p => !(toRemove.any fun q => q.mass == p.mass && q.intensity == p.intensity)).toArray

/-- `Scorer::score` = `score_standard` / `score_chimera_fast`; returns the hits' `scored_candidates` too -/
def search [BEq α] (E : Env α β) (tle : β → β → Bool) (db : Db α) (cfg : Cfg α) (info : PepInfo α)
    (peaks : List (Peak α)) (prec : Precursor α) : Nat × List (Psm β) :=
  let hits := initialHits E db cfg peaks prec
  let prelim := hits.prelim.toList
  let zero := E.ofNatD 0
  if cfg.chimera then
    (hits.scored,
     chimeraLoop tle E.subD zero (fun (q : Array (Peak α)) => scoreCand E cfg.ftol cfg.mfc info q)
       (fun q f => removeMatched E cfg.ftol cfg.mfc info q f.pep f.charge) cfg.minMatched cfg.reportPsms prelim
       cfg.reportPsms peaks.toArray [])
  else
    (hits.scored, buildFeatures tle E.subD zero (scoreCand E cfg.ftol cfg.mfc info peaks.toArray) cfg.minMatched cfg.reportPsms prelim)

/-- the full sorted score vector of the standard mode (used by the driver to recognise near-ties) -/
def fullVector (E : Env α β) (tle : β → β → Bool) (db : Db α) (cfg : Cfg α) (info : PepInfo α)
    (peaks : List (Peak α)) (prec : Precursor α) : List (Cand β) :=
  scoreVector tle (scoreCand E cfg.ftol cfg.mfc info peaks.toArray) cfg.minMatched (initialHits E db cfg peaks prec).prelim.toList

/-- `query.peaks.iter().map(|peak| peak.intensity).sum::<f32>()` — the last line of `remove_matched_peaks`
    (`sumZero` = the value `Iterator::sum::<f32>()` starts from) -/
def ticOf (add : α → α → α) (sumZero : α) (q : Array (Peak α)) : α :=
  q.toList.foldl (fun s p => add s p.intensity) sumZero

/-- `remove_matched_peaks` with both of its effects: the surviving peaks and the recomputed `total_ion_current` -/
def removeMatchedTic [BEq α] (E : Env α β) (sumZero : α) (ftol : Tol α) (mfcCfg : Option Nat) (info : PepInfo α)
    (peaks : Array (Peak α)) (pep z : Nat) : Array (Peak α) × α :=
  let q := removeMatched E ftol mfcCfg info peaks pep z
  (q, ticOf E.add sumZero q)

end concrete

/-- `label: peptide.label()` in `build_features`, `peptide = &self.db[score.peptide]`: `-1` for a decoy entry, `1` for a
    target; `decoy[i]` = `db.peptides[i].decoy`. `none` = index out of bounds (a panic in the real code; `label_spec`
    shows it never happens for a reported PSM). -/
def labelAt (decoy : Array Bool) (pep : Nat) : Option Int :=
  (decoy[pep]?).map fun d => if d then -1 else 1

/-- the reported PSMs with their labels -/
def withLabels {β : Type} (decoy : Array Bool) (ps : List (Psm β)) : List (Psm β × Option Int) :=
  ps.map fun p => (p, labelAt decoy p.pep)

/-! ## specification — the brute force of the property text

Evaluated by the driver on the IMPLEMENTATION's reply. Nothing of the code's machinery is used: no index, no
binary search, no heap, no dense vector.

* searched windows: `searched` × `isotopes` (the charge states / tolerances / isotope offsets of the statement);
* a **candidate** is a triple (peptide, charge, isotope) whose peptide mass lies in the window and which has at
  least one preliminary match; preliminary matches are counted by a linear scan over the peptide's indexed
  fragments for every (peak, fragment charge) (`C04.prelimCount`);
* **retained**: with `K = max 50 (2·report_psms)` and `n` candidates: all of them if `n ≤ K`; otherwise let `T` be
  the `K`-th largest preliminary count: candidates with count `> T` are certainly retained, candidates with count
  `< T` certainly not; if exactly `K` candidates have count `≥ T` those with count `= T` are retained as well,
  otherwise a tie straddles the boundary and any choice among the candidates with count `= T` is legitimate (the
  property does not fix it): they are not required to be reported, but may be;
* every certainly-retained candidate is scored with C04's reference scorer (linear-scan window, last most intense
  peak, sums over the matched set, the pinned hyperscore formula).

Clauses (first violated one is printed as `bad:<name>`): `more_than_report_psms`, `rank_gap`, `hyperscore_order`,
`delta_best_negative`, `delta_next_negative`, `delta_best_ne_gap_to_best`, `delta_next_ne_gap_to_next` (the two deltas
are the gaps to the best / next hyperscore of the reply itself; for the last PSM the next one is the best candidate
left out, `0` if none), per PSM `unknown_peptide`, `label_ne_database_entry`, `isotope_not_searched`,
`charge_not_searched`, `peptide_outside_precursor_window`, `reported_without_preliminary_match`,
`reported_not_among_retained`, `scored_candidates_ne_count`, `matched_peaks_ne_reference`,
`reported_below_min_matched_peaks`, `hyperscore_ne_reference`; then `duplicate_psm`,
`slot_empty_while_candidate_left_out`, `better_candidate_left_out`; last — so that it can never mask another
violation — `delta_next_negative_last_psm`, the known unrepaired defect (`delta_next = hyperscore − 0 < 0`).
In chimeric mode the same clauses are evaluated round by round on the residual spectrum (the order clause does
not apply: `lnfact 0 = 1.0 > lnfact 1`, so scores are not monotone under peak removal).
The `50` of "top 50" is the property text's, deliberately NOT the model's `TRIM`.
-/

section spec
variable {α β : Type} [LT α] [DecidableLT α] [LE α] [DecidableLE α]

/-- one reported PSM as the harness prints it -/
structure Rep (α β : Type) where
  pep : Nat
  charge : Nat
  rank : Nat
  isoErr : α               -- `isotope_error as f32 * NEUTRON`
  matched : Nat
  scoredCandidates : Nat
  hs : β
  dnext : β
  dbest : β
  label : Int

/-- the database as the spec sees it -/
structure SpecDb (α : Type) where
  masses : List α                 -- monoisotopic mass per peptide
  decoy : List Bool
  indexFrags : Nat → List α       -- the indexed fragments of a peptide (configured kinds, `min_ion_index` filter)
  info : PepInfo α

/-- a brute-force candidate -/
structure BCand where
  pep : Nat
  z : Nat
  e : Int
  count : Nat
deriving Repr

def inBounds (b : α × α) (m : α) : Bool := decide (b.1 ≤ m) && decide (m ≤ b.2)

/-- all candidates of all searched windows -/
def bruteCands (E : Env α β) (sdb : SpecDb α) (cfg : Cfg α) (peaks : List (Peak α)) (prec : Precursor α) : List BCand :=
  let mz := E.sub prec.mz E.proton
  (searched E cfg prec).flatMap fun zt =>
    let pm := E.mul mz (E.ofNat zt.1)
    let mfc := Sage.C04.maxFragmentCharge cfg.mfc zt.1
    (isotopes cfg.isoLo cfg.isoHi).flatMap fun e =>
      let w := Sage.C04.tolBounds E zt.2 (queryMass E pm e)
      sdb.masses.zipIdx.filterMap fun mi =>
        if inBounds w mi.1 then
          let c := Sage.C04.prelimCount E cfg.ftol peaks mfc (sdb.indexFrags mi.2)
          if c > 0 then some { pep := mi.2, z := zt.1, e := e, count := c } else none
        else none

/-- descending insertion sort on naturals (for the `K`-th largest count) -/
def insDescNat (x : Nat) : List Nat → List Nat
  | [] => [x]
  | y :: ys => if y ≤ x then x :: y :: ys else y :: insDescNat x ys

/-- the retention boundary: `none` = everything is retained (`n ≤ K`); `some (T, free)`: `T` is the `K`-th largest
    preliminary count and `free` says that MORE than `K` candidates have count `≥ T`, i.e. a tie in the count
    straddles the boundary (then which of the candidates with count `= T` are kept is not fixed by the property) -/
def boundary (r : Nat) (cands : List BCand) : Option (Nat × Bool) :=
  let K := max 50 (2 * r)       -- "top 50, or 2 x report_psms if larger": the property text, NOT the model's `TRIM`
  if cands.length ≤ K then none else
  match ((cands.map (·.count)).foldr insDescNat [])[K - 1]? with
  | none => none
  | some T => some (T, decide ((cands.filter fun c => decide (c.count ≥ T)).length > K))

def certainlyRetained (b : Option (Nat × Bool)) (c : BCand) : Bool :=
  match b with | none => true | some (T, free) => decide (c.count > T) || (decide (c.count = T) && !free)

def possiblyRetained (b : Option (Nat × Bool)) (c : BCand) : Bool :=
  match b with | none => true | some (T, _) => decide (c.count ≥ T)

/-- C04's reference scorer: (matched_b + matched_y, hyperscore) -/
def refScore (E : Env α β) (ftol : Tol α) (mfcCfg : Option Nat) (info : PepInfo α) (peaks : List (Peak α)) (pep z : Nat) : Nat × β :=
  let mfc := Sage.C04.maxFragmentCharge mfcCfg z
  let fzs := Sage.C04.fragCharges (info.series pep) mfc
  let sel := fun (mz : α) => let b := Sage.C04.tolBounds E ftol mz; Sage.C04.specSelect peaks b.1 b.2
  let v : Sage.C04.SpecVals α β := Sage.C04.specVals E (info.len pep) (Sage.C04.specMatches E sel fzs)
  (v.nb + v.ny, Sage.C04.specHyperscore E v.nb v.ny v.ib v.iy)

/-- reference removal of the peaks matched by a PSM (linear-scan selection) -/
def refRemove [BEq α] (E : Env α β) (ftol : Tol α) (mfcCfg : Option Nat) (info : PepInfo α) (peaks : List (Peak α)) (pep z : Nat) : List (Peak α) :=
  let mfc := Sage.C04.maxFragmentCharge mfcCfg z
  let fzs := Sage.C04.fragCharges (info.series pep) mfc
  let sel := fun (mz : α) => let b := Sage.C04.tolBounds E ftol mz; Sage.C04.specSelect peaks b.1 b.2
  let gone := fzs.filterMap fun f => sel (Sage.C04.mzOf E f)
  peaks.filter fun p => !(gone.any fun q => q.mass == p.mass && q.intensity == p.intensity)

/-- numeric helpers the spec needs on `β` (hyperscores): exact `≤`, and "equal up to the stated libm allowance" -/
structure Cmp (β : Type) where
  le : β → β → Bool       -- IEEE `<=`
  near : β → β → Bool     -- within 4 ulp
  zero : β
  sub : β → β → β         -- f64 subtraction
  eq : β → β → Bool       -- same value (bit-identical, or IEEE `==`)
  /-- `close a b scale`: `a` and `b` differ by no more than the stated allowance for a difference of two
      hyperscores of magnitude `scale` each known to 4 ulp -/
  close : β → β → β → Bool

/-- maximum of a list of hyperscores (`none` for the empty list) -/
def maxBy (le : β → β → Bool) : List β → Option β
  | [] => none
  | x :: xs => match maxBy le xs with
    | none => some x
    | some m => some (if le m x then x else m)

/-- first failing index of a list of checks -/
def firstBad {γ : Type} (l : List γ) (ok : γ → Bool) : Option γ := l.find? fun x => !ok x

/-- recover the integer isotope error from the reported `isotope_error` float -/
def isoOf [BEq α] (E : Env α β) (cfg : Cfg α) (x : α) : Option Int :=
  (isotopes cfg.isoLo cfg.isoHi).find? fun e => E.mul (Sage.C04.ofInt E e) E.neutron == x

/-- the clauses that do not depend on the mode, for one reported PSM scored on `peaks`
    (`cands` = brute-force candidates on the ORIGINAL spectrum) -/
def psmClause [BEq α] (E : Env α β) (C : Cmp β) (sdb : SpecDb α) (cfg : Cfg α) (prec : Precursor α)
    (cands : List BCand) (bnd : Option (Nat × Bool)) (peaks : List (Peak α)) (p : Rep α β) : Option String :=
  match sdb.masses[p.pep]?, sdb.decoy[p.pep]? with
  | some m, some d =>
    if p.label != (if d then -1 else 1) then some "label_ne_database_entry" else
    match isoOf E cfg p.isoErr with
    | none => some "isotope_not_searched"
    | some e =>
      match (searched E cfg prec).find? (fun zt => zt.1 == p.charge) with
      | none => some "charge_not_searched"
      | some zt =>
        let pm := E.mul (E.sub prec.mz E.proton) (E.ofNat zt.1)
        if !inBounds (Sage.C04.tolBounds E zt.2 (queryMass E pm e)) m then some "peptide_outside_precursor_window" else
        match cands.find? (fun c => c.pep == p.pep && c.z == p.charge && c.e == e) with
        | none => some "reported_without_preliminary_match"
        | some c =>
          if !possiblyRetained bnd c then some "reported_not_among_retained" else
          if p.scoredCandidates != cands.length then some "scored_candidates_ne_count" else
          let rs := refScore E cfg.ftol cfg.mfc sdb.info peaks p.pep p.charge
          if rs.1 != p.matched then some "matched_peaks_ne_reference" else
          if rs.1 < cfg.minMatched then some "reported_below_min_matched_peaks" else
          if !C.near rs.2 p.hs then some "hyperscore_ne_reference" else none
  | _, _ => some "unknown_peptide"

/-- is brute-force candidate `c` among the reported PSMs? -/
def isReported [BEq α] (E : Env α β) (reps : List (Rep α β)) (c : BCand) : Bool :=
  reps.any fun p => p.pep == c.pep && p.charge == c.z && p.isoErr == E.mul (Sage.C04.ofInt E c.e) E.neutron

/-- standard mode -/
def specStandard [BEq α] (E : Env α β) (C : Cmp β) (sdb : SpecDb α) (cfg : Cfg α) (prec : Precursor α)
    (peaks : List (Peak α)) (reps : List (Rep α β)) : String :=
  let k := reps.length
  if k > cfg.reportPsms then "bad:more_than_report_psms" else
  if !(reps.zipIdx.all fun pi => pi.1.rank == pi.2 + 1) then "bad:rank_gap" else
  if !((reps.zip (reps.drop 1)).all fun ab => C.le ab.2.hs ab.1.hs) then "bad:hyperscore_order" else
  if !(reps.all fun p => C.le C.zero p.dbest) then "bad:delta_best_negative" else
  if !((reps.take (k - 1)).all fun p => C.le C.zero p.dnext) then "bad:delta_next_negative" else
  -- `delta_best` = gap to the best, `delta_next` = gap to the next one: exact f64 subtraction on the reply's own scores
  if !(reps.all fun p => match reps.head? with | some b => C.eq p.dbest (C.sub b.hs p.hs) | none => true)
    then "bad:delta_best_ne_gap_to_best" else
  if !((reps.zip (reps.drop 1)).all fun ab => C.eq ab.1.dnext (C.sub ab.1.hs ab.2.hs)) then "bad:delta_next_ne_gap_to_next" else
  let cands := bruteCands E sdb cfg peaks prec
  let bnd := boundary cfg.reportPsms cands
  match reps.findSome? (psmClause E C sdb cfg prec cands bnd peaks) with
  | some c => s!"bad:{c}"
  | none =>
    -- the same candidate must not fill two slots
    if (reps.zipIdx.any fun pi => (reps.take pi.2).any fun q => q.pep == pi.1.pep && q.charge == pi.1.charge && q.isoErr == pi.1.isoErr)
      then "bad:duplicate_psm" else
    -- no better (or any, when a slot is empty) retained candidate is left out
    let left := (cands.filter fun c => certainlyRetained bnd c && !isReported E reps c).filterMap fun c =>
      let rs := refScore E cfg.ftol cfg.mfc sdb.info peaks c.pep c.z
      if rs.1 ≥ cfg.minMatched then some rs.2 else none
    if k < cfg.reportPsms && !left.isEmpty then "bad:slot_empty_while_candidate_left_out" else
    if left.any (fun h => reps.any fun p => !(C.le h p.hs || C.near h p.hs)) then "bad:better_candidate_left_out" else
    -- known, unrepaired: `delta_next` of the last PSM is `hyperscore − 0`
    match reps.getLast? with
    | some p =>
      if !C.le C.zero p.dnext then
        (if C.le C.zero p.hs then "bad:delta_next_negative" else "bad:delta_next_negative_last_psm") else
      -- the last PSM's `delta_next` is the gap to the best candidate left out (`0` if none is left); not checked
      -- when a tie in the preliminary count straddles the retention boundary (the runner-up is then not determined)
      match bnd with
      | some (_, true) => "ok"
      | _ =>
        let next := (maxBy C.le left).getD C.zero
        if C.close p.dnext (C.sub p.hs next) p.hs then "ok" else "bad:delta_next_ne_gap_to_next"
    | none => "ok"

/-- chimeric mode: PSM `j` is judged on the spectrum left after removing the peaks of PSMs `0..j-1` -/
def specChimeraGo [BEq α] (E : Env α β) (C : Cmp β) (sdb : SpecDb α) (cfg : Cfg α) (prec : Precursor α)
    (cands : List BCand) (bnd : Option (Nat × Bool)) : List (Rep α β) → Nat → List (Peak α) → Bool → String
  | [], j, peaks, negLast =>
    -- the report stopped: either it is full, or no retained candidate reaches min_matched_peaks any more
    let alive := (cands.filter (certainlyRetained bnd)).any fun c =>
      (refScore E cfg.ftol cfg.mfc sdb.info peaks c.pep c.z).1 ≥ cfg.minMatched
    if j < cfg.reportPsms && alive then "bad:slot_empty_while_candidate_left_out" else
    if negLast then "bad:delta_next_negative_last_psm" else "ok"
  | p :: rest, j, peaks, negLast =>
    if p.rank != j + 1 then "bad:rank_gap" else
    if !C.le C.zero p.dbest then "bad:delta_best_negative" else
    match psmClause E C sdb cfg prec cands bnd peaks p with
    | some c => s!"bad:{c}"
    | none =>
      let better := (cands.filter (certainlyRetained bnd)).any fun c =>
        let rs := refScore E cfg.ftol cfg.mfc sdb.info peaks c.pep c.z
        rs.1 ≥ cfg.minMatched && !(C.le rs.2 p.hs || C.near rs.2 p.hs)
      if better then "bad:better_candidate_left_out" else
      -- each chimeric PSM is the only reported one of its round: `delta_next` is `hs − next` or `hs − 0`
      if !C.le C.zero p.dnext && C.le C.zero p.hs then "bad:delta_next_negative" else
      if !C.eq p.dbest (C.sub p.hs p.hs) then "bad:delta_best_ne_gap_to_best" else
      let others := (cands.filter fun c => certainlyRetained bnd c &&
          !(c.pep == p.pep && c.z == p.charge && E.mul (Sage.C04.ofInt E c.e) E.neutron == p.isoErr)).filterMap fun c =>
        let rs := refScore E cfg.ftol cfg.mfc sdb.info peaks c.pep c.z
        if rs.1 ≥ cfg.minMatched then some rs.2 else none
      let gapOk := match bnd with
        | some (_, true) => true
        | _ => C.close p.dnext (C.sub p.hs ((maxBy C.le others).getD C.zero)) p.hs
      if !gapOk then "bad:delta_next_ne_gap_to_next" else
      specChimeraGo E C sdb cfg prec cands bnd rest (j + 1)
        (refRemove E cfg.ftol cfg.mfc sdb.info peaks p.pep p.charge) (negLast || !C.le C.zero p.dnext)

def specChimera [BEq α] (E : Env α β) (C : Cmp β) (sdb : SpecDb α) (cfg : Cfg α) (prec : Precursor α)
    (peaks : List (Peak α)) (reps : List (Rep α β)) : String :=
  if reps.length > cfg.reportPsms then "bad:more_than_report_psms" else
  let cands := bruteCands E sdb cfg peaks prec
  specChimeraGo E C sdb cfg prec cands (boundary cfg.reportPsms cands) reps 0 peaks false

/-- the executable spec: `ok` or `bad:<first violated clause>` -/
def specClause [BEq α] (E : Env α β) (C : Cmp β) (sdb : SpecDb α) (cfg : Cfg α) (prec : Precursor α)
    (peaks : List (Peak α)) (reps : List (Rep α β)) : String :=
  if cfg.chimera then specChimera E C sdb cfg prec peaks reps else specStandard E C sdb cfg prec peaks reps

end spec

end Sage.C02
