import SageModel.Proto
import SageModel.Model.C02
import SageModel.Model.C03
import SageModel.Model.C04
import SageModel.Model.C05
import SageModel.Model.C06
import SageModel.Model.C08
import SageModel.Model.C09
import SageModel.Model.C10
import SageModel.Model.C17

/-!
# C01 — the composed pipeline model (core Lean only)

`pipeline : Run → List ModelRow` is nothing but the COMPOSITION of the component models, in the order
`Runner::run` chains the real functions (crates/sage-cli/src/runner.rs):

```
FASTA text ──C05.parse──▶ records ──C08.buildDb (C05.digest, C06.dbForms, decoys, merge, sort)──▶ peptides
peptides ──C08.fragmentsOf (C09.buildFragments)──▶ ions ──C03.buildIndex──▶ fragment index
MGF document (classified lines) ──C17.parseLines──▶ raw spectra ──C10.process──▶ peaks, TIC
      ──filter `peaks.len() >= min_peaks`──▶
(index, peaks, precursor) ──C02.initialHits / buildFeatures / chimeraLoop (C03.pageSearchC, C04.scoreCandidate)──▶ PSMs
PSM ──C04.scoreCandidate + C04.feature (on the spectrum the PSM was scored on)──▶ the search-stage columns
```

No arithmetic is written in this file: every number in a `ModelRow` is produced by one of the component
models (`C04.feature` for the derived `build_features` fields, `C02` for rank / hyperscore / deltas,
`C08` for the database entry).  The only new code is plumbing: structure conversion, the
`min_peaks` filter of `search_processed_spectra`, and — in chimeric mode — the sequence of residual spectra
(`C02.removeMatched`, TIC re-summed as `remove_matched_peaks` does).

Everything is generic in the number types (`α` = f32, `β` = f64): the driver runs it at
`Float32`/`Float`, the theorems of `Props/C01Pipeline.lean` are about `α := Rat`.

Not part of the model (and not compared): psm ids (a global atomic counter), retention time columns,
poisson / discriminant score / posterior error / q-values (statistical stage), PIN / fragment / TMT files.
Totalisation: a PSM whose peptide index is outside the database would be a panic in the real code
(`self.db[score.peptide]`); `rowOf` returns `none` there and `rows_complete` (Props) proves it never happens
in standard mode.
-/

namespace Sage.C01

open Sage.C04 (Env Peak)
open Sage.C02 (Psm Hits)

/-- the arithmetic the composed models need: C04's environment (f32/f64 operations), C09's literals and the
    `total_cmp` of hyperscores -/
structure Arith (α β : Type) where
  E : Env α β
  K : C09.Consts α
  tle : β → β → Bool

/-- configuration of a run, already split into the component models' configurations -/
structure PCfg (α : Type) where
  db : C08.Cfg α
  kinds : List C09.Kind
  minIonIndex : Nat
  bucket : Nat
  search : C02.Cfg α
  proc : C10.Cfg α
  minPeaks : Nat

/-- `IndexedDatabase`: peptides, fragment index, and what the scorer reads of a peptide -/
structure World (α : Type) where
  peps : Array (C08.DbPep α)
  idx : C02.Db α
  info : C02.PepInfo α

/-- one row of `results.sage.tsv`, search-stage columns only -/
structure ModelRow (α β : Type) where
  file : Nat
  scan : String
  rank : Nat
  pepIx : Nat
  /-- the database entry: sequence, modifications, termini (→ `peptide`), proteins, decoy flag,
      `missed_cleavages`, `semi_enzymatic` -/
  entry : C08.DbPep α
  label : Int
  expmass : α
  calcmass : α
  charge : Nat
  peptideLen : Nat
  missedCleavages : Nat
  semiEnzymatic : Bool
  /-- the integer isotope offset and the reported `isotope_error = offset as f32 * NEUTRON` -/
  iso : Int
  isotopeError : α
  precursorPpm : α
  fragmentPpm : α
  hyperscore : β
  deltaNext : β
  deltaBest : β
  matchedPeaks : Nat
  longestB : Nat
  longestY : Nat
  scoredCandidates : Nat
  ms2Intensity : α
  matchedIntensityPct : α

section generic
variable {α β : Type} [Add α] [Sub α] [Mul α] [Neg α] [OfNat α 0] [BEq α]
  [LT α] [DecidableLT α] [LE α] [DecidableLE α]

/-! ## database and index -/

/-- the ions handed to the index builder (`build_from_peptides`) -/
def ionsOf (A : Arith α β) (cfg : PCfg α) (db : List (C08.DbPep α)) : List (C03.Frag α) :=
  (C08.fragmentsOf A.K cfg.kinds cfg.minIonIndex cfg.db.table db).map fun f => { pep := f.1, mz := f.2 }

/-- what `score_candidate` regenerates for a peptide: the full ion series of every configured kind -/
def infoOf (A : Arith α β) (cfg : PCfg α) (db : List (C08.DbPep α)) : C02.PepInfo α :=
  let arr := (db.map (C08.toPep9 cfg.db.table)).toArray
  { series := fun i => match arr[i]? with
      | some p => cfg.kinds.map fun k => (k, C09.ions A.K k p)
      | none => []
    len := fun i => match arr[i]? with | some p => p.residues.length | none => 0 }

/-- the index over a given peptide list -/
def indexOf (A : Arith α β) (cfg : PCfg α) (db : List (C08.DbPep α)) : Option (C02.Db α) :=
  (C03.buildIndex cfg.bucket (ionsOf A cfg db)).map fun mf =>
    { masses := (db.map (·.core.mono)).toArray, minv := mf.1, frags := mf.2, B := cfg.bucket }

/-- `build_from_peptides`: the index and scorer view over a peptide list; `none` = `bucket_size = 0` (panic) -/
def worldOf (A : Arith α β) (cfg : PCfg α) (db : List (C08.DbPep α)) : Option (World α) :=
  (indexOf A cfg db).map fun idx => { peps := db.toArray, idx := idx, info := infoOf A cfg db }

/-- `Parameters::build`: `none` = the real code panics (no digest at all, or `bucket_size = 0`) -/
def buildWorld (A : Arith α β) (cfg : PCfg α) (targets : List (C05.Seq × C05.Seq)) : Option (World α) :=
  (C08.buildDb cfg.db targets).bind (worldOf A cfg)

/-! ## one spectrum -/

/-- `Scorer::score` keeping the `InitialHits` (for `matched_peaks` / `scored_candidates`); the PSM list is
    definitionally that of `C02.search` (`searchH_eq` in Props) -/
def searchH (A : Arith α β) (db : C02.Db α) (cfg : C02.Cfg α) (info : C02.PepInfo α)
    (peaks : List (Peak α)) (prec : C02.Precursor α) : Hits × List (Psm β) :=
  let hits := C02.initialHits A.E db cfg peaks prec
  let prelim := hits.prelim.toList
  let zero := A.E.ofNatD 0
  (hits,
   if cfg.chimera then
     C02.chimeraLoop A.tle A.E.subD zero (fun (q : Array (Peak α)) => C02.scoreCand A.E cfg.ftol cfg.mfc info q)
       (fun q f => C02.removeMatched A.E cfg.ftol cfg.mfc info q f.pep f.charge) cfg.minMatched cfg.reportPsms prelim
       cfg.reportPsms peaks.toArray []
   else
     C02.buildFeatures A.tle A.E.subD zero (C02.scoreCand A.E cfg.ftol cfg.mfc info peaks.toArray) cfg.minMatched
       cfg.reportPsms prelim)

/-- `query.total_ion_current = query.peaks.iter().map(|p| p.intensity).sum::<f32>()` after a removal -/
def ticOf [C10.Num α] (q : Array (Peak α)) : α :=
  q.toList.foldl (fun s p => C10.Num.add s p.intensity) C10.Num.sumZero

/-- the spectrum (peaks, TIC) each reported PSM was scored on: the processed spectrum itself in standard
    mode; in chimeric mode PSM `j` sees what is left after removing the peaks matched by PSMs `0..j-1` -/
def scoredOn [C10.Num α] (A : Arith α β) (cfg : C02.Cfg α) (info : C02.PepInfo α) :
    List (Psm β) → Array (Peak α) → α → List (Array (Peak α) × α)
  | [], _, _ => []
  | p :: ps, q, t =>
    (q, t) ::
      (if cfg.chimera then
        let q' := C02.removeMatched A.E cfg.ftol cfg.mfc info q p.pep p.charge
        scoredOn A cfg info ps q' (ticOf q')
      else scoredOn A cfg info ps q t)

def toTol : C17.WUnit × α × α → C03.Tol α
  | (.da, lo, hi) => .da lo hi
  | (.ppm, lo, hi) => .ppm lo hi

/-- the derived fields of `build_features` for one reported PSM (C04's `scoreCandidate` + `feature`, on the
    spectrum the PSM was scored on); `none` = peptide index out of range (a panic in the real code) -/
def rowOf (A : Arith α β) (cfg : PCfg α) (w : World α) (file : Nat) (scan : String) (precMz : α) (hits : Hits)
    (psm : Psm β) (q : Array (Peak α)) (tic : α) : Option (ModelRow α β) :=
  match w.peps[psm.pep]? with
  | none => none
  | some e =>
    let mfc := C04.maxFragmentCharge cfg.search.mfc psm.charge
    let s : C04.Scored α β := C04.scoreCandidate A.E (fun mz => C04.select A.E q mz cfg.search.ftol none)
      (w.info.series psm.pep) (w.info.len psm.pep) mfc false false
    let f := C04.feature A.E { pep := psm.pep, charge := psm.charge, iso := psm.iso, matched := 0 } s
      e.core.sequence.length precMz e.core.mono tic hits.matchedPeaks hits.scored
    some { file := file, scan := scan, rank := psm.rank, pepIx := psm.pep, entry := e,
           label := if e.decoy then -1 else 1,
           expmass := f.expmass, calcmass := f.calcmass, charge := f.charge, peptideLen := f.peptideLen,
           missedCleavages := e.mc, semiEnzymatic := e.semi, iso := psm.iso, isotopeError := f.isotopeError,
           precursorPpm := f.deltaMass, fragmentPpm := f.averagePpm,
           hyperscore := psm.hs, deltaNext := psm.dnext, deltaBest := psm.dbest,
           matchedPeaks := f.matchedPeaks, longestB := f.longestB, longestY := f.longestY,
           scoredCandidates := f.scoredCandidates, ms2Intensity := f.ms2Intensity,
           matchedIntensityPct := f.matchedIntensityPct }

/-- what `SpectrumProcessor::process` reads of an MGF spectrum (`ms_level = 2`, centroid) -/
def rawOf (sp : C17.Spectrum α) : C10.Raw α :=
  { level := 2, centroid := true, charge := sp.precs.head?.bind (·.charge), peaks := sp.mzs.zip sp.ints }

/-- the peaks and precursor the scorer sees for one MGF spectrum; `none` = not searched
    (`process` panics — impossible for centroid data —, fewer than `min_peaks` peaks, or no precursor) -/
def prepare [C10.Num α] (cfg : PCfg α) (sp : C17.Spectrum α) : Option (List (Peak α) × α × C02.Precursor α) :=
  match C10.process cfg.proc (rawOf sp) with
  | none => none
  | some (pk, tic) =>
    if pk.length < cfg.minPeaks then none else
    match sp.precs.head? with
    | none => none
    | some pr =>
      some (pk.map (fun p => { mass := p.mass, intensity := p.intensity }), tic,
            { mz := pr.mz, charge := pr.charge, isoWin := pr.window.map toTol })

/-- the PSMs of one spectrum (`Scorer::score`) -/
def spectrumPsms [C10.Num α] (A : Arith α β) (cfg : PCfg α) (w : World α) (sp : C17.Spectrum α) : List (Psm β) :=
  match prepare cfg sp with
  | none => []
  | some (peaks, _, prec) => (C02.search A.E A.tle w.idx cfg.search w.info peaks prec).2

/-- the rows of one spectrum -/
def spectrumRows [C10.Num α] (A : Arith α β) (cfg : PCfg α) (w : World α) (file : Nat) (sp : C17.Spectrum α) :
    List (ModelRow α β) :=
  match prepare cfg sp with
  | none => []
  | some (peaks, tic, prec) =>
    let hp := searchH A w.idx cfg.search w.info peaks prec
    let on := scoredOn A cfg.search w.info hp.2 peaks.toArray tic
    (hp.2.zip on).filterMap fun pq => rowOf A cfg w file sp.id prec.mz hp.1 pq.1 pq.2.1 pq.2.2

/-! ## the run -/

/-- rows of one spectrum file (an MGF document as classified lines), file id `file` -/
def fileRows [C10.Num α] [C17.NumOps α] (A : Arith α β) (cfg : PCfg α) (w : World α) (file : Nat)
    (doc : List (C17.Line α)) : List (ModelRow α β) :=
  (C17.parseLines doc).flatMap (spectrumRows A cfg w file)

/-- the rows over a built database -/
def worldRows [C10.Num α] [C17.NumOps α] (A : Arith α β) (cfg : PCfg α) (w : World α)
    (files : List (List (C17.Line α))) : List (ModelRow α β) :=
  files.zipIdx.flatMap fun di => fileRows A cfg w di.2 di.1

/-- **the pipeline**: FASTA text + MGF documents + configuration ↦ the search-stage columns of
    `results.sage.tsv` (in program order: file, spectrum, rank). `none` = the real program panics
    (unreadable FASTA, empty digest, `bucket_size = 0`). -/
def pipeline [C10.Num α] [C17.NumOps α] (A : Arith α β) (cfg : PCfg α) (fasta : C05.Seq)
    (files : List (List (C17.Line α))) : Option (List (ModelRow α β)) :=
  match C05.parse cfg.db.tag cfg.db.gen fasta with
  | none => none
  | some targets =>
    match buildWorld A cfg targets with
    | none => none
    | some w => some (worldRows A cfg w files)

end generic

/-! ## rendering of the inputs the harness writes (the text the real program reads) -/

/-- `fasta_text` of the harness: `>acc description i`, sequence wrapped at 60 columns -/
def chunks60 (fuel : Nat) (s : List UInt8) : List (List UInt8) :=
  match fuel, s with
  | 0, _ => []
  | _, [] => []
  | f + 1, s => s.take 60 :: chunks60 f (s.drop 60)

def fastaText (recs : List (List UInt8 × List UInt8)) : List UInt8 :=
  recs.zipIdx.flatMap fun ri =>
    [62] ++ ri.1.1 ++ (" description " ++ toString ri.2).toUTF8.toList ++ [10] ++
      (chunks60 (ri.1.2.length + 1) ri.1.2).flatMap (fun c => c ++ [10])

/-- `mgf_text` of the harness, as classified lines (the decimal text of every number is written with Rust's
    shortest round-trip `Display` and read back with `str::parse::<f32>`, i.e. it denotes the same f32 — trusted) -/
def mgfLines {α : Type} (specs : List (String × α × Option Nat × α × List (α × α))) : List (C17.Line α) :=
  specs.flatMap fun s =>
    [C17.Line.beginIons, .title s.1, .pepmass (.ok s.2.1) .absent] ++
    (match s.2.2.1 with | some z => [C17.Line.charge [z]] | none => []) ++
    [C17.Line.rt (.ok s.2.2.2.1)] ++
    s.2.2.2.2.map (fun p => C17.Line.peak (.ok p.1) (.ok p.2)) ++
    [C17.Line.endIons, .other]

end Sage.C01
