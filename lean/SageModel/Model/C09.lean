import SageModel.Proto
import SageModel.Generated.Consts

/-!
# C09 — model of `sage_core::ion_series::IonSeries` and of the fragment generation of
`Parameters::build_from_peptides` (core Lean only)

Everything is generic in the number type `α`: the driver runs it at `Float32` (same operations in
the same order as the Rust code, so results are compared bit for bit), the theorems in
`Props/C09.lean` are about the same definitions over an arbitrary commutative ring.

Rust (`crates/sage/src/ion_series.rs`):

```
const NH3: f32 = N + H * 3.0;
cumulative_mass = match kind {
  A => nterm.unwrap_or_default() - (C + O),          B => nterm.unwrap_or_default(),
  C => nterm.unwrap_or_default() + NH3,
  X => monoisotopic - nterm.unwrap_or_default() + (C + O - NH3 + N + H),
  Y => monoisotopic - nterm.unwrap_or_default(),     Z => monoisotopic - nterm.unwrap_or_default() - NH3 }
next(): if idx >= sequence.len() - 1 { return None }          // `len() - 1` on usize
        r = sequence[idx]; m = modifications[idx];
        cumulative_mass += match kind { A|B|C => monoisotopic(r) + m, X|Y|Z => -(monoisotopic(r) + m) };
        idx += 1; Some(cumulative_mass)
```

Inputs the real code panics on (modelled by `ions? = none`, never silently totalised):
* an empty `sequence`: `len() - 1` underflows (overflow panic in a debug build; in a release build it
  wraps to `usize::MAX` and `sequence[0]` is out of bounds) — a panic either way;
* `modifications` shorter than `sequence.len() - 1`: `modifications[idx]` is out of bounds.
-/

namespace Sage.C09

inductive Kind where
  | a | b | c | x | y | z
deriving DecidableEq, Repr, Inhabited

/-- `A | B | C` (N-terminal series) -/
def Kind.isN : Kind → Bool
  | .a | .b | .c => true
  | _ => false

def Kind.ofNat? : Nat → Option Kind
  | 0 => some .a | 1 => some .b | 2 => some .c | 3 => some .x | 4 => some .y | 5 => some .z
  | _ => none

def Kind.all : List Kind := [.a, .b, .c, .x, .y, .z]

/-- the literals of `IonSeries::new` (`three` is the literal `3.0`) -/
structure Consts (α : Type) where
  c : α
  o : α
  h : α
  n : α
  three : α

/-- `const NH3: f32 = N + H * 3.0` (`Sage.Gen.ION_NH3_EXPR` pins the expression: the translator fails if it changes) -/
def Consts.nh3 {α} [Add α] [Mul α] (k : Consts α) : α := k.n + k.h * k.three
/-- `(C + O)` -/
def Consts.co {α} [Add α] (k : Consts α) : α := k.c + k.o
/-- `(C + O - NH3 + N + H)`, left-associated as Rust parses it -/
def Consts.xoff {α} [Add α] [Sub α] [Mul α] (k : Consts α) : α := k.c + k.o - k.nh3 + k.n + k.h

/-- What `IonSeries` reads of a `Peptide`: `residues[i] = monoisotopic(sequence[i])`,
    `nterm`/`cterm` already `unwrap_or_default()`ed, `mass = peptide.monoisotopic`. -/
structure Pep (α : Type) where
  residues : List α
  mods : List α
  nterm : α
  cterm : α
  mass : α

/-- `IonSeries::new`: the start value of `cumulative_mass` -/
def start {α} [Add α] [Sub α] [Mul α] (k : Consts α) (kind : Kind) (p : Pep α) : α :=
  match kind with
  | .a => p.nterm - (k.c + k.o)
  | .b => p.nterm
  | .c => p.nterm + k.nh3
  | .x => p.mass - p.nterm + (k.c + k.o - k.nh3 + k.n + k.h)
  | .y => p.mass - p.nterm
  | .z => p.mass - p.nterm - k.nh3

/-- the summand of one `next()` -/
def delta {α} [Add α] [Neg α] (kind : Kind) (r m : α) : α :=
  if kind.isN then r + m else -(r + m)

/-- repeated `next()`: the running value after each step -/
def scan {α} [Add α] [Neg α] (kind : Kind) : α → List (α × α) → List α
  | _, [] => []
  | cum, (r, m) :: rest =>
    let cum' := cum + delta kind r m
    cum' :: scan kind cum' rest

/-- the (residue, modification) pairs `next()` visits: indices `0 … len − 2` -/
def steps {α} (p : Pep α) : List (α × α) :=
  (p.residues.zip p.mods).take (p.residues.length - 1)

/-- all ions of one series, in iteration order (total; meaningful when `ions?` is `some`) -/
def ions {α} [Add α] [Sub α] [Mul α] [Neg α] (k : Consts α) (kind : Kind) (p : Pep α) : List α :=
  scan kind (start k kind p) (steps p)

/-- does collecting `IonSeries::new(p, kind)` panic? -/
def panics {α} (p : Pep α) : Bool :=
  p.residues.length == 0 || p.mods.length < p.residues.length - 1

/-- `IonSeries::new(p, kind).collect()`; `none` = the real code panics -/
def ions? {α} [Add α] [Sub α] [Mul α] [Neg α] (k : Consts α) (kind : Kind) (p : Pep α) : Option (List α) :=
  if panics p then none else some (ions k kind p)

/-! ## fragment generation of `build_from_peptides` -/

/-- the `.filter` closure: `ion_idx + 1 > min_ion_index` for a/b/c,
    `len.saturating_sub(1) - ion_idx > min_ion_index` for x/y/z (`n` = sequence length) -/
def keep (kind : Kind) (n minIdx j : Nat) : Bool :=
  if kind.isN then decide (j + 1 > minIdx) else decide ((n - 1) - j > minIdx)

/-- fragments of one peptide: for every configured kind, the enumerated series, filtered, tagged -/
def pepFragments {α} [Add α] [Sub α] [Mul α] [Neg α] (k : Consts α) (kinds : List Kind) (minIdx : Nat)
    (idx : Nat) (p : Pep α) : List (Nat × α) :=
  kinds.flatMap fun kind =>
    (((ions k kind p).zipIdx).filter (fun mj => keep kind p.residues.length minIdx mj.2)).map
      (fun mj => (idx, mj.1))

/-- `target_decoys.par_iter().enumerate().flat_map_iter(…).collect()` (indexed collect keeps order;
    the later sorts only permute, the harness canonicalises the order) -/
def buildFragments {α} [Add α] [Sub α] [Mul α] [Neg α] (k : Consts α) (kinds : List Kind) (minIdx : Nat)
    (peps : List (Pep α)) : List (Nat × α) :=
  (peps.zipIdx).flatMap fun pi => pepFragments k kinds minIdx pi.2 pi.1

/-- `none` = a peptide on which `IonSeries` panics is present and some kind is configured -/
def buildFragments? {α} [Add α] [Sub α] [Mul α] [Neg α] (k : Consts α) (kinds : List Kind) (minIdx : Nat)
    (peps : List (Pep α)) : Option (List (Nat × α)) :=
  if !kinds.isEmpty && peps.any panics then none else some (buildFragments k kinds minIdx peps)

/-! ## `Builder::make_parameters`: the settings that reach the fragment generation

sage-cli deserialises the `database` object of the JSON configuration into `Builder` (every field an
`Option`) and calls `make_parameters()`:

```
let bucket_size = self.bucket_size.unwrap_or(8192).next_power_of_two();
ion_kinds: self.ion_kinds.unwrap_or(vec![Kind::B, Kind::Y]),
min_ion_index: self.min_ion_index.unwrap_or(2),
```

An explicit `min_ion_index` (0 included) is used as written: there is no clamp. The right-hand sides
are regenerated into `Sage.Gen.DATABASE_DEFAULTS` on every run (`Props/C09.lean`, `builder_defaults_source`). -/

/-- the `Builder` fields that matter for the fragment index (`none` = absent / `null` in the JSON) -/
structure Builder where
  minIonIndex : Option Nat
  ionKinds : Option (List Kind)
  bucketSize : Option Nat

/-- what `Parameters` then holds -/
structure Params where
  minIonIndex : Nat
  ionKinds : List Kind
  bucketSize : Nat
deriving DecidableEq, Repr

/-- `usize::next_power_of_two`: the smallest power of two `≥ n` (1 for 0); fuel = bit width -/
def nextPow2Aux (n : Nat) : Nat → Nat → Nat
  | 0, p => p
  | fuel + 1, p => if n ≤ p then p else nextPow2Aux n fuel (2 * p)
def nextPow2 (n : Nat) : Nat := nextPow2Aux n 64 1

def Builder.makeParameters (b : Builder) : Params :=
  { minIonIndex := b.minIonIndex.getD 2
    ionKinds := b.ionKinds.getD [.b, .y]
    bucketSize := nextPow2 (b.bucketSize.getD 8192) }

/-- the whole configured path: JSON `database` object → `Builder` → `make_parameters` → fragments -/
def buildFromBuilder? {α} [Add α] [Sub α] [Mul α] [Neg α] (k : Consts α) (b : Builder)
    (peps : List (Pep α)) : Option (List (Nat × α)) :=
  buildFragments? k b.makeParameters.ionKinds b.makeParameters.minIonIndex peps

/-! ## specification, written from the property text

Ordinals: the `j`-th value of an a/b/c series is the ion of ordinal `j + 1` (it contains the first
`j + 1` residues); the `j`-th value of an x/y/z series is the ion of ordinal `n − 1 − j` (it
contains the last `n − 1 − j` residues). -/

/-- sum of `residue + modification` over a list of pairs -/
def pairSum {α} [Add α] [OfNat α 0] : List (α × α) → α
  | [] => 0
  | (r, m) :: rest => (r + m) + pairSum rest

/-- offset of a series relative to b (for a, b, c) or y (for x, y, z) -/
def offset {α} [Add α] [Sub α] [Mul α] [Neg α] [OfNat α 0] (k : Consts α) : Kind → α
  | .a => -(k.c + k.o)
  | .b => 0
  | .c => k.nh3
  | .x => k.c + k.o - k.nh3 + k.n + k.h
  | .y => 0
  | .z => -k.nh3

/-- definition of the ion of ordinal `o` (1 ≤ o ≤ n − 1):
    b_o = nterm + first `o` residues (+ their modifications);
    y_o = M − nterm − first `n − o` residues; a, c / x, z by their offsets -/
def ionDef {α} [Add α] [Sub α] [Mul α] [Neg α] [OfNat α 0] (k : Consts α) (kind : Kind) (p : Pep α) (o : Nat) : α :=
  if kind.isN then p.nterm + pairSum ((p.residues.zip p.mods).take o) + offset k kind
  else p.mass - p.nterm - pairSum ((p.residues.zip p.mods).take (p.residues.length - o)) + offset k kind

/-- ordinals stored for a series of a peptide of length `n`: all `o` with `min_ion_index < o < n`
    (`mem_ordinals`), listed in the order the series is iterated: `min+1, …, n−1` for a/b/c,
    `n−1, …, min+1` for x/y/z -/
def ordinals (kind : Kind) (n minIdx : Nat) : List Nat :=
  (List.range (n - 1 - minIdx)).map (fun d => if kind.isN then minIdx + 1 + d else n - 1 - d)

/-- position in the iteration of the ion of ordinal `o` -/
def posOf (kind : Kind) (n o : Nat) : Nat := if kind.isN then o - 1 else n - 1 - o

/-- the index content by definition: per peptide, per configured kind, the ions whose ordinal
    exceeds `min_ion_index` (looked up by ordinal in the series), tagged with the peptide index -/
def specFragments {α} [Add α] [Sub α] [Mul α] [Neg α] (k : Consts α) (kinds : List Kind) (minIdx : Nat)
    (peps : List (Pep α)) : List (Nat × α) :=
  (peps.zipIdx).flatMap fun pi =>
    kinds.flatMap fun kind =>
      (ordinals kind pi.1.residues.length minIdx).filterMap fun o =>
        ((ions k kind pi.1)[posOf kind pi.1.residues.length o]?).map (fun m => (pi.2, m))

/-! ## residue table and constants (regenerated from the source on every run) -/

/-- `mass::monoisotopic(aa)`: table lookup for `A..=Z`, `0.0` otherwise -/
def monoOf {α} (table : List α) (zero : α) (aa : Nat) : α :=
  if 65 ≤ aa ∧ aa ≤ 90 then table.getD (aa - 65) zero else zero

def constsQ : Consts Rat :=
  { c := Sage.Gen.ION_C, o := Sage.Gen.ION_O, h := Sage.Gen.ION_H,
    n := Sage.Gen.ION_N, three := 3 }

def f32OfBits (b : Nat) : Float32 := Float32.ofBits b.toUInt32

def constsF : Consts Float32 :=
  { c := f32OfBits Sage.Gen.ION_C_bits, o := f32OfBits Sage.Gen.ION_O_bits, h := f32OfBits Sage.Gen.ION_H_bits,
    n := f32OfBits Sage.Gen.ION_N_bits, three := Float32.ofNat 3 }

/-! ## reference ("textbook") values, written by hand, independent of the source -/

/-- monoisotopic mass of CO: 12 + 15.994915 -/
def CO_ref : Rat := 27994915 / 1000000
/-- monoisotopic mass of NH3: 14.003074 + 3 × 1.007825 -/
def NH3_ref : Rat := 17026549 / 1000000
/-- x − y = CO − H2 = 27.994915 − 2.015650 -/
def XOFF_ref : Rat := 25979265 / 1000000
/-- the NH3 expression the model transcribes; a different expression in the source breaks this file -/
example : Sage.Gen.ION_NH3_EXPR = "N+H*3.0" := by decide

def absQ (x : Rat) : Rat := if x < 0 then -x else x

end Sage.C09
