import SageModel.Model.C12

/-!
# C12 — extensions of the `spectrum_q_value` model (core Lean only)

* **counter conversion.** The Rust code keeps the two tallies as integers (`i32` by inference) and
  converts them with `as f32` before the one division per PSM. Below 2²⁴ the conversion is exact
  (this is what `Model/C12.lean` assumes); from 2²⁴ on it rounds to 24 significant bits, ties to even.
  `r24` is that conversion as an exact function ℕ → ℕ, and `spectrumQC cv` is the model with the
  conversion `cv` made explicit (`cv = id`: the exact definition the property talks about,
  `cv = r24`: the code). The quotient of two converted counters is a rational whose reduced
  numerator and denominator are again f32-representable, so the driver's one `Float32` division
  of them is the code's IEEE division.
* **run-length encoding.** `expand` turns `(label, runlength)` runs into the label list; `qRle cv`
  computes the q-values directly on the runs (a run of targets gets one value, a run of decoys an
  increasing staircase capped by the running minimum). `Props/C12Rle.lean` proves `qRle_eq`:
  expanding the output of `qRle` gives exactly the output of the list model on the expanded
  input — for every run list, no size bound. This is what lets the driver follow the real
  function through lists of more than 2²⁴ PSMs (op `specqrle`).
* **PSM-level model.** `spectrumQPsm` mirrors the two passes over records that carry the other
  `Feature` fields and a stale `spectrum_q`; the theorems say the result reads the labels only and
  writes `spectrum_q` only.
* **classical formulation.** `qClassic`: the step function FDR(i) = (Dᵢ+1)/Tᵢ, reversed, running
  minimum seeded with 1, reversed back.
-/

namespace Sage.C12

/-! ## `i32 as f32` on exact naturals -/

/-- round `n` to a multiple of `2^s`, ties to the even multiple -/
def rne (n s : Nat) : Nat :=
  let q := n / 2 ^ s
  let r := n % 2 ^ s
  if 2 * r < 2 ^ s then q * 2 ^ s
  else if 2 ^ s < 2 * r then (q + 1) * 2 ^ s
  else (q + q % 2) * 2 ^ s

/-- `n as f32` as an exact natural number: round-to-nearest-even to 24 significant bits
    (the identity up to 2²⁴ = 16 777 216) -/
def r24 (n : Nat) : Nat := rne n (n.log2 - 23)

/-! ## the model with the counter conversion explicit -/

/-- `cv decoy as f32 / cv target as f32`, `none` = `+∞` -/
def ratioC (cv : Nat → Nat) (c : Nat × Nat) : Option Rat := ratio (cv c.1, cv c.2)

/-- `spectrum_q_value` with the integer → float conversion `cv` of the two tallies -/
def spectrumQC (cv : Nat → Nat) (labels : List Bool) : List Rat × Nat :=
  let qs := cummin ((counts 1 0 labels).map (ratioC cv))
  (qs, (qs.filter (fun q => decide (q ≤ 1/100))).length)

/-! ## run-length encoding -/

/-- expand `(value, runlength)` runs -/
def expandRuns {α : Type} : List (α × Nat) → List α
  | [] => []
  | (a, k) :: rs => List.replicate k a ++ expandRuns rs

/-- the label list a run list stands for -/
abbrev expand (runs : List (Bool × Nat)) : List Bool := expandRuns runs

/-- first element of a list, `m` if there is none -/
def hdOr (m : Rat) : List Rat → Rat
  | [] => m
  | x :: _ => x

/-- first element of the expansion of a piece list (skipping empty pieces), `m` if there is none -/
def headOr (m : Rat) : List (Rat × Nat) → Rat
  | [] => m
  | (_, 0) :: ps => headOr m ps
  | (x, _ + 1) :: _ => x

/-- backward cumulative minimum seeded with `m` (`cummin` is the case `m = 1`) -/
def cumminFrom (m : Rat) : List (Option Rat) → List Rat
  | [] => []
  | r :: rs =>
    let tl := cumminFrom m rs
    minOpt (hdOr m tl) r :: tl

/-- q-values of a run of `k` decoys that starts with tallies `(d, t)`, the running minimum coming
    from the right being `m`: the estimates `(d+1)/t, (d+2)/t, …` increase, so each PSM gets its own
    estimate until that reaches `m`; from there on (or from the start, if `t = 0`) everything is `m`. -/
def decoyPieces (cv : Nat → Nat) (t : Nat) (m : Rat) : Nat → Nat → List (Rat × Nat)
  | _, 0 => []
  | d, k + 1 =>
    match ratioC cv (d + 1, t) with
    | none => [(m, k + 1)]
    | some x => if m ≤ x then [(m, k + 1)] else (x, 1) :: decoyPieces cv t m (d + 1) k

/-- q-value of a run of `k` targets: the estimates `d/(t+1), …, d/(t+k)` decrease, so the whole run
    gets the last one (or `m`, if that is smaller) -/
def targetPiece (cv : Nat → Nat) (d t : Nat) (m : Rat) (k : Nat) : List (Rat × Nat) :=
  if k = 0 then [] else [(minOpt m (ratioC cv (d, t + k)), k)]

def runPieces (cv : Nat → Nat) (b : Bool) (d t : Nat) (m : Rat) (k : Nat) : List (Rat × Nat) :=
  if b then decoyPieces cv t m d k else targetPiece cv d t m k

/-- q-value pieces of the runs after tallies `(d, t)`, and the running minimum at their left end -/
def qRleAux (cv : Nat → Nat) : Nat → Nat → List (Bool × Nat) → List (Rat × Nat) × Rat
  | _, _, [] => ([], 1)
  | d, t, (b, k) :: rs =>
    let r := qRleAux cv (if b then d + k else d) (if b then t else t + k) rs
    let ps := runPieces cv b d t r.2 k
    (ps ++ r.1, headOr r.2 ps)

/-- the RLE model of `spectrum_q_value`: q-values as `(value, runlength)` pieces, and the passing count -/
def qRle (cv : Nat → Nat) (runs : List (Bool × Nat)) : List (Rat × Nat) × Nat :=
  let ps := (qRleAux cv 1 0 runs).1
  (ps, ((ps.filter (fun p => decide (p.1 ≤ 1/100))).map (·.2)).sum)

/-! ## PSM-level model: which fields are read and written -/

/-- a PSM: its label (−1 = decoy, as in `Feature.label`), the `spectrum_q` field (`none` = `+∞`;
    on entry whatever an earlier pass left there) and all the other fields -/
structure Psm (α : Type) where
  label : Int
  spectrumQ : Option Rat
  rest : α

/-- forward pass over the records: bump one tally by the label test `== -1`, overwrite `spectrum_q` -/
def fwdPsm {α : Type} (cv : Nat → Nat) : Nat → Nat → List (Psm α) → List (Psm α)
  | _, _, [] => []
  | d, t, p :: ps =>
    let d' := if p.label == -1 then d + 1 else d
    let t' := if p.label == -1 then t else t + 1
    { p with spectrumQ := ratioC cv (d', t') } :: fwdPsm cv d' t' ps

/-- backward pass: running minimum of the stored `spectrum_q`, written back; passing count -/
def bwdPsm {α : Type} : List (Psm α) → List (Psm α) × Rat × Nat
  | [] => ([], 1, 0)
  | p :: ps =>
    let r := bwdPsm ps
    let m := minOpt r.2.1 p.spectrumQ
    ({ p with spectrumQ := some m } :: r.1, m, if m ≤ 1/100 then r.2.2 + 1 else r.2.2)

def spectrumQPsm {α : Type} (cv : Nat → Nat) (ps : List (Psm α)) : List (Psm α) × Nat :=
  let r := bwdPsm (fwdPsm cv 1 0 ps)
  (r.1, r.2.2)

def isDecoy {α : Type} (p : Psm α) : Bool := p.label == -1

/-! ## the classical formulation -/

/-- forward running minimum seeded with `m` -/
def runMin (m : Rat) : List (Option Rat) → List Rat
  | [] => []
  | r :: rs => minOpt m r :: runMin (minOpt m r) rs

/-- step function FDR(i) = (Dᵢ + 1)/Tᵢ over the cut-offs, then the reverse cumulative minimum capped at 1 -/
def qClassic (labels : List Bool) : List Rat :=
  (runMin 1 (((List.range labels.length).map (fdrAt labels)).reverse)).reverse

end Sage.C12
