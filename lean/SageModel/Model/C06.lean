import SageModel.Proto
import SageModel.Generated.Consts

/-!
# C06 — model of modified-peptide generation (core Lean only)

Mirrors, operation by operation,

* `sage_core::modification::ModificationSpecificity::from_str`  (`fromStr`)
* `sage_core::modification::validate_mods` / `validate_var_mods` (`validate`, `validateVar`)
* `impl TryFrom<Digest> for Peptide`                              (`tryFrom`)
* `Peptide::push_resi`, `apply_site`, `static_mods`, `modification_mass`, `no_duplicates`,
  `Peptide::apply`                                                (`pushResi` … `apply`)
* the mass-range filter inside `Parameters::digest`               (`rangeFilter`)

Arithmetic is generic in the number type `α`: the driver runs everything at `Float32` (bit-exact
comparison with the Rust code: same additions in the same order), the theorems are about `α := Rat`.

Residues are byte values (`Nat`); a modification key is a list of Unicode code points (`Nat`).

Totalisation: `applySite` on a residue index outside the peptide does nothing, where the Rust code
would panic (index out of bounds). That is unreachable for targets produced by `fromStr` (their
residue is one of the 22 valid letters, never the `0` that `first`/`last` of an empty sequence
default to); the theorems that need it carry the hypothesis `Target.Valid`.

The second half of the file is the executable **specification**: the property text written as a
site-by-site recursive reference enumerator, independent of `combinations`.
-/

namespace Sage.C06

/-! ## data -/

/-- `enzyme::Position` -/
inductive Position
  | nterm | cterm | full | internal
deriving DecidableEq, Repr, Inhabited

/-- `Position::Nterm | Position::Full` -/
def Position.isN : Position → Bool
  | .nterm | .full => true
  | _ => false

/-- `Position::Cterm | Position::Full` -/
def Position.isC : Position → Bool
  | .cterm | .full => true
  | _ => false

/-- `modification::ModificationSpecificity` (residues as ASCII codes) -/
inductive Target
  | peptideN (r : Option Nat)
  | peptideC (r : Option Nat)
  | proteinN (r : Option Nat)
  | proteinC (r : Option Nat)
  | residue (r : Nat)
deriving DecidableEq, Repr, Inhabited

/-- `peptide::Site` -/
inductive Site
  | nterm | cterm | seq (i : Nat)
deriving DecidableEq, Repr, Inhabited

/-- the fields of `peptide::Peptide` this property talks about -/
structure Peptide (α : Type) where
  position : Position
  sequence : List Nat
  /-- `modifications`: one slot per residue, `0` = unmodified -/
  mods : List α
  nterm : Option α
  cterm : Option α
  mono : α
deriving DecidableEq, Repr

/-! ## `ModificationSpecificity::from_str` -/

/-- `InvalidModification` -/
inductive ModErr
  | empty
  | invalidResidue (c : Nat)
  | tooLong
deriving DecidableEq, Repr

/-- number of UTF-8 bytes of a code point (`str::len` counts bytes) -/
def utf8Size (c : Nat) : Nat :=
  if c < 128 then 1 else if c < 2048 then 2 else if c < 65536 then 3 else 4

def utf8Len (s : List Nat) : Nat := (s.map utf8Size).foldl (· + ·) 0

/-- `c.is_ascii() && VALID_AA.contains(&(c as u8))` -/
def validAA (c : Nat) : Bool := c < 128 && Sage.Gen.VALID_AA.contains c

/-- the inner `fn residue(rest)` of `from_str` -/
def residueOf : List Nat → Except ModErr (Option Nat)
  | [] => .ok none
  | c :: _ => if validAA c then .ok (some c) else .error (.invalidResidue c)

def fromStr (s : List Nat) : Except ModErr Target :=
  if utf8Len s > 2 then .error .tooLong else
  match s with
  | 94 :: rest => (residueOf rest).map .peptideN      -- '^'
  | 36 :: rest => (residueOf rest).map .peptideC      -- '$'
  | 91 :: rest => (residueOf rest).map .proteinN      -- '['
  | 93 :: rest => (residueOf rest).map .proteinC      -- ']'
  | _ =>
    if s.length > 1 then .error .tooLong else
    match s with
    | c :: _ => if validAA c then .ok (.residue c) else .error (.invalidResidue c)
    | [] => .error .empty

/-- `Display for ModificationSpecificity` -/
def Target.display : Target → List Nat
  | .peptideN r => 94 :: r.toList
  | .peptideC r => 36 :: r.toList
  | .proteinN r => 91 :: r.toList
  | .proteinC r => 93 :: r.toList
  | .residue r => [r]

/-- `validate_mods`: keys that do not parse are dropped (an error is logged), the rest keep their mass -/
def validate {β : Type} (input : List (List Nat × β)) : List (Target × β) :=
  input.filterMap fun (k, v) =>
    match fromStr k with
    | .ok t => some (t, v)
    | .error _ => none

/-- `validate_var_mods` followed by the `flat_map` of `Parameters::digest`: one `(target, mass)` per listed mass -/
def validateVar {β : Type} (input : List (List Nat × List β)) : List (Target × β) :=
  (validate input).flatMap fun (t, ms) => ms.map fun m => (t, m)

/-- the residue of a target is one of the 22 letters (true of everything `fromStr` returns) -/
def Target.resi : Target → Option Nat
  | .peptideN r | .peptideC r | .proteinN r | .proteinC r => r
  | .residue r => some r

def Target.Valid (t : Target) : Prop := ∀ r, t.resi = some r → validAA r = true

/-! ## the configuration path: JSON object → `HashMap<String, _>` → `validate_mods`

`Builder` derives `Deserialize`: `static_mods : Option<HashMap<String, f32>>`,
`variable_mods : Option<HashMap<String, Vec<f32>>>`. serde feeds the members of the JSON object to the
map in textual order, so a repeated key keeps its LAST value; a member whose value has the wrong JSON
type (a list where a number is expected, a bare number where a list is expected, `null`, a string,
the non-JSON literal `NaN`) fails the whole document, wherever it stands. Number text → `f32` is the
JSON parser's business (the request carries the bit pattern the harness rendered exactly).
`validate_mods` then drops the keys `from_str` rejects and keeps the others; different accepted
keys denote different specificities, so the iteration order of the string map cannot matter. -/

/-- one member of a mod map as written: the value is `none` when it has the wrong JSON type -/
abbrev Member (β : Type) := List Nat × Option β

/-- the string-keyed map after serde: `none` = deserialisation error; a repeated key keeps its last value
    (its position in the list is that of the last occurrence; the order is never observed) -/
def deserMap {β : Type} : List (Member β) → Option (List (List Nat × β))
  | [] => some []
  | (k, v) :: rest =>
    match v, deserMap rest with
    | some x, some m => if m.any (fun kv => kv.1 == k) then some m else some ((k, x) :: m)
    | _, _ => none

/-- `Builder::make_parameters` for the two mod maps: `none` = the JSON document is rejected -/
def configMods {β γ : Type} (statics : List (Member β)) (vars : List (Member γ)) :
    Option (List (Target × β) × List (Target × γ)) :=
  match deserMap statics, deserMap vars with
  | some s, some v => some (validate s, validate v)
  | _, _ => none

/-! ## `Peptide::try_from(Digest)` -/

section generic
variable {α : Type} [Add α] [OfNat α 0] [BEq α]

/-- `mass::monoisotopic` over the regenerated table -/
def monoisotopic (table : List α) (c : Nat) : α :=
  if 65 ≤ c ∧ c ≤ 90 then table.getD (c - 65) 0 else 0

/-- the `for c in bytes` loop: `None` on the first letter whose mass is `0.0` -/
def sumResidues (table : List α) : α → List Nat → Option α
  | acc, [] => some acc
  | acc, c :: cs =>
    let m := monoisotopic table c
    if m == 0 then none else sumResidues table (acc + m) cs

/-- `Peptide::try_from`: `none` = `Err(InvalidSequence)` -/
def tryFrom (h2o : α) (table : List α) (pos : Position) (seq : List Nat) : Option (Peptide α) :=
  if seq.all (· < 128) then
    match sumResidues table h2o seq with
    | none => none
    | some mass =>
      some { position := pos, sequence := seq, mods := seq.map (fun _ => 0),
             nterm := none, cterm := none, mono := mass }
  else none

/-! ## candidate sites -/

/-- `*self.sequence.first().unwrap_or(&0)` -/
def first (seq : List Nat) : Nat := seq.head?.getD 0
/-- `*self.sequence.last().unwrap_or(&0)` -/
def last (seq : List Nat) : Nat := seq.getLast?.getD 0

/-- the sites a target addresses on a peptide: the nine match arms shared (textually) by
    `push_resi` and `static_mods` -/
def sitesOf (seq : List Nat) (pos : Position) : Target → List Site
  | .peptideN none => [.nterm]
  | .peptideN (some r) => if r == first seq then [.seq 0] else []
  | .peptideC none => [.cterm]
  | .peptideC (some r) => if r == last seq then [.seq (seq.length - 1)] else []
  | .proteinN none => if pos.isN then [.nterm] else []
  | .proteinN (some r) => if pos.isN && r == first seq then [.seq 0] else []
  | .proteinC none => if pos.isC then [.cterm] else []
  | .proteinC (some r) => if pos.isC && r == last seq then [.seq (seq.length - 1)] else []
  | .residue r => ((List.range seq.length).filter fun i => seq[i]? == some r).map .seq

/-- `push_resi` over all variable mods: the candidate list `mods` of `apply` -/
def pushResi (seq : List Nat) (pos : Position) (vars : List (Target × α)) : List (Site × α) :=
  vars.flatMap fun (t, m) => (sitesOf seq pos t).map fun s => (s, m)

/-! ## `apply_site`, `static_mods` -/

/-- `apply_site`: writes only an unset terminus / a `0.0` residue slot -/
def applySite (p : Peptide α) (s : Site) (m : α) : Peptide α :=
  match s with
  | .nterm => if p.nterm.isNone then { p with nterm := some (0 + m) } else p
  | .cterm => if p.cterm.isNone then { p with cterm := some (0 + m) } else p
  | .seq i =>
    match p.mods[i]? with
    | some x => if x == 0 then { p with mods := p.mods.set i (x + m) } else p
    | none => p   -- Rust: index-out-of-bounds panic; unreachable for valid targets

/-- the `Residue` arm of `static_mods`: `if resi == *residue && mods[idx] == 0.0 { mods[idx] = mass }` -/
def staticResidue (r : Nat) (m : α) : List Nat → List α → List α
  | c :: cs, x :: xs => (if c == r && x == 0 then m else x) :: staticResidue r m cs xs
  | _, xs => xs

/-- `static_mods(target, mass)` -/
def staticMod (p : Peptide α) (t : Target) (m : α) : Peptide α :=
  match t with
  | .residue r => { p with mods := staticResidue r m p.sequence p.mods }
  | t => (sitesOf p.sequence p.position t).foldl (fun q s => applySite q s m) p

/-- `for (target, mass) in static_mods { self.static_mods(target, mass) }` in the map's iteration order -/
def applyStatics (statics : List (Target × α)) (p : Peptide α) : Peptide α :=
  statics.foldl (fun q tm => staticMod q tm.1 tm.2) p

/-- `modification_mass`: left-to-right sum of the slots, then both termini -/
def modMass (p : Peptide α) : α :=
  p.mods.foldl (· + ·) 0 + p.nterm.getD 0 + p.cterm.getD 0

/-- `peptide.monoisotopic += peptide.modification_mass()` -/
def finish (p : Peptide α) : Peptide α := { p with mono := p.mono + modMass p }

/-! ## combinations and the two filters -/

/-- `Itertools::combinations(n)`: all index-increasing selections of `n` elements, in
    lexicographic index order -/
def combos {β : Type} : Nat → List β → List (List β)
  | 0, _ => [[]]
  | _ + 1, [] => []
  | n + 1, x :: xs => (combos n xs).map (x :: ·) ++ combos (n + 1) xs

/-- `no_duplicates`: at most one N-terminal and one C-terminal entry -/
def noDuplicates (c : List (Site × α)) : Bool :=
  (c.filter fun x => x.1 == Site.nterm).length ≤ 1 && (c.filter fun x => x.1 == Site.cterm).length ≤ 1

/-- the `FnvHashSet` loop: `false` as soon as a site is inserted twice -/
def distinctSites : List Site → List (Site × α) → Bool
  | _, [] => true
  | seen, x :: xs => if seen.contains x.1 then false else distinctSites (x.1 :: seen) xs

/-- `for (site, mass) in combination { peptide.apply_site(*site, *mass) }` -/
def applyCombo (p : Peptide α) (c : List (Site × α)) : Peptide α :=
  c.foldl (fun q sm => applySite q sm.1 sm.2) p

/-- the accepted combinations of exactly `n` candidates, in generation order -/
def placementsN (cands : List (Site × α)) (n : Nat) : List (List (Site × α)) :=
  ((combos n cands).filter noDuplicates).filter (distinctSites [])

/-- all accepted combinations of `1..=max` candidates -/
def placements (cands : List (Site × α)) (max : Nat) : List (List (Site × α)) :=
  (List.range' 1 max).flatMap (placementsN cands)

/-- the list `modified` of `apply` before static mods: the peptide itself, then one clone per combination -/
def varForms (p : Peptide α) (vars : List (Target × α)) (max : Nat) : List (Peptide α) :=
  p :: (placements (pushResi p.sequence p.position vars) max).map (applyCombo p)

/-- `Peptide::apply(variable_mods, static_mods, combinations)`; `statics` in the map's iteration order -/
def apply (p : Peptide α) (vars statics : List (Target × α)) (max : Nat) : List (Peptide α) :=
  if vars.isEmpty then
    [finish (applyStatics statics p)]
  else
    (varForms p vars max).map fun q => finish (applyStatics statics q)

/-- the filter of `Parameters::digest`: `monoisotopic >= peptide_min_mass && monoisotopic <= peptide_max_mass` -/
def rangeFilter [LE α] [DecidableLE α] (lo hi : α) (forms : List (Peptide α)) : List (Peptide α) :=
  forms.filter fun f => decide (lo ≤ f.mono) && decide (f.mono ≤ hi)

/-- `try_from` → `apply` → range filter, as chained in `Parameters::digest` for one digest -/
def dbForms [LE α] [DecidableLE α] (h2o : α) (table : List α) (pos : Position) (seq : List Nat)
    (vars statics : List (Target × α)) (max : Nat) (lo hi : α) : List (Peptide α) :=
  match tryFrom h2o table pos seq with
  | none => []
  | some p => rangeFilter lo hi (apply p vars statics max)

end generic

/-! ## `Display for Peptide` (structure only; the float text `{:+}` is the parameter `fmt`) -/

section display
variable {α : Type} [OfNat α 0] [BEq α]

/-- `[` = 91, `]` = 93, `-` = 45 -/
def bracket (t : List Nat) : List Nat := 91 :: (t ++ [93])

/-- `write!(f, "[{:+}]-", m)` when the N-terminus is set -/
def dispN (fmt : α → List Nat) : Option α → List Nat
  | some m => bracket (fmt m) ++ [45]
  | none => []

/-- `write!(f, "-[{:+}]", m)` when the C-terminus is set -/
def dispC (fmt : α → List Nat) : Option α → List Nat
  | some m => 45 :: bracket (fmt m)
  | none => []

/-- the `zip` loop: `X[+m]` for a residue whose slot is `!= 0.0`, `X` otherwise -/
def dispResidues (fmt : α → List Nat) : List Nat → List α → List Nat
  | c :: cs, m :: ms => (if m == 0 then [c] else c :: bracket (fmt m)) ++ dispResidues fmt cs ms
  | _, _ => []

/-- `impl Display for Peptide`, as code points -/
def display (fmt : α → List Nat) (p : Peptide α) : List Nat :=
  dispN fmt p.nterm ++ dispResidues fmt p.sequence p.mods ++ dispC fmt p.cterm

end display

/-! ## specification (executable, exact rationals)

Written from the property text, not from the code: walk over the sites of the peptide
(N-terminus, residue 0 … n−1, C-terminus); at each site either leave it alone or, while fewer than
`max` variable modifications have been placed, put one of the distinct masses that some variable
modification offers for this site. Afterwards every site that is still empty and is eligible for a
static modification receives it. -/

/-- declarative eligibility of one site for one target: residue, peptide-terminus and
    protein-terminus specificity -/
def eligible (seq : List Nat) (pos : Position) (t : Target) (s : Site) : Bool :=
  match t, s with
  | .peptideN none, .nterm => true
  | .peptideC none, .cterm => true
  | .proteinN none, .nterm => pos.isN
  | .proteinC none, .cterm => pos.isC
  | .peptideN (some r), .seq i => i == 0 && seq[i]? == some r
  | .proteinN (some r), .seq i => pos.isN && i == 0 && seq[i]? == some r
  | .peptideC (some r), .seq i => i + 1 == seq.length && seq[i]? == some r
  | .proteinC (some r), .seq i => pos.isC && i + 1 == seq.length && seq[i]? == some r
  | .residue r, .seq i => seq[i]? == some r
  | _, _ => false

/-- every site of a peptide of length `n` -/
def allSites (n : Nat) : List Site := Site.nterm :: ((List.range n).map Site.seq ++ [Site.cterm])

def dedup {β : Type} [BEq β] : List β → List β
  | [] => []
  | x :: xs => x :: (dedup xs).filter (fun y => !(y == x))

/-- the distinct masses the variable modifications offer at a site -/
def optionsAt (seq : List Nat) (pos : Position) (vars : List (Target × Rat)) (s : Site) : List Rat :=
  dedup ((vars.filter fun tm => eligible seq pos tm.1 s).map (·.2))

/-- all placements of at most `k` variable modifications on distinct sites out of `sites`
    (the empty placement included), one mass per site -/
def refPlacements (seq : List Nat) (pos : Position) (vars : List (Target × Rat)) :
    Nat → List Site → List (List (Site × Rat))
  | _, [] => [[]]
  | k, s :: rest =>
    refPlacements seq pos vars k rest ++
      (if k = 0 then [] else
        (optionsAt seq pos vars s).flatMap fun m =>
          (refPlacements seq pos vars (k - 1) rest).map fun σ => (s, m) :: σ)

/-- what a site carries in the final form: its variable modification if placed, else the static
    modification it is eligible for, else nothing -/
def refSlot (seq : List Nat) (pos : Position) (statics : List (Target × Rat)) (σ : List (Site × Rat))
    (s : Site) : Option Rat :=
  match σ.lookup s with
  | some m => some m
  | none => (statics.find? fun tm => eligible seq pos tm.1 s).map (·.2)

/-- a form as observed: N-terminal mass, per-residue masses (0 = none), C-terminal mass -/
structure Form where
  nterm : Option Rat
  mods : List Rat
  cterm : Option Rat
deriving DecidableEq, Repr

def refForm (seq : List Nat) (pos : Position) (statics : List (Target × Rat)) (σ : List (Site × Rat)) : Form :=
  { nterm := refSlot seq pos statics σ .nterm
    mods := (List.range seq.length).map fun i => (refSlot seq pos statics σ (.seq i)).getD 0
    cterm := refSlot seq pos statics σ .cterm }

/-- the forms the property demands (as a list; order irrelevant) -/
def refForms (seq : List Nat) (pos : Position) (vars statics : List (Target × Rat)) (max : Nat) : List Form :=
  (refPlacements seq pos vars max (allSites seq.length)).map (refForm seq pos statics)

def sumRat (l : List Rat) : Rat := l.foldl (· + ·) 0

/-- mass of a form by the property's formula: water + residues + every modification mass -/
def refMass (seq : List Nat) (f : Form) : Rat :=
  Sage.Gen.H2O + sumRat (seq.map (monoisotopic Sage.Gen.MONOISOTOPIC)) + sumRat f.mods
    + f.nterm.getD 0 + f.cterm.getD 0

/-- the candidate list read off the declarative eligibility (for the "no duplicate candidate" premise) -/
def specCands (seq : List Nat) (pos : Position) (vars : List (Target × Rat)) : List (Site × Rat) :=
  vars.flatMap fun tm => ((allSites seq.length).filter (eligible seq pos tm.1)).map fun s => (s, tm.2)

def nodupB {β : Type} [BEq β] : List β → Bool
  | [] => true
  | x :: xs => !xs.contains x && nodupB xs

/-- static modifications are non-overlapping on this peptide: no site is eligible for two of them -/
def staticsDisjoint (seq : List Nat) (pos : Position) {β : Type} (statics : List (Target × β)) : Bool :=
  (allSites seq.length).all fun s => (statics.filter fun tm => eligible seq pos tm.1 s).length ≤ 1

def ltOptRat : Option Rat → Option Rat → Bool
  | none, some _ => true
  | some a, some b => decide (a < b)
  | _, _ => false

def ltListRat : List Rat → List Rat → Bool
  | [], _ :: _ => true
  | a :: as, b :: bs => decide (a < b) || (a == b && ltListRat as bs)
  | _, _ => false

/-- a total order on forms (for multiset comparison by sorting) -/
def Form.le (a b : Form) : Bool :=
  if a.nterm != b.nterm then ltOptRat a.nterm b.nterm
  else if a.cterm != b.cterm then ltOptRat a.cterm b.cterm
  else !ltListRat b.mods a.mods

def sortForms (l : List Form) : List Form := l.mergeSort Form.le

/-- verdict of the enumeration clauses on observed forms.
    `strict = true`: multiset equality ("each once"); `false`: equality as sets. -/
def enumVerdict (want got : List Form) (strict : Bool) : String :=
  match got.find? (fun f => !want.contains f) with
  | some _ => "bad:form_not_a_placement"
  | none =>
    match want.find? (fun f => !got.contains f) with
    | some _ => "bad:placement_missing"
    | none =>
      if strict && sortForms want != sortForms got then "bad:form_repeated" else "ok"

/-! ## the documented key grammar, as a finite table -/

/-- the four terminal markers `^ $ [ ]` with the specificity each denotes -/
def markers : List (Nat × (Option Nat → Target)) :=
  [(94, Target.peptideN), (36, Target.peptideC), (91, Target.proteinN), (93, Target.proteinC)]

/-- every key of the documented syntax with its meaning: a marker alone, a marker followed by one
    of the 22 residues, or one residue (4 + 88 + 22 = 114 keys) -/
def grammar : List (List Nat × Target) :=
  (markers.flatMap fun cm =>
      ([cm.1], cm.2 none) :: Sage.Gen.VALID_AA.map fun r => ([cm.1, r], cm.2 (some r)))
    ++ Sage.Gen.VALID_AA.map fun r => ([r], Target.residue r)

/-- verdict on an observed parse result (`none` = rejected) -/
def keyVerdict (s : List Nat) (got : Option Target) : String :=
  match grammar.lookup s, got with
  | none, none => "ok"
  | some t, some t' => if t == t' then "ok" else "bad:key_misread"
  | none, some _ => "bad:key_outside_grammar_accepted"
  | some _, none => "bad:key_in_grammar_rejected"

end Sage.C06
