/-!
# C12 — model of `sage_core::ml::qvalue::spectrum_q_value` (core Lean only)

`true` = decoy (label −1). The Rust function makes two passes over the PSMs:

* forward: `decoy` starts at 1, `target` at 0; each PSM bumps one of them and gets
  `decoy as f32 / target as f32` (`+∞` while `target = 0`);
* backward: cumulative minimum starting from `1.0`, counting `q_min <= 0.01`.

The model keeps the ratio as an exact rational (`none` = `+∞`); the driver rounds
it once to f32, which is what the single IEEE division in the code does while
both counters are below 2²⁴.
-/

namespace Sage.C12

/-- forward pass: running (decoy+1, target) counts *after* each PSM -/
def counts : Nat → Nat → List Bool → List (Nat × Nat)
  | _, _, [] => []
  | d, t, b :: bs =>
    let d' := if b then d + 1 else d
    let t' := if b then t else t + 1
    (d', t') :: counts d' t' bs

/-- `decoy as f32 / target as f32`; `none` is the float `+∞` (target = 0, decoy ≥ 1) -/
def ratio (c : Nat × Nat) : Option Rat := if c.2 = 0 then none else some ((c.1 : Rat) / (c.2 : Rat))

/-- `q_min = q_min.min(x)` with `+∞` never winning -/
def minOpt (m : Rat) : Option Rat → Rat
  | none => m
  | some x => min m x

/-- head of the already-computed suffix, `1` at the end of the list (the initial `q_min`) -/
def hd : List Rat → Rat
  | [] => 1
  | x :: _ => x

@[simp] theorem hd_nil : hd [] = 1 := rfl
@[simp] theorem hd_cons (x : Rat) (l : List Rat) : hd (x :: l) = x := rfl

/-- backward pass: cumulative minimum from the end, starting from 1 -/
def cummin : List (Option Rat) → List Rat
  | [] => []
  | r :: rs =>
    let tl := cummin rs
    minOpt (hd tl) r :: tl

/-- the model of `spectrum_q_value`: q-values in input order, and the passing count -/
def spectrumQ (labels : List Bool) : List Rat × Nat :=
  let qs := cummin ((counts 1 0 labels).map ratio)
  (qs, (qs.filter (fun q => decide (q ≤ 1/100))).length)

/-! ### specification: the O(n²) definition, straight from the property text -/

/-- number of decoys / targets among the first `k` labels -/
def nDecoy (labels : List Bool) (k : Nat) : Nat := ((labels.take k).filter id).length
def nTarget (labels : List Bool) (k : Nat) : Nat := ((labels.take k).filter (fun b => !b)).length

/-- `(decoys + 1) / targets` counted down to cut-off `j` (inclusive), `none` = no target yet -/
def fdrAt (labels : List Bool) (j : Nat) : Option Rat :=
  ratio (1 + nDecoy labels (j + 1), nTarget labels (j + 1))

/-- q-value at position `i`: minimum over all cut-offs `j ≥ i` of (decoys+1)/targets, capped at 1 -/
def qSpec (labels : List Bool) (i : Nat) : Rat :=
  ((List.range (labels.length - i)).map (fun d => fdrAt labels (i + d))).foldr (fun r m => minOpt m r) 1

/-- executable spec check on a claimed result -/
def specOk (labels : List Bool) (qs : List Rat) (passing : Nat) : Bool :=
  qs.length == labels.length &&
  (List.range labels.length).all (fun i => qs[i]? == some (qSpec labels i)) &&
  passing == (qs.filter (fun q => decide (q ≤ 1/100))).length

end Sage.C12
