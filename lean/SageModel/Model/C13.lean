/-!
# C13 — model of `sage_core::fdr` (core Lean only)

`picked_peptide`, `picked_protein` and `picked_precursor`, operation by operation:

* the **competition map** (`competition`): one entry per key, holding the best forward (target) and
  best reverse (decoy) score seen under that key and the index stored by the *last* PSM of each kind
  (`entry.forward = entry.forward.max(score); entry.foward_ix = Some(ix)`), starting from
  `f32::MIN` (`bot`);
* `assign_q_value` (`assignRows`): one row per stored index, **sort by score descending, decoys first
  among equal scores, then by entity index ascending** (`rowLe`; a total key, so the hash map's
  iteration order no longer matters), forward pass `decoy += pep(score)`
  (`decoy` starts at 1), `target += 1` for non-decoy rows, `q = decoy / target`; backward cumulative
  minimum from `1.0`; `passing` = number of non-decoy rows with `q_min <= threshold`;
  result looked up by index (`scores[&ix]`, which panics when the index has no row);
* `picked_precursor`: the same two passes with `decoy += 1` for decoy rows instead of `+= pep`.

Two things are **parameters** of the model because the code does not determine them:

* `pep : σ → α`, the fitted posterior-error estimator (a float pipeline: C14). The theorems need
  only `0 ≤ pep s`.
* the order in which the hash map hands out its entries: `assignQ` / `pickedWith` take the entry
  list `es` as an argument; the theorems are about every `es` that is a permutation of
  `competition bot psms`, and `order_invariant` shows that the order is irrelevant (before /repo
  1f05eb8 it decided the result under score ties: corpus/C13/fixed-order-dependent-under-ties.req).

Numbers: `σ` is the score type (only compared), `α` the q-value type (`+ / ≤`). The driver runs the
same definitions at `σ := Int` (the `total_cmp` key of the f32 score) and `α := Float32`; the
theorems are about `α := Rat` and any linear order `σ`.
`decoy / target` with `target = 0` is `+∞` (or NaN) in the code and never wins `q_min.min(..)`:
the model says `none` for it, so that Lean's `x / 0 = 0` plays no role.
-/

namespace Sage.C13

/-! ### peptides and keys -/

/-- what the functions read of a database peptide. Residues are bytes, modifications f32 bit patterns. -/
structure Pep where
  decoy : Bool
  seq : List Nat
  mods : List Nat
  nterm : Option Nat
  cterm : Option Nat
  prots : List String
deriving Repr

/-- `s[1..n].reverse()` with `n = len - 1`, when `n > 1` (what `Peptide::reverse` does to the
    sequence and to the modification vector) -/
def revMid {β : Type} (l : List β) : List β :=
  if 1 < l.length - 1 then l.take 1 ++ ((l.drop 1).take (l.length - 2)).reverse ++ l.drop (l.length - 1)
  else l

/-- `Peptide::reverse` -/
def Pep.reverse (p : Pep) : Pep :=
  { p with decoy := !p.decoy, seq := revMid p.seq, mods := revMid p.mods }

/-- `*m != 0.0` is false for `+0.0` and `-0.0`: both print as "no modification" -/
def normMod (b : Nat) : Nat := if b = 0 ∨ b = 2147483648 then 0 else b

/-- The content of `Peptide::to_string()` as a structured value: N-terminal modification, the
    residues each with its (normalised) modification, C-terminal modification. Two peptides have
    the same string iff they have the same structured value, provided residues are letters and
    `{:+}` prints different non-zero floats differently (shortest round-trip printing; trusted). -/
abbrev PepKey := Option Nat × List (Nat × Nat) × Option Nat

def Pep.str (p : Pep) : PepKey := (p.nterm, p.seq.zip (p.mods.map normMod), p.cterm)

/-- the key `picked_peptide` files a PSM under -/
def pepKey (generateDecoys : Bool) (p : Pep) : PepKey :=
  if generateDecoys && p.decoy then p.reverse.str else p.str

/-- `Peptide::proteins(decoy_tag, generate_decoys)` -/
def Pep.proteinStr (tag : String) (generateDecoys : Bool) (p : Pep) : String :=
  ";".intercalate (p.prots.map fun s => if p.decoy && generateDecoys then tag ++ s else s)

/-! ### competition -/

/-- a PSM as the competition sees it: key, decoy flag of its peptide, the index it stores, score -/
structure Psm (κ ι σ : Type) where
  key : κ
  decoy : Bool
  ix : ι
  score : σ
deriving Repr

/-- `Competition<Ix>` -/
structure Comp (ι σ : Type) where
  fwd : σ
  fix : Option ι
  rev : σ
  rix : Option ι
deriving Repr, DecidableEq

/-- `f32::max` on non-NaN values -/
def smax {σ : Type} [LE σ] [DecidableLE σ] (a b : σ) : σ := if a ≤ b then b else a

variable {κ ι σ : Type}

/-- `Competition::default()`; `bot` is `f32::MIN` -/
def Comp.init (bot : σ) : Comp ι σ := ⟨bot, none, bot, none⟩

/-- the body of the `match peptide.decoy` in the loop -/
def Comp.upd [LE σ] [DecidableLE σ] (c : Comp ι σ) (p : Psm κ ι σ) : Comp ι σ :=
  if p.decoy then { c with rev := smax c.rev p.score, rix := some p.ix }
  else { c with fwd := smax c.fwd p.score, fix := some p.ix }

/-- `map.entry(key).or_default()` followed by the update; entries are kept in first-insertion order
    (the real iteration order is a parameter, see `pickedWith`) -/
def updMap [DecidableEq κ] [LE σ] [DecidableLE σ] (bot : σ) :
    List (κ × Comp ι σ) → Psm κ ι σ → List (κ × Comp ι σ)
  | [], p => [(p.key, (Comp.init bot).upd p)]
  | (k, c) :: m, p => if k = p.key then (k, c.upd p) :: m else (k, c) :: updMap bot m p

/-- the `for feat in features.iter()` loop -/
def competition [DecidableEq κ] [LE σ] [DecidableLE σ] (bot : σ) (psms : List (Psm κ ι σ)) :
    List (κ × Comp ι σ) :=
  psms.foldl (updMap bot) []

/-! ### rows, sort, the two passes -/

/-- `Row<Ix>` (without `q`) -/
structure Row (ι σ : Type) where
  ix : ι
  decoy : Bool
  score : σ
deriving Repr, DecidableEq

/-- `[(foward_ix, false, forward), (reverse_ix, true, reverse)]` filtered on `ix.is_some()` -/
def Comp.rows (c : Comp ι σ) : List (Row ι σ) :=
  (match c.fix with | some i => [⟨i, false, c.fwd⟩] | none => []) ++
  (match c.rix with | some i => [⟨i, true, c.rev⟩] | none => [])

def rowsOf (es : List (κ × Comp ι σ)) : List (Row ι σ) := es.flatMap fun e => e.2.rows

/-- The sort comparator (since /repo 1f05eb8):
    `b.score.total_cmp(&a.score).then_with(|| b.decoy.cmp(&a.decoy)).then_with(|| a.ix.cmp(&b.ix))`,
    i.e. `a` comes no later than `b` iff its score is higher, or the scores are equal and `a` is the
    decoy of the two, or also the decoy flags agree and `a.ix ≤ b.ix`. -/
def rowLe [LE σ] [DecidableLE σ] [LE ι] [DecidableLE ι] (a b : Row ι σ) : Bool :=
  if ¬ a.score ≤ b.score then true
  else if ¬ b.score ≤ a.score then false
  else if a.decoy != b.decoy then a.decoy
  else decide (a.ix ≤ b.ix)

/-- `par_sort_by` with that comparator (a stable sort; the key is total on rows, so stability no
    longer matters and the result does not depend on the order the rows arrive in) -/
def sortRows [LE σ] [DecidableLE σ] [LE ι] [DecidableLE ι] (rs : List (Row ι σ)) : List (Row ι σ) :=
  rs.mergeSort rowLe

variable {α : Type}

/-- `decoy / target`; `none` stands for the `+∞`/NaN obtained while `target = 0` -/
def ratio [Div α] (cast : Nat → α) (d : α) (t : Nat) : Option α :=
  if t = 0 then none else some (d / cast t)

/-- forward pass: running `decoy` (type `α`) and `target` (a count) -/
def fwdPass [Add α] [Div α] (inc : Row ι σ → α) (cast : Nat → α) :
    α → Nat → List (Row ι σ) → List (Row ι σ × Option α)
  | _, _, [] => []
  | d, t, r :: rs =>
    let d' := d + inc r
    let t' := if r.decoy then t else t + 1
    (r, ratio cast d' t') :: fwdPass inc cast d' t' rs

/-- `q_min.min(q)`: `+∞`/NaN (`none`) never wins; on floats `x ≤ m` is false for NaN `x` -/
def qmin [LE α] [DecidableLE α] (m : α) : Option α → α
  | none => m
  | some x => if x ≤ m then x else m

/-- `q_min` carried into a position: the q of the next row, `1.0` at the end -/
def hd (one : α) : List (Row ι σ × α) → α
  | [] => one
  | x :: _ => x.2

@[simp] theorem hd_nil (one : α) : hd (ι := ι) (σ := σ) one [] = one := rfl
@[simp] theorem hd_cons (one : α) (x : Row ι σ × α) (l : List (Row ι σ × α)) : hd one (x :: l) = x.2 := rfl

/-- backward pass: cumulative minimum from the end, starting at `1.0` -/
def cummin [LE α] [DecidableLE α] (one : α) : List (Row ι σ × Option α) → List (Row ι σ × α)
  | [] => []
  | (r, x) :: rs =>
    let tl := cummin one rs
    (r, qmin (hd one tl) x) :: tl

/-- sort + both passes: the rows in sorted order, each with its q-value, and the passing count -/
def assignRows [LE σ] [DecidableLE σ] [LE ι] [DecidableLE ι] [Add α] [Div α] [LE α] [DecidableLE α]
    (inc : Row ι σ → α) (cast : Nat → α) (one thr : α) (rows : List (Row ι σ)) :
    List (Row ι σ × α) × Nat :=
  let tab := cummin one (fwdPass inc cast one 0 (sortRows rows))
  (tab, (tab.filter fun rq => decide (rq.2 ≤ thr) && !rq.1.decoy).length)

/-- `Competition::assign_q_value(scores, threshold)` on the entries in iteration order `es` -/
def assignQ [LE σ] [DecidableLE σ] [LE ι] [DecidableLE ι] [Add α] [Div α] [LE α] [DecidableLE α]
    (pep : σ → α) (cast : Nat → α) (one thr : α) (es : List (κ × Comp ι σ)) :
    List (Row ι σ × α) × Nat :=
  assignRows (fun r => pep r.score) cast one thr (rowsOf es)

/-- `.collect::<HashMap<Ix, f32>>()` then `scores[&ix]`: the last row with that index wins; `none` = panic -/
def lookupQ [DecidableEq ι] (tab : List (Row ι σ × α)) (ix : ι) : Option α :=
  (tab.reverse.find? fun rq => rq.1.ix = ix).map (·.2)

/-- `picked_peptide` / `picked_protein` after the competition loop, for the iteration order `es`:
    q-value per PSM (input order) and the passing count; `none` = the index lookup panics -/
def pickedWith [DecidableEq ι] [LE ι] [DecidableLE ι] [LE σ] [DecidableLE σ] [Add α] [Div α] [LE α] [DecidableLE α]
    (pep : σ → α) (cast : Nat → α) (one thr : α) (es : List (κ × Comp ι σ)) (psms : List (Psm κ ι σ)) :
    Option (List α × Nat) :=
  let r := assignQ pep cast one thr es
  if psms.all (fun p => (lookupQ r.1 p.ix).isSome) then
    some (psms.map (fun p => (lookupQ r.1 p.ix).getD one), r.2)
  else none

/-- `picked_precursor` on the peaks in iteration order: `decoy += 1.0` for decoy rows -/
def pickedPrecursor [LE σ] [DecidableLE σ] [LE ι] [DecidableLE ι] [Add α] [Div α] [LE α] [DecidableLE α]
    (cast : Nat → α) (zero one thr : α) (peaks : List (Row ι σ)) : List (Row ι σ × α) × Nat :=
  assignRows (fun r => if r.decoy then one else zero) cast one thr peaks

/-! ### the two public functions over a database -/

instance : Inhabited Pep := ⟨⟨false, [], [], none, none, []⟩⟩

/-- the competition's view of the PSM list in `picked_peptide`: key = `pepKey`, stored index = `peptide_idx`.
    `feats` = (peptide_idx, discriminant score); `none` = an index outside the database (`db[idx]` panics) -/
def pepPsms {σ : Type} (gd : Bool) (peps : List Pep) (feats : List (Nat × σ)) : Option (List (Psm PepKey Nat σ)) :=
  if feats.all (fun f => f.1 < peps.length) then
    some (feats.map fun f =>
      let p := peps.getD f.1 default
      { key := pepKey gd p, decoy := p.decoy, ix := f.1, score := f.2 })
  else none

/-- … in `picked_protein`: key = the protein list, stored index = the joined protein-group string -/
def protPsms {σ : Type} (gd : Bool) (tag : String) (peps : List Pep) (feats : List (Nat × σ)) :
    Option (List (Psm (List String) String σ)) :=
  if feats.all (fun f => f.1 < peps.length) then
    some (feats.map fun f =>
      let p := peps.getD f.1 default
      { key := p.prots, decoy := p.decoy, ix := p.proteinStr tag gd, score := f.2 })
  else none

/-- `picked_peptide(db, features)`: q-value per PSM and the passing count (`none` = panic).
    The map's iteration order is taken to be first-insertion order: it does not matter (`order_invariant`). -/
def pickedPeptide {σ : Type} [LE σ] [DecidableLE σ] [Add α] [Div α] [LE α] [DecidableLE α]
    (bot : σ) (pep : σ → α) (cast : Nat → α) (one thr : α) (gd : Bool) (peps : List Pep)
    (feats : List (Nat × σ)) : Option (List α × Nat) :=
  (pepPsms gd peps feats).bind fun psms => pickedWith pep cast one thr (competition bot psms) psms

/-- `picked_protein(db, features)` -/
def pickedProtein {σ : Type} [LE σ] [DecidableLE σ] [Add α] [Div α] [LE α] [DecidableLE α]
    (bot : σ) (pep : σ → α) (cast : Nat → α) (one thr : α) (gd : Bool) (tag : String) (peps : List Pep)
    (feats : List (Nat × σ)) : Option (List α × Nat) :=
  (protPsms gd tag peps feats).bind fun psms => pickedWith pep cast one thr (competition bot psms) psms

/-! ### specification (as naive as possible; evaluated by the driver on the implementation's output) -/

/-- best score of the entity `ix` among the PSMs (never below `bot`, the code's starting value) -/
def best [DecidableEq ι] [LE σ] [DecidableLE σ] (bot : σ) (psms : List (Psm κ ι σ)) (ix : ι) : σ :=
  (psms.filter fun p => p.ix = ix).foldl (fun m p => smax m p.score) bot

/-- distinct target entities, in order of first appearance -/
def targetEntities [DecidableEq ι] (psms : List (Psm κ ι σ)) : List ι :=
  ((psms.filter fun p => !p.decoy).map (·.ix)).eraseDups

/-- clause `range`: every q in (0, 1] -/
def specRange [LE α] [DecidableLE α] [LT α] [DecidableLT α] (zero one : α) (qs : List α) : Bool :=
  qs.all fun q => decide (zero < q) && decide (q ≤ one)

/-- clause `same_entity`: PSMs that store the same index carry the same q -/
def specSame [DecidableEq ι] [LE α] [DecidableLE α] (pq : List (Psm κ ι σ × α)) : Bool :=
  pq.all fun a => pq.all fun b => decide (a.1.ix ≠ b.1.ix) || (decide (a.2 ≤ b.2) && decide (b.2 ≤ a.2))

/-- clause `antitone` on (best score of the PSM's entity, q of the PSM): strictly higher best ⇒ q not larger -/
def specAnti [LE σ] [DecidableLE σ] [LE α] [DecidableLE α] (bq : List (σ × α)) : Bool :=
  bq.all fun a => bq.all fun b => decide (a.1 ≤ b.1) || decide (a.2 ≤ b.2)

/-- number of distinct target entities whose q (read off the first PSM of the entity) is ≤ `thr` -/
def specCount [DecidableEq ι] [LE α] [DecidableLE α] (thr : α) (psms : List (Psm κ ι σ))
    (pq : List (Psm κ ι σ × α)) : Nat :=
  ((targetEntities psms).filter fun ix =>
      match pq.find? (fun a => a.1.ix = ix) with
      | some a => decide (a.2 ≤ thr)
      | none => false).length

/-- The property's clauses on a claimed result `qs` (one q per PSM) and `passing`:
    * `length`      one q-value per PSM;
    * `range`       every q in (0, 1];
    * `same_entity` PSMs of the same entity carry the same q;
    * `antitone`    an entity with a strictly higher best score has no larger q;
    * `count`       `passing` = number of target entities whose q is ≤ the threshold.
    Returns the name of the first clause that fails. -/
def specVerdict [DecidableEq ι] [LE σ] [DecidableLE σ] [LE α] [DecidableLE α] [LT α] [DecidableLT α]
    (bot : σ) (zero one thr : α) (psms : List (Psm κ ι σ)) (qs : List α) (passing : Nat) : String :=
  if qs.length ≠ psms.length then "bad:length" else
  if !specRange zero one qs then "bad:range" else
  if !specSame (psms.zip qs) then "bad:same_entity" else
  if !specAnti ((psms.zip qs).map fun a => (best bot psms a.1.ix, a.2)) then "bad:antitone" else
  if specCount thr psms (psms.zip qs) ≠ passing then "bad:count" else "ok"

end Sage.C13
