import SageModel.Proto

/-!
# C15 — model of `sage_core::ml::{matrix, gauss, linear_discriminant}` and of the heuristic
fallback of `Runner::spectrum_fdr` (core Lean only)

Every arithmetic function is written ONCE, generic in the number type `α`
(`+ − × ÷`, unary minus, `0`, `1`, `Nat → α`, decidable `≤`/`<`):

* at `α := Float` the driver runs it and compares **bit-exactly** with the Rust code (only
  `+ − × ÷`, `sqrt` — correctly rounded on both sides — and comparisons are involved; every
  parallel iterator in the Rust code is an *indexed* map whose per-element fold is sequential,
  so the order of the float additions is fixed);
* at `α := Rat` it is the exact oracle and the subject of the theorems (`Props/C15.lean`, where the
  statements are for every linearly ordered field).

A matrix is a list of rows (`List (List α)`); the Rust `Matrix { data, rows, cols }` is row-major
with explicit `cols`, so functions that need the column count of a possibly empty matrix take it
as an argument. Reads outside the matrix give `0` (the Rust code would panic; the driver only
feeds rectangular data, and says which shapes the real code rejects).

Constants that have no meaning in an arbitrary field are parameters, bundled in `Consts`:
`tol = 1e-8`, `eps0 = 1e-8`, `ten = 10`.
-/

namespace Sage.C15

instance : NatCast Float := ⟨Float.ofNat⟩

abbrev Vec (α : Type) := List α
abbrev Mat (α : Type) := List (List α)

structure Consts (α : Type) where
  /-- `1E-8` of `left_solved` and of `power_method`'s stopping rule -/
  tol : α
  /-- first regulariser of `Gauss::solve` (`1E-8`) -/
  eps0 : α
  /-- `10.0` (`eps *= 10.0`) -/
  ten : α

section generic
variable {α : Type} [Add α] [Sub α] [Mul α] [Div α] [Neg α] [OfNat α 0] [OfNat α 1] [NatCast α]
  [LE α] [LT α] [DecidableLE α] [DecidableLT α]

/-- `x == 0.0` (IEEE: true for ±0, false for NaN; in a linear order: `x = 0`) -/
def isZero (x : α) : Bool := decide (x ≤ 0) && decide (0 ≤ x)
/-- `x == 1.0` -/
def isOne (x : α) : Bool := decide (x ≤ 1) && decide (1 ≤ x)
/-- `x.abs()` up to the sign of zero (only ever compared with a positive constant) -/
def absv (x : α) : α := if x < 0 then -x else x

/-- `m[(i, j)]` -/
def get (m : Mat α) (i j : Nat) : α := (m.getD i []).getD j 0

/-! ## `matrix.rs` -/

/-- `row.zip(rhs).fold(0.0, |acc, (x, y)| acc + x * y)` -/
def dotl (xs ys : List α) : α := (xs.zip ys).foldl (fun acc p => acc + p.1 * p.2) 0

/-- column `c` as a list (`Matrix::col`) -/
def col (m : Mat α) (c : Nat) : List α := m.map (fun r => r.getD c 0)

/-- `Iterator::sum::<f64>()` — folds from `-0.0` -/
def fsum (l : List α) : α := l.foldl (· + ·) (-(0 : α))

/-- `Matrix::mean`: mean of each column (`sum / rows as f64`; `0/0 = NaN` for an empty matrix) -/
def mean (m : Mat α) (cols : Nat) : Vec α :=
  (List.range cols).map fun c => fsum (col m c) / (m.length : α)

/-- `Matrix::transpose` (the 1-row / 1-column shortcut of the Rust code is the same function) -/
def transpose (m : Mat α) (cols : Nat) : Mat α := (List.range cols).map fun c => col m c

/-- `Matrix::dot`; `bcols` = `rhs.cols` -/
def dot (a b : Mat α) (bcols : Nat) : Mat α :=
  a.map fun row => (List.range bcols).map fun j => dotl row (col b j)

/-- `Matrix::dotv` -/
def dotv (a : Mat α) (v : Vec α) : Vec α := a.map fun row => dotl row v

/-- `ml::norm`: `sqrt(fold(0.0, acc + x.powi(2)))`; `sqrt` is a parameter -/
def norm (sqrt : α → α) (v : Vec α) : α := sqrt (v.foldl (fun acc x => acc + x * x) 0)

/-- element-wise `+=` of two matrices of equal shape -/
def madd (a b : Mat α) : Mat α := List.zipWith (fun ra rb => List.zipWith (· + ·) ra rb) a b

/-- `Matrix / f64` -/
def mdiv (a : Mat α) (d : α) : Mat α := a.map fun r => r.map (· / d)

def zeros (rows cols : Nat) : Mat α := List.replicate rows (List.replicate cols 0)

/-- one iteration body of `power_method`; `none` = `break` -/
def powerStep (sqrt : α → α) (tol : α) (m : Mat α) (v : Vec α) (last : α) : Option (Vec α × α) :=
  let v1 := dotv m v
  let nrm := norm sqrt v1
  if absv (nrm - last) < tol then none else some (v1.map (· / nrm), nrm)

def powerLoop (sqrt : α → α) (tol : α) (m : Mat α) : Nat → Vec α → α → Vec α
  | 0, v, _ => v
  | fuel + 1, v, last =>
    match powerStep sqrt tol m v last with
    | none => v
    | some (v', last') => powerLoop sqrt tol m fuel v' last'

/-- `Matrix::power_method` (50 iterations at most) -/
def powerMethod (sqrt : α → α) (tol : α) (m : Mat α) (initial : Vec α) : Vec α :=
  let n := norm sqrt initial
  powerLoop sqrt tol m 50 (initial.map (· / n)) 0

/-! ## `gauss.rs` -/

/-- `fill_zero`: `left[(i,i)] += eps` -/
def fillZero (eps : α) (left : Mat α) : Mat α :=
  left.mapIdx fun i row => row.mapIdx fun j x => if i = j then x + eps else x

/-- `swap_rows` -/
def swapRows (m : Mat α) (i j : Nat) : Mat α :=
  let ri := m.getD i []
  let rj := m.getD j []
  (m.set i rj).set j ri

/-- pivot search of `echelon` (as repaired: textbook partial pivoting): the LAST row in `h..m` whose
    entry in column `k` has the largest MAGNITUDE (`>=` on `abs`); `(h, 0.0)` if the segment is empty.
    Returns the row and that magnitude. -/
def findMax (left : Mat α) (k h m : Nat) : Nat × α :=
  (List.range' h (m - h)).foldl
    (fun mx i => let v := absv (get left i k); if mx.2 ≤ v then (i, v) else mx) (h, 0)

/-- new left row `i` when clearing column `k` with pivot row `hl`: entries before `k` untouched,
    entry `k` set to `0.0`, entries after `k`: `x -= hl[j] * factor` -/
def elimLeft (k : Nat) (hl : List α) (factor : α) (l : List α) : List α :=
  l.mapIdx fun j x => if j < k then x else if j = k then 0 else x - hl.getD j 0 * factor

/-- new right row: `x -= hr[j] * factor` for every column -/
def elimRight (hr : List α) (factor : α) (r : List α) : List α :=
  r.mapIdx fun j x => x - hr.getD j 0 * factor

/-- "clear rows below pivot row" for pivot `(h, k)` -/
def clearBelow (h k : Nat) (left right : Mat α) : Mat α × Mat α :=
  let hl := left.getD h []
  let hr := right.getD h []
  let p := hl.getD k 0
  (left.mapIdx fun i l => if h < i then elimLeft k hl (l.getD k 0 / p) l else l,
   right.mapIdx fun i r => if h < i then elimRight hr (get left i k / p) r else r)

/-- `echelon`: `fuel` bounds the `while h < m && k < n` loop (`k` grows every iteration) -/
def echelonLoop (m n : Nat) : Nat → Nat → Nat → Mat α × Mat α → Mat α × Mat α
  | 0, _, _, st => st
  | fuel + 1, h, k, (left, right) =>
    if h < m ∧ k < n then
      let i := (findMax left k h m).1
      if isZero (get left i k) then echelonLoop m n fuel h (k + 1) (left, right)
      else
        let sw := if h ≠ i then (swapRows left h i, swapRows right h i) else (left, right)
        echelonLoop m n fuel (h + 1) (k + 1) (clearBelow h k sw.1 sw.2)
    else (left, right)

def echelon (n : Nat) (st : Mat α × Mat α) : Mat α × Mat α :=
  echelonLoop st.1.length n n 0 0 st

/-- first entry of a row that is not `== 0.0` -/
def firstNZ : List α → Nat → Option (Nat × α)
  | [], _ => none
  | x :: xs, j => if isZero x then firstNZ xs (j + 1) else some (j, x)

/-- `reduce`, one row: divide the row from its first non-zero entry on, and the whole right row -/
def reduceRow (l r : List α) : List α × List α :=
  match firstNZ l 0 with
  | none => (l, r)
  | some (j, x) => (l.mapIdx fun k y => if k < j then y else y / x, r.map (· / x))

/-- `reduce`: the rows are independent -/
def reduce (st : Mat α × Mat α) : Mat α × Mat α :=
  (List.zipWith (fun l r => (reduceRow l r).1) st.1 st.2,
   List.zipWith (fun l r => (reduceRow l r).2) st.1 st.2)

/-- `backfill`, the step for row `i`: clear the column of row `i`'s first non-zero entry in all
    rows above (`row_k -= row_i * (left[k,j] / left[i,j])`, every column) -/
def backfillRow (i : Nat) (st : Mat α × Mat α) : Mat α × Mat α :=
  let li := st.1.getD i []
  let ri := st.2.getD i []
  match firstNZ li 0 with
  | none => st
  | some (j, p) =>
    (st.1.mapIdx fun k l => if k < i then elimRight li (l.getD j 0 / p) l else l,
     st.2.mapIdx fun k r => if k < i then elimRight ri (get st.1 k j / p) r else r)

/-- `backfill`: rows from the last to the first -/
def backfill (st : Mat α × Mat α) : Mat α × Mat α :=
  (List.range st.1.length).reverse.foldl (fun s i => backfillRow i s) st

/-- `left_solved` (as repaired): every diagonal entry is `1.0` or `0.0`, every off-diagonal entry
    has `|x| <= 1e-8` -/
def leftSolved (tol : α) (n : Nat) (left : Mat α) : Bool :=
  (List.range n).all fun i => (List.range n).all fun j =>
    let x := get left i j
    if i = j then isOne x || isZero x else !(decide (tol < absv x))

/-- `Gauss::solve_inner`; `n = left.cols` -/
def solveInner (c : Consts α) (n : Nat) (left right : Mat α) (eps : α) : Option (Mat α) :=
  let st := backfill (reduce (echelon n (fillZero eps left, right)))
  if leftSolved c.tol n st.1 then some st.2 else none

/-- `Gauss::solve`: `while eps <= 1.0 { try; eps *= 10.0 }` (fuel: the loop runs 9 times) -/
def solveLoop (c : Consts α) (n : Nat) (left right : Mat α) : Nat → α → Option (Mat α)
  | 0, _ => none
  | fuel + 1, eps =>
    if eps ≤ 1 then
      match solveInner c n left right eps with
      | some x => some x
      | none => solveLoop c n left right fuel (eps * c.ten)
    else none

def solve (c : Consts α) (n : Nat) (left right : Mat α) : Option (Mat α) :=
  solveLoop c n left right 64 c.eps0

/-- the regularisers `solve` tries, in order -/
def ladder (c : Consts α) : Nat → α → List α
  | 0, _ => []
  | fuel + 1, eps => if eps ≤ 1 then eps :: ladder c fuel (eps * c.ten) else []

/-! ## `linear_discriminant.rs` -/

/-- rows of one class, in input order (`class = true` is the decoy class) -/
def classRows (feats : Mat α) (decoy : List Bool) (cls : Bool) : Mat α :=
  ((feats.zip decoy).filter fun p => p.2 == cls).map (·.1)

/-- `class_data[(row, col)] -= class_mean[col]` -/
def center (rows : Mat α) (mu : Vec α) : Mat α := rows.map fun r => List.zipWith (· - ·) r mu

/-- `class_data.transpose().dot(&class_data) / class_data.rows as f64` on the centred class data -/
def classCov (rows : Mat α) (p : Nat) : Mat α :=
  let cd := center rows (mean rows p)
  mdiv (dot (transpose cd p) cd p) (rows.length : α)

/-- `diff.dot(&diff.transpose())` for the column vector `diff = class_mean - x_bar` -/
def classBetween (mu xbar : Vec α) (p : Nat) : Mat α :=
  let diff : Mat α := (List.zipWith (· - ·) mu xbar).map fun x => [x]
  dot diff (transpose diff 1) p

/-- everything `train` computes before calling the solver -/
structure Stats (α : Type) where
  xbar : Vec α
  sw : Mat α
  sb : Mat α
  muDecoy : Vec α
  muTarget : Vec α
deriving DecidableEq

def stats (feats : Mat α) (decoy : List Bool) (p : Nat) : Stats α :=
  let xbar := mean feats p
  let rd := classRows feats decoy true
  let rt := classRows feats decoy false
  let md := mean rd p
  let mt := mean rt p
  { xbar := xbar
    sw := madd (madd (zeros p p) (classCov rd p)) (classCov rt p)
    sb := madd (madd (zeros p p) (classBetween md xbar p)) (classBetween mt xbar p)
    muDecoy := md
    muTarget := mt }

/-- the sign flip at the end of `train`: `class_means = [decoy; target]`,
    `if coef[1] < coef[0] { evec *= -1.0 }` -/
def orient (muDecoy muTarget evec : Vec α) : Vec α :=
  if dotl muTarget evec < dotl muDecoy evec then evec.map (· * (-(1 : α))) else evec

/-- `train` after the statistics -/
def fit (c : Consts α) (sqrt : α → α) (p : Nat) (s : Stats α) : Option (Vec α) :=
  match solve c p s.sw s.sb with
  | none => none
  | some m => some (orient s.muDecoy s.muTarget (powerMethod sqrt c.tol m s.xbar))

/-- `LinearDiscriminantAnalysis::train` (the caller guarantees `features.rows == decoy.len()`,
    otherwise the Rust code panics on its `assert_eq!`) -/
def train (c : Consts α) (sqrt : α → α) (feats : Mat α) (decoy : List Bool) (p : Nat) : Option (Vec α) :=
  fit c sqrt p (stats feats decoy p)

/-- `LinearDiscriminantAnalysis::score` -/
def score (w : Vec α) (feats : Mat α) : Vec α := dotv feats w

/-- the guard of `score_psms`: `eigenvector.iter().all(|f| f.is_finite())` else `None` -/
def guardFinite (isFinite : α → Bool) : Option (Vec α) → Option (Vec α)
  | none => none
  | some w => if w.all isFinite then some w else none

/-- what `score_psms` does to the two fields it writes (`discriminant_score`, `posterior_error`), as a
    function of their old values: both early exits (`train(..)?` and the finite-eigenvector guard)
    return `None` BEFORE the write-back loop, so the PSMs keep their old values; otherwise every PSM
    gets `(score, pepOf score)` (`pepOf` = the KDE posterior of C14, a parameter here) -/
def scorePsmsOutcome (c : Consts α) (sqrt : α → α) (isFinite : α → Bool) (pepOf : α → α)
    (feats : Mat α) (decoy : List Bool) (p : Nat) (old : List (α × α)) : Option Unit × List (α × α) :=
  match guardFinite isFinite (train c sqrt feats decoy p) with
  | none => (none, old)
  | some w => (some (), (score w feats).map fun s => (s, pepOf s))

/-- the heuristic fallback of `Runner::spectrum_fdr`:
    `(-poisson as f32).ln_1p() + longest_y_pct / 3.0`; `ln1p` and the `f64 → f32` cast are parameters -/
def fallback {β : Type} [Neg β] (cast : β → α) (ln1p : α → α) (three : α) (poisson : β) (longestYPct : α) : α :=
  ln1p (cast (-poisson)) + longestYPct / three

end generic

/-! ## constants at the two instantiations -/

/-- the loop constants as `f64` -/
def constsF : Consts Float :=
  { tol := 1E-8, eps0 := 1E-8, ten := 10.0 }

/-- exact value of a finite float (0 for NaN/∞: callers check finiteness first) -/
def ratOfFloat (x : Float) : Rat := (Sage.Proto.ratOfF64Bits x.toBits.toNat).getD 0

/-- the same constants as exact rationals (the exact values of the `f64` constants) -/
def constsQ : Consts Rat :=
  { tol := ratOfFloat 1E-8, eps0 := ratOfFloat 1E-8, ten := 10 }

/-! ## `score_psms` at `Float`: the 20-column feature transform, the fit, the guard, the scores -/

/-- the fields of `scoring::Feature` that `score_psms` and the fallback read -/
structure PsmRec where
  label : Int
  rank : Nat
  charge : Nat
  hyperscore : Float
  deltaNext : Float
  deltaBest : Float
  deltaMass : Float32
  isotopeError : Float32
  averagePpm : Float32
  poisson : Float
  matchedIntensityPct : Float32
  matchedPeaks : Nat
  longestB : Nat
  longestY : Nat
  peptideLen : Nat
  missedCleavages : Nat
  alignedRt : Float32
  ims : Float32
  deltaRtModel : Float32
  deltaImsModel : Float32
  longestYPct : Float32

/-- values the model takes as DATA (no `ln_1p` in Lean; the KDE belongs to C14): the mass-error
    posterior (feature 5) and the `f64::ln_1p` of eight fields -/
structure PsmAux where
  pe : Float
  lnHyperscore : Float
  lnDeltaNext : Float
  lnDeltaBest : Float
  lnNegPoisson : Float
  lnMatchedIntensityPct : Float
  lnLongestB : Float
  lnLongestY : Float
  lnPeptideLen : Float

/-- the number of bins of the mass-error KDE in `score_psms`, from the precursor tolerance (`kind 0` = ppm,
    otherwise dalton): `bin_size = (hi - lo).max(100.0)` for ppm, `(hi - lo).max(1000.0)` for dalton (f32),
    `bins = bin_size.ceil().abs() as usize` -/
def massModelBins (kind : Nat) (lo hi : Float32) : Nat :=
  let w := hi - lo
  let floor : Float32 := if kind == 0 then 100.0 else 1000.0
  -- `f32::max` ignores a NaN operand
  let m := if w.isNaN then floor else if w < floor then floor else w
  m.ceil.abs.toUInt64.toNat

/-- `f64::clamp` (a NaN stays NaN) -/
def clampF (x lo hi : Float) : Float := if x < lo then lo else if x > hi then hi else x

/-- one row of the feature matrix built in `score_psms`, in the order of `FEATURE_NAMES` -/
def featureRow (q : PsmRec) (a : PsmAux) : List Float :=
  let poisson := if a.lnNegPoisson.isFinite then a.lnNegPoisson else 3.5
  [ Float.ofNat q.rank, Float.ofNat q.charge, a.lnHyperscore, a.lnDeltaNext, a.lnDeltaBest, a.pe,
    q.isotopeError.toFloat, q.averagePpm.toFloat, poisson, a.lnMatchedIntensityPct,
    Float.ofNat q.matchedPeaks, a.lnLongestB, a.lnLongestY,
    Float.ofNat q.longestY / Float.ofNat q.peptideLen, a.lnPeptideLen,
    Float.ofNat q.missedCleavages, q.alignedRt.toFloat, q.ims.toFloat,
    (clampF q.deltaRtModel.toFloat 0.001 0.999).sqrt, (clampF q.deltaImsModel.toFloat 0.001 0.999).sqrt ]

/-- `score_psms` up to the discriminant scores: `none` = the function returns `None` (no fit, or a
    non-finite eigenvector), otherwise `discriminant_score = score as f32` for every PSM -/
def scorePsmsModel (ps : List (PsmRec × PsmAux)) : Option (List Float32) :=
  let feats := ps.map fun p => featureRow p.1 p.2
  let decoys := ps.map fun p => p.1.label == -1
  match guardFinite Float.isFinite (train constsF Float.sqrt feats decoys 20) with
  | none => none
  | some w => some ((score w feats).map Float.toFloat32)

/-! ## `XQ = Option ℚ` (`none` = non-finite) for the "finite" statement about the fallback -/

abbrev XQ := Option Rat

namespace XQ
def add : XQ → XQ → XQ
  | some a, some b => some (a + b)
  | _, _ => none
/-- division by zero is non-finite -/
def div : XQ → XQ → XQ
  | some a, some b => if b = 0 then none else some (a / b)
  | _, _ => none
def neg : XQ → XQ
  | some a => some (-a)
  | none => none
def mul : XQ → XQ → XQ
  | some a, some b => some (a * b)
  | _, _ => none
instance : Add XQ := ⟨add⟩
instance : Mul XQ := ⟨mul⟩
instance : Div XQ := ⟨div⟩
instance : Neg XQ := ⟨neg⟩
instance : OfNat XQ 0 := ⟨some 0⟩
end XQ

/-- `LinearDiscriminantAnalysis::score` over `XQ` (a non-finite operand makes the sum non-finite) -/
def scoreXQ (w : List XQ) (feats : List (List XQ)) : List XQ := feats.map fun row => dotl row w

/-- the fallback over `XQ` (the `f64 → f32` cast of a finite value of magnitude ≤ 324 is finite,
    so the cast is the identity here) -/
def fallbackXQ (ln1p : XQ → XQ) (poisson longestYPct : XQ) : XQ :=
  fallback (α := XQ) (β := XQ) id ln1p (some 3) poisson longestYPct

/-- the guard of the poisson feature in `score_psms`, over `XQ`:
    `match (-poisson).ln_1p() { x if x.is_finite() => x, _ => 3.5 }` -/
def poissonFeatureXQ (ln1p : XQ → XQ) (poisson : XQ) : XQ :=
  match ln1p (-poisson) with
  | some x => some x
  | none => some (7 / 2)

/-- one row of the feature matrix over `XQ`: the 19 other (already transformed) features with the
    guarded poisson feature inserted at its position 8 (`FEATURE_NAMES[8] = "ln1p(-poisson)"`) -/
def featureRowXQ (ln1p : XQ → XQ) (poisson : XQ) (others : List XQ) : List XQ :=
  others.take 8 ++ poissonFeatureXQ ln1p poisson :: others.drop 8

/-! ## executable specification (exact ℚ), evaluated by the driver on the IMPLEMENTATION's outputs -/

namespace Q

def absq (x : Rat) : Rat := if x < 0 then -x else x
/-- `2^-k` -/
def dyadicInv (k : Nat) : Rat := 1 / ((2 ^ k : Nat) : Rat)
def maxq (a b : Rat) : Rat := if a ≤ b then b else a
def minq (a b : Rat) : Rat := if a ≤ b then a else b
def dotq (a b : List Rat) : Rat := (List.zipWith (· * ·) a b).foldl (· + ·) 0
def normInfV (v : List Rat) : Rat := v.foldl (fun m x => maxq m (absq x)) 0
/-- `‖M‖∞` = largest absolute row sum -/
def normInfM (m : Mat Rat) : Rat := m.foldl (fun acc r => maxq acc (r.foldl (fun s x => s + absq x) 0)) 0
def mulVec (m : Mat Rat) (v : List Rat) : List Rat := m.map fun r => dotq r v
def addDiag (m : Mat Rat) (eps : Rat) : Mat Rat :=
  m.mapIdx fun i r => r.mapIdx fun j x => if i = j then x + eps else x
def colq (m : Mat Rat) (c : Nat) : List Rat := m.map fun r => r.getD c 0

/-- independent exact solver: Gauss–Jordan on the augmented rows with first-non-zero pivoting.
    Returns `none` iff the matrix is singular. `rows` are `(left ++ right)` rows, `n` unknowns. -/
def gjLoop (n : Nat) : Nat → Nat → List (List Rat) → Option (List (List Rat))
  | 0, _, rows => some rows
  | fuel + 1, k, rows =>
    if k ≥ n then some rows else
    -- find a row at index ≥ k with a non-zero entry in column k
    match (List.range rows.length).find? (fun i => k ≤ i && (rows.getD i []).getD k 0 != 0) with
    | none => none
    | some i =>
      let ri := rows.getD i []
      let rk := rows.getD k []
      let rows := (rows.set i rk).set k ri
      let p := ri.getD k 0
      let prow := ri.map (· / p)
      let rows := rows.mapIdx fun r row =>
        if r = k then prow else
          let f := row.getD k 0
          if f = 0 then row else List.zipWith (fun x y => x - f * y) row prow
      gjLoop n fuel (k + 1) rows

/-- exact solution of `A X = B` (`A` is `n × n`), `none` iff `A` is singular -/
def solveExact (a b : Mat Rat) : Option (Mat Rat) :=
  let n := a.length
  match gjLoop n n 0 (List.zipWith (· ++ ·) a b) with
  | none => none
  | some rows => some (rows.map fun r => r.drop n)

def identity (n : Nat) : Mat Rat :=
  (List.range n).map fun i => (List.range n).map fun j => if i = j then 1 else 0

/-- `κ∞(A) = ‖A‖∞ ‖A⁻¹‖∞`, computed exactly; `none` iff singular -/
def cond (a : Mat Rat) : Option Rat :=
  match solveExact a (identity a.length) with
  | none => none
  | some inv => some (normInfM a * normInfM inv)

/-- normwise relative backward error of the column `x` for `A x = b`:
    `‖b − A x‖∞ / (‖A‖∞ ‖x‖∞ + ‖b‖∞)` (`0` when both are `0`); returned as (numerator, denominator) -/
def backwardErr (a : Mat Rat) (x b : List Rat) : Rat × Rat :=
  let r := List.zipWith (· - ·) b (mulVec a x)
  (normInfV r, normInfM a * normInfV x + normInfV b)

/-- **gauss spec**: the returned `X` solves `(A + εI) X = B` for SOME `ε` of the ladder with
    normwise backward error at most `tau` in every column -/
def gaussOk (tau : Rat) (ladder : List Rat) (a x b : Mat Rat) (m : Nat) : Bool :=
  ladder.any fun eps =>
    let ae := addDiag a eps
    (List.range m).all fun c =>
      let (num, den) := backwardErr ae (colq x c) (colq b c)
      decide (num ≤ tau * den)

/-- `2^z` -/
def pow2 (z : Int) : Rat := if z ≥ 0 then ((2 ^ z.toNat : Nat) : Rat) else 1 / ((2 ^ (-z).toNat : Nat) : Rat)

/-- power-of-two equilibration of a matrix with positive diagonal: `s_i = 2^(-⌊log₂ a_ii⌋ / 2)`, so that
    `s_i a_ii s_i ∈ [1/2, 4]`; `1` where the diagonal entry is not positive -/
def equilScale (a : Mat Rat) : List Rat :=
  a.mapIdx fun i r =>
    let x := r.getD i 0
    if x ≤ 0 then 1 else pow2 (-(((x.num.natAbs.log2 : Int) - (x.den.log2 : Int)) / 2))

/-- `D A D` for `D = diag s` -/
def scaleMat (s : List Rat) (a : Mat Rat) : Mat Rat :=
  a.mapIdx fun i r => r.mapIdx fun j x => s.getD i 1 * x * s.getD j 1

/-- `sin²` of the angle between two vectors, as (numerator, denominator):
    `(|u|²|v|² − (u·v)²) / (|u|²|v|²)` -/
def sin2 (u v : List Rat) : Rat × Rat :=
  let uu := dotq u u; let vv := dotq v v; let uv := dotq u v
  (uu * vv - uv * uv, uu * vv)

end Q

end Sage.C15
