import SageModel.Proto
import SageModel.Generated.Consts

/-!
# C19 — model of `sage_core::lfq` (core Lean only)

Mirrors, operation by operation:

* `build_feature_map`  → `confident`, `dedupFirst`, `expand`, `buildFeatureMap`
  (1 % peptide-q target filter, first-wins per peptide, charge × isotope × {fwd, rev} ranges,
  sort by rt, chunks of `binSize` re-sorted by `mass_lo`, `min_rts`);
* `binary_search_slice` → `walkLeft`, `walkRight`, `bssWith` (the two `binary_search_by` answers come
  from a parameter `bs`; the driver plugs in `binSearchFrom`);
* `FeatureMap::rt_slice`, `Query::mass_lookup`, `Query::mass_mobility_lookup` → `rtSlice`, `massLookup`;
* `Grid::add_entry` (with the `clamp(0.0, 1.0)` of the interpolation weight, repair 98eb8cd) → `Grid.rawInterp`,
  `clamp01`, `Grid.interp`, `Grid.addEntry`;
* the body of the `par_iter().for_each` in `FeatureMap::quantify` → `contributions` (one record per
  `grid.add_entry` call, in sequential order) and `accumulate` (`DashMap::entry().or_insert_with(Grid::new)`
  followed by `Grid::add_entry`);
* `Grid::summarize_traces`, `gaussian_kernel`, `convolve`, `Traces::{find_time_warps, apply_time_warps,
  scores, integrate}` → `summarize`, `gaussKernel`, `convolve`, `findTimeWarps`, `applyWarp`, `scores`, `integrate`;
* `isotopes::peptide_isotopes` → `peptideIsotopes`.

Two number types: `α` (the code's `f32`: retention times, masses, intensities) and `β` (the code's `f64`:
grid cells and everything downstream). The driver runs the model at `Float32`/`Float`; the theorems are
about `Rat` (or any linear order where only the order matters). Constants and casts come in through
`Env`/`FEnv`; transcendental functions (`exp`, `acos`, `sqrt`, `powf`) are fields of `FEnv`, i.e. parameters.

Comparisons: the code sorts and binary-searches with `total_cmp` and filters with IEEE `<=`. The model
uses `≤`/`<` for both, which is the same relation on NaN-free values without `-0.0` (assumption).

What the Rust code rejects: a spectrum whose `file_id` is not an index of `alignments` panics
(`alignments[spectrum.file_id]`), and so does a grid whose reference file (the `file_id` of the PSM it
came from) is not an index (`row_slice(reference_file_id)`): `quantify` returns `none` for those.
-/

namespace Sage.C19

/-! ## numeric environment -/

/-- constants and casts of the `f32` side -/
structure Env (α : Type) where
  ofNat : Nat → α
  /-- `x.floor() as usize` (saturating: negative and NaN ↦ 0) -/
  floorNat : α → Nat
  zero : α
  one : α
  two : α
  /-- `1_000_000.0` in `Tolerance::Ppm` -/
  million : α
  /-- `100.0` in `Tolerance::Pct` -/
  hundred : α
  /-- `mass::NEUTRON` -/
  neutron : α
  /-- `lfq::RT_TOL` -/
  rtTol : α
  /-- the `11.06` decoy mass shift -/
  decoyShift : α
  /-- the `0.1` Da margin of the inner binary search -/
  margin : α
  /-- the `0.01` peptide-level q-value threshold -/
  qThr : α

/-- `lfq::GRID_SIZE`, `N_ISOTOPES`, `K_WIDTH` and the page size `16 * 1024` -/
def gridSize : Nat := Sage.Gen.LFQ_GRID_SIZE
def nIso : Nat := Sage.Gen.LFQ_N_ISOTOPES
def kWidth : Nat := Sage.Gen.LFQ_K_WIDTH
def binSize : Nat := 16 * 1024

/-! ## records -/

/-- `lfq::PrecursorRange` -/
structure Range (α : Type) where
  rt : α
  massLo : α
  massHi : α
  mobLo : α
  mobHi : α
  charge : Nat
  isotope : Nat
  peptide : Nat
  fileId : Nat
  decoy : Bool
deriving DecidableEq

/-- the fields of `scoring::Feature` that `build_feature_map` reads -/
structure Feat (α : Type) where
  peptide : Nat
  label : Int
  peptideQ : α
  alignedRt : α
  calcmass : α
  charge : Nat
  fileId : Nat
  ims : α

/-- `spectrum::Peak` / `IMPeak` (`mobility` is ignored for `MS1Spectra::NoMobility`) -/
structure Peak (α : Type) where
  mass : α
  intensity : α
  mobility : α

structure Spectrum (α : Type) where
  fileId : Nat
  scanStart : α
  peaks : List (Peak α)

/-- `retention_alignment::Alignment` -/
structure Align (α : Type) where
  maxRt : α
  slope : α
  intercept : α

/-- `(PrecursorId, bool)`: `charge = 0` stands for `PrecursorId::Combined` -/
structure Key where
  peptide : Nat
  charge : Nat
  decoy : Bool
deriving DecidableEq, Repr

/-! ## `binary_search_slice` -/

section order
variable {α : Type}

/-- left walk: `while idx > 0 && slice[idx] >= low { idx -= 1 }` -/
def walkLeft [LT α] [DecidableLT α] (l : Array α) (low : α) : Nat → Nat
  | 0 => 0
  | i+1 => match l[i+1]? with
    | some x => if x < low then i+1 else walkLeft l low i
    | none => i+1   -- out of bounds: unreachable because the start index is ≤ len-1

/-- right walk with fuel: `while idx < len && slice[idx] <= high { idx += 1 }` -/
def walkRight [LE α] [DecidableLE α] (l : Array α) (high : α) (idx : Nat) : Nat → Nat
  | 0 => idx
  | f+1 => match l[idx]? with
    | some x => if x ≤ high then walkRight l high (idx+1) f else idx
    | none => idx

/-- `binary_search_slice`, with the two `binary_search_by` answers as parameters (`rHi` is relative to
    `slice[left..]`, as in the code) -/
def bss [LT α] [DecidableLT α] [LE α] [DecidableLE α] (l : Array α) (lo hi : α) (rLo rHi : Nat) : Nat × Nat :=
  let L := walkLeft l lo (rLo - 1)
  (L, min (walkRight l hi (rHi + L) (l.size - (rHi + L))) l.size)

/-- `bss` with a binary search `bs l start x` (answer of `l[start..].binary_search_by(key vs x)`, relative
    to `start`, clamped to the length as std guarantees) plugged in -/
def bssWith [LT α] [DecidableLT α] [LE α] [DecidableLE α] (bs : Array α → Nat → α → Nat)
    (l : Array α) (lo hi : α) : Nat × Nat :=
  let rLo := min (bs l 0 lo) l.size
  let L := walkLeft l lo (rLo - 1)
  bss l lo hi rLo (min (bs l L hi) (l.size - L))

/-- a concrete `binary_search_by`: lower bound of `x` in `l[start..]`, relative to `start` -/
def binSearchGo [LT α] [DecidableLT α] (l : Array α) (x : α) : Nat → Nat → Nat → Nat
  | 0, lo, _ => lo
  | f+1, lo, hi =>
    if lo < hi then
      let mid := (lo + hi) / 2
      match l[mid]? with
      | some y => if y < x then binSearchGo l x f (mid+1) hi else binSearchGo l x f lo mid
      | none => lo
    else lo

def binSearchFrom [LT α] [DecidableLT α] (l : Array α) (start : Nat) (x : α) : Nat :=
  binSearchGo l x (l.size + 1) start l.size - start

end order

/-! ## `build_feature_map` -/

section arith
variable {α : Type} [Add α] [Sub α] [Mul α] [Div α] [Neg α] [LE α] [DecidableLE α] [LT α] [DecidableLT α]

/-- `Tolerance::Ppm(-ppm, ppm).bounds(center)` -/
def ppmBounds (c : Env α) (ppm center : α) : α × α :=
  let dLo := center * (-ppm) / c.million
  let dHi := center * ppm / c.million
  (center + dLo, center + dHi)

/-- `Tolerance::Pct(-pct, pct).bounds(center)` -/
def pctBounds (c : Env α) (pct center : α) : α × α :=
  let dLo := center * (-pct) / c.hundred
  let dHi := center * pct / c.hundred
  (center + dLo, center + dHi)

/-- `f32::max` on non-NaN arguments (a NaN left argument yields the right one) -/
def maxF (a b : α) : α := if b ≤ a then a else b

/-- `feat.peptide_q <= 0.01 && feat.label == 1` -/
def confident (c : Env α) (f : Feat α) : Bool := decide (f.peptideQ ≤ c.qThr) && f.label == 1

/-- `if !map.contains_key(&feat.peptide_idx) { map.insert(..) }` over the features in order -/
def dedupFirst : List (Feat α) → List Nat → List (Feat α)
  | [], _ => []
  | f :: fs, seen =>
    if seen.contains f.peptide then dedupFirst fs seen
    else f :: dedupFirst fs (f.peptide :: seen)

/-- the entry inserted into the first `DashMap` -/
def baseRange (c : Env α) (mobPct : α) (f : Feat α) : Range α :=
  let m := pctBounds c mobPct f.ims
  { rt := f.alignedRt, massLo := f.calcmass, massHi := c.zero, mobLo := m.1, mobHi := m.2,
    charge := f.charge, isotope := 0, peptide := f.peptide, fileId := f.fileId, decoy := false }

/-- `precursor_charge.0 ..= precursor_charge.1` -/
def charges (zLo zHi : Nat) : List Nat := List.range' zLo (zHi + 1 - zLo)

/-- `[fwd, rev]` for one (charge, isotope) -/
def fwdRev (c : Env α) (ppm : α) (base : Range α) (z iso : Nat) : List (Range α) :=
  let mass := (base.massLo + c.ofNat iso * c.neutron) / c.ofNat z
  let b := ppmBounds c ppm mass
  let fwd : Range α := { base with massLo := b.1, massHi := b.2, charge := z, isotope := iso, decoy := false }
  let b2 := ppmBounds c ppm (mass + c.decoyShift)
  let rev : Range α := { fwd with rt := maxF (fwd.rt - c.rtTol * c.two) c.zero, massLo := b2.1, massHi := b2.2, decoy := true }
  [fwd, rev]

/-- the cartesian product with charges and isotopes -/
def expand (c : Env α) (ppm : α) (zLo zHi : Nat) (base : Range α) : List (Range α) :=
  (charges zLo zHi).flatMap fun z => (List.range nIso).flatMap fun iso => fwdRev c ppm base z iso

/-- chunks of `b` consecutive elements (`par_chunks_mut`) -/
def chunks {γ : Type} (b : Nat) : Nat → List γ → List (List γ)
  | 0, _ => []
  | fuel+1, l => if l.isEmpty then [] else l.take b :: chunks b fuel (l.drop b)

def headRt (c : Env α) : List (Range α) → α
  | [] => c.zero
  | r :: _ => r.rt

/-- `lfq::FeatureMap` (settings kept separately) -/
structure FeatureMap (α : Type) where
  ranges : List (Range α)
  minRts : Array α
  binSize : Nat

/-- all ranges before sorting, in feature order (the code's order out of the `DashMap` is arbitrary) -/
def allRanges (c : Env α) (ppm mobPct : α) (zLo zHi : Nat) (fs : List (Feat α)) : List (Range α) :=
  (dedupFirst (fs.filter (confident c)) []).flatMap fun f => expand c ppm zLo zHi (baseRange c mobPct f)

/-- `build_feature_map` with page size `b` (the code: `16 * 1024`). The code's sorts are unstable; the model
    uses a stable merge sort (any order among ties satisfies the invariant the lookup needs). -/
def buildFeatureMapB (b : Nat) (c : Env α) (ppm mobPct : α) (zLo zHi : Nat) (fs : List (Feat α)) : FeatureMap α :=
  let sorted := (allRanges c ppm mobPct zLo zHi fs).mergeSort (fun x y => decide (x.rt ≤ y.rt))
  let pages := chunks b sorted.length sorted
  { ranges := (pages.map fun p => p.mergeSort (fun x y => decide (x.massLo ≤ y.massLo))).flatten,
    minRts := (pages.map (headRt c)).toArray,
    binSize := b }

def buildFeatureMap (c : Env α) (ppm mobPct : α) (zLo zHi : Nat) (fs : List (Feat α)) : FeatureMap α :=
  buildFeatureMapB binSize c ppm mobPct zLo zHi fs

/-! ## lookup -/

/-- the exact filter at the end of `mass_lookup` -/
def inWindow (minRt maxRt mass : α) (r : Range α) : Bool :=
  decide (r.rt ≤ maxRt) && decide (minRt ≤ r.rt) && decide (r.massLo ≤ mass) && decide (mass ≤ r.massHi)

/-- `&ranges[page * bin_size .. min((page+1) * bin_size, len)]` -/
def pageSlice {γ : Type} (ranges : List γ) (b p : Nat) : List γ := (ranges.drop (p * b)).take b

/-- `FeatureMap::rt_slice`: the page interval -/
def rtSlice (bs : Array α → Nat → α → Nat) (fm : FeatureMap α) (minRt maxRt : α) : Nat × Nat :=
  bssWith bs fm.minRts minRt maxRt

/-- `Query::mass_lookup` with the inner search bounds `lo hi` explicit -/
def massLookupAt (bs : Array α → Nat → α → Nat) (fm : FeatureMap α) (pages : Nat × Nat)
    (minRt maxRt lo hi mass : α) : List (Range α) :=
  (List.range' pages.1 (pages.2 - pages.1)).flatMap fun p =>
    let s := pageSlice fm.ranges fm.binSize p
    let ix := bssWith bs (s.map (·.massLo)).toArray lo hi
    ((s.drop ix.1).take (ix.2 - ix.1)).filter (inWindow minRt maxRt mass)

/-- `self.rt_slice(rt, RT_TOL)` followed by `query.mass_lookup(mass)` -/
def massLookup (c : Env α) (bs : Array α → Nat → α → Nat) (fm : FeatureMap α) (rt mass : α) : List (Range α) :=
  let minRt := rt - c.rtTol
  let maxRt := rt + c.rtTol
  massLookupAt bs fm (rtSlice bs fm minRt maxRt) minRt maxRt (mass - c.margin) (mass + c.margin) mass

/-- the extra filter of `mass_mobility_lookup` -/
def mobOk (mob : α) (r : Range α) : Bool := decide (mob ≤ r.mobHi) && decide (r.mobLo ≤ mob)

/-- the specification of the lookup: a linear scan over all ranges -/
def lookupSpec (c : Env α) (fm : FeatureMap α) (rt mass : α) : List (Range α) :=
  fm.ranges.filter (inWindow (rt - c.rtTol) (rt + c.rtTol) mass)

/-! ## the accumulation loop of `quantify` -/

/-- one call `grid.add_entry(rt, entry.isotope, spectrum.file_id, peak.intensity)` together with the grid it
    goes to and the arguments `Grid::new` would get if this call is the first for its key -/
structure Contribution (α : Type) where
  key : Key
  refRt : α
  refFile : Nat
  rt : α
  isotope : Nat
  file : Nat
  intensity : α

def keyOf (combine : Bool) (r : Range α) : Key :=
  { peptide := r.peptide, charge := if combine then 0 else r.charge, decoy := r.decoy }

/-- `(spectrum.scan_start_time / a.max_rt) * a.slope + a.intercept` -/
def alignedRt (a : Align α) (s : Spectrum α) : α := (s.scanStart / a.maxRt) * a.slope + a.intercept

/-- entries found for one peak -/
def peakEntries (c : Env α) (bs : Array α → Nat → α → Nat) (withMob : Bool) (fm : FeatureMap α)
    (rt : α) (pk : Peak α) : List (Range α) :=
  let es := massLookup c bs fm rt pk.mass
  if withMob then es.filter (mobOk pk.mobility) else es

/-- the `add_entry` calls of one spectrum, in the order the sequential code makes them -/
def spectrumContribs (c : Env α) (bs : Array α → Nat → α → Nat) (withMob combine : Bool) (fm : FeatureMap α)
    (a : Align α) (s : Spectrum α) : List (Contribution α) :=
  let rt := alignedRt a s
  s.peaks.flatMap fun pk =>
    (peakEntries c bs withMob fm rt pk).map fun e =>
      { key := keyOf combine e, refRt := e.rt, refFile := e.fileId, rt := rt, isotope := e.isotope,
        file := s.fileId, intensity := pk.intensity }

/-- all `add_entry` calls, spectra in list order (one sequential schedule of the `par_iter`) -/
def contributions (c : Env α) (bs : Array α → Nat → α → Nat) (withMob combine : Bool) (fm : FeatureMap α)
    (aligns : List (Align α)) (spectra : List (Spectrum α)) : List (Contribution α) :=
  spectra.flatMap fun s =>
    match aligns[s.fileId]? with
    | some a => spectrumContribs c bs withMob combine fm a s
    | none => []     -- the code panics here; `quantify` reports that separately

end arith

/-- `lfq::Grid` (`matrix` flattened row-major, `rows = files * N_ISOTOPES`, `cols = GRID_SIZE`) -/
structure Grid (α β : Type) where
  rtMin : α
  rtStep : α
  files : Nat
  refFile : Nat
  cols : Nat
  cells : Array β

section grid
variable {α β : Type} [Add α] [Sub α] [Mul α] [Div α] [LT α] [DecidableLT α] [Add β]

/-- `Grid::new(entry, RT_TOL, dist, alignments.len(), GRID_SIZE)` (the distribution is looked up from the
    peptide at integration time; it is a function of the key's peptide only) -/
def Grid.new (c : Env α) (zeroB : β) (refRt : α) (refFile files : Nat) : Grid α β :=
  { rtMin := refRt - c.rtTol, rtStep := (c.rtTol * c.two) / c.ofNat gridSize, files := files,
    refFile := refFile, cols := gridSize, cells := Array.replicate (gridSize * files * nIso) zeroB }

/-- `self.matrix[(row, col)] += x` -/
def Grid.addCell (g : Grid α β) (row col : Nat) (x : β) : Grid α β :=
  { g with cells := g.cells.modify (g.cols * row + col) (· + x) }

/-- `x.clamp(0.0, 1.0)` (`f32::clamp`: `if x < min { min } else if x > max { max } else { x }`; NaN stays NaN) -/
def clamp01 (c : Env α) (x : α) : α :=
  let x1 := if x < c.zero then c.zero else x
  if c.one < x1 then c.one else x1

/-- `add_entry` before the clamp: `(bin_lo, bin_hi, (spectrum_rt - bin_lo_rt) / rt_step)` -/
def Grid.rawInterp (c : Env α) (g : Grid α β) (rt : α) : Nat × Nat × α :=
  let binLo := min (c.floorNat ((rt - g.rtMin) / g.rtStep)) (g.cols - 1)
  let binHi := min (binLo + 1) (g.cols - 1)
  let binLoRt := c.ofNat binLo * g.rtStep + g.rtMin
  (binLo, binHi, (rt - binLoRt) / g.rtStep)

/-- the interpolation of `add_entry`: `(bin_lo, bin_hi, interp)` with `interp` clamped to `[0, 1]` -/
def Grid.interp (c : Env α) (g : Grid α β) (rt : α) : Nat × Nat × α :=
  let r := g.rawInterp c rt
  (r.1, r.2.1, clamp01 c r.2.2)

/-- `Grid::add_entry` -/
def Grid.addEntry (c : Env α) (cast : α → β) (g : Grid α β) (rt : α) (isotope file : Nat) (intensity : α) : Grid α β :=
  let (binLo, binHi, t) := g.interp c rt
  let g1 := g.addCell (file * nIso + isotope) binLo (cast ((c.one - t) * intensity))
  g1.addCell (file * nIso + isotope) binHi (cast (t * intensity))

/-- the concurrent map, as an insertion-ordered association list -/
abbrev Grids (α β : Type) := List (Key × Grid α β)

def Grids.get (gs : Grids α β) (k : Key) : Option (Grid α β) :=
  match gs with
  | [] => none
  | (k', g) :: rest => if k' = k then some g else Grids.get rest k

/-- `scores.entry(key).or_insert_with(|| Grid::new(..)).add_entry(..)` -/
def Grids.apply (c : Env α) (cast : α → β) (zeroB : β) (files : Nat) : Grids α β → Contribution α → Grids α β
  | [], x => [(x.key, (Grid.new c zeroB x.refRt x.refFile files).addEntry c cast x.rt x.isotope x.file x.intensity)]
  | (k, g) :: rest, x =>
    if k = x.key then (k, g.addEntry c cast x.rt x.isotope x.file x.intensity) :: rest
    else (k, g) :: Grids.apply c cast zeroB files rest x

/-- the state of the map after all `add_entry` calls of a schedule -/
def accumulate (c : Env α) (cast : α → β) (zeroB : β) (files : Nat) (xs : List (Contribution α)) : Grids α β :=
  xs.foldl (Grids.apply c cast zeroB files) []

end grid

/-! ## `summarize_traces`, `warp`, `scores`, `integrate` (the `f64` side) -/

/-- constants, casts and the transcendental functions of the `f64` side (parameters, never defined here) -/
structure FEnv (β : Type) where
  ofNat : Nat → β
  zero : β
  one : β
  two : β
  half : β
  pi : β
  /-- `0.33` -/
  third : β
  sqrt : β → β
  acos : β → β
  exp : β → β
  /-- `x.powf(y)` -/
  powf : β → β → β
  /-- `f64::max` -/
  max : β → β → β

section traces
variable {β : Type} [Add β] [Sub β] [Mul β] [Div β] [Neg β] [LE β] [DecidableLE β] [LT β] [DecidableLT β]

def sumB (e : FEnv β) (l : List β) : β := l.foldl (· + ·) e.zero

/-- `gaussian_kernel(sigma, len)` -/
def gaussKernel (e : FEnv β) (sigma : β) (len : Nat) : List β :=
  let step := e.two / e.ofNat (len - 1)
  let constant := e.one / (sigma * e.sqrt (e.two * e.pi))
  let k := (List.range len).map fun i =>
    let x := e.ofNat i * step - e.one
    let q := x / sigma
    constant * e.exp ((-e.half) * (q * q))
  let s := sumB e k
  k.map (· / s)

/-- `w.iter().zip(k).fold(0.0, |acc, (x, y)| acc + x * y)` -/
def dotZip (e : FEnv β) : List β → List β → β → β
  | x :: xs, y :: ys, acc => dotZip e xs ys (acc + x * y)
  | _, _, acc => acc

/-- `convolve(slice, kernel)` -/
def convolve (e : FEnv β) (slice kernel : List β) : List β :=
  let n := kernel.length - kernel.length / 2
  (List.range slice.length).map fun idx =>
    dotZip e (slice.drop (idx - (n - 1))) (kernel.drop (kernel.length - (n + idx))) e.zero

/-- row `r` of a row-major matrix with `cols` columns -/
def rowOf (cells : Array β) (cols r : Nat) : List β := (cells.extract (cols * r) (cols * (r + 1))).toList

/-- `Traces`: per file the dot-product row and the spectral-angle row -/
structure Traces (β : Type) where
  dot : List (List β)
  angle : List (List β)
  refFile : Nat

def zipWith3 {a b c d : Type} (f : a → b → c → d) : List a → List b → List c → List d
  | x :: xs, y :: ys, z :: zs => f x y z :: zipWith3 f xs ys zs
  | _, _, _ => []

/-- `Grid::summarize_traces`; `dist` is the distribution already cast to `f64`, `ssDist` the
    `(Σ d²).sqrt() as f64` computed in `f32` by the caller -/
def summarize {α : Type} (e : FEnv β) (g : Grid α β) (dist : List β) (ssDist : β) : Traces β :=
  let k := gaussKernel e e.half kWidth
  let perFile := (List.range g.files).map fun file =>
    let conv := (List.range nIso).map fun iso => convolve e (rowOf g.cells g.cols (file * nIso + iso)) k
    -- spectral_angle[(file, col)] += intensity * dist[isotope]   (isotopes in order, starting from 0.0)
    let dots := (List.range g.cols).map fun col =>
      (List.range nIso).foldl (fun acc iso =>
        acc + ((conv.getD iso []).getD col e.zero) * dist.getD iso e.zero) e.zero
    let ss := (List.range g.cols).map fun col =>
      (List.range nIso).foldl (fun acc iso =>
        let x := (conv.getD iso []).getD col e.zero
        acc + x * x) e.zero
    let angle := List.zipWith (fun dot s =>
      let sim := if e.zero < s then (let q := dot / (e.sqrt s * ssDist); if e.one < q then e.one else q) else e.zero
      e.one - e.two * e.acos sim / e.pi) dots ss
    (dots, angle)
  { dot := perFile.map (·.1), angle := perFile.map (·.2), refFile := g.refFile }

/-- the inner loop of `find_time_warps` for one offset (`slack + off` encodes `offset = off - slack`) -/
def warpDot (e : FEnv β) (reference run : Array β) (off slack : Nat) : β :=
  (List.range reference.size).foldl (fun dot i =>
    -- j = i + offset, kept only if 0 <= j < run.len()
    if slack ≤ i + off ∧ i + off - slack < run.size then
      dot + reference.getD i e.zero * run.getD (i + off - slack) e.zero
    else dot) e.zero

/-- `find_time_warps` for one row: the winning `off` (offset = `off - slack`) -/
def findWarp (e : FEnv β) (reference run : Array β) (slack : Nat) : Nat :=
  ((List.range (2 * slack + 1)).foldl (fun (best : Nat × β) off =>
    let d := warpDot e reference run off slack
    if best.2 ≤ d then (off, d) else best) (slack, e.zero)).1

/-- `apply_time_warps` for one row -/
def applyWarp (e : FEnv β) (run : List β) (off slack : Nat) : List β :=
  let a := run.toArray
  (List.range run.length).map fun i =>
    if slack ≤ i + off ∧ i + off - slack < a.size then a.getD (i + off - slack) e.zero else e.zero

/-- `Traces::warp` (slack 75) -/
def warp (e : FEnv β) (t : Traces β) : Traces β :=
  let slack := 75
  let reference := (t.dot.getD t.refFile []).toArray
  let offs := t.dot.map fun run => findWarp e reference run.toArray slack
  { t with
    dot := List.zipWith (fun run off => applyWarp e run off slack) t.dot offs,
    angle := List.zipWith (fun run off => applyWarp e run off slack) t.angle offs }

inductive Scoring | retentionTime | spectralAngle | intensity | hybrid
deriving DecidableEq, Repr

/-- `Traces::scores`: `(scores, spectral)` -/
def scores (e : FEnv β) (cols : Nat) (t : Traces β) (strategy : Scoring) : List β × List β :=
  let colStats := (List.range cols).map fun col =>
    -- for (sa, dotp) in angle.col(col).zip(dot.col(col)) { weighted += sa * dotp; summed_int += dotp }
    let (w, s) := (List.zip t.angle t.dot).foldl (fun (acc : β × β) (rows : List β × List β) =>
      let sa := rows.1.getD col e.zero
      let dotp := rows.2.getD col e.zero
      (acc.1 + sa * dotp, acc.2 + dotp)) (e.zero, e.one)
    (w / s, s)
  let spectral := colStats.map (·.1)
  let intens := colStats.map (·.2)
  let mx := intens.foldl e.max e.zero
  let center := cols / 2
  let rtScore (rt : Nat) : β :=
    let d := if rt ≥ center then rt - center else center - rt
    e.one - (e.ofNat d / e.ofNat center)
  let sc := (List.range cols).map fun rt =>
    let s := spectral.getD rt e.zero
    let i := intens.getD rt e.zero
    match strategy with
    | .retentionTime => e.powf (rtScore rt) e.third
    | .spectralAngle => s
    | .intensity => e.sqrt (i / mx)
    | .hybrid => (s * (s * s)) * e.powf (rtScore rt) e.third * e.sqrt (i / mx)
  (sc, spectral)

/-- `Peak` (without the q-value) and the areas -/
structure Integrated (β : Type) where
  rt : Nat
  score : β
  spectralAngle : β
  areas : List β

/-- the `while left > …` loop -/
def walkPeakLeft (sc spectral : Array β) (zero thr sa : β) (stop : Nat) : Nat → Nat
  | 0 => 0
  | l+1 =>
    if l + 1 > stop ∧ thr ≤ sc.getD (l+1) zero ∧ sa ≤ spectral.getD (l+1) zero
    then walkPeakLeft sc spectral zero thr sa stop l else l + 1

/-- the `while right < …` loop (with fuel) -/
def walkPeakRight (sc spectral : Array β) (zero thr sa : β) (stop : Nat) (r : Nat) : Nat → Nat
  | 0 => r
  | f+1 =>
    if r < stop ∧ thr ≤ sc.getD r zero ∧ sa ≤ spectral.getD r zero
    then walkPeakRight sc spectral zero thr sa stop (r+1) f else r

/-- `Traces::integrate` (after `warp`); `sum = true` is `IntegrationStrategy::Sum` -/
def integrate (e : FEnv β) (cols : Nat) (t0 : Traces β) (strategy : Scoring) (sum : Bool) (saThr : β) :
    Option (Integrated β) :=
  let t := warp e t0
  let (scL, spL) := scores e cols t strategy
  let sc := scL.toArray
  let sp := spL.toArray
  let best := (List.range sc.size).foldl (fun (b : Nat × β) rt =>
    let s := sc.getD rt e.zero
    if b.2 < s ∧ saThr ≤ sp.getD rt e.zero then (rt, s) else b) (0, e.zero)
  -- `best.score == 0.0`
  if best.2 ≤ e.zero ∧ e.zero ≤ best.2 then none else
  let thr := best.2 * e.half
  let left := walkPeakLeft sc sp e.zero thr saThr (best.1 - sc.size / 5) (best.1 - 1)
  let right := walkPeakRight sc sp e.zero thr saThr (min (sc.size - 1) (best.1 + 20)) (best.1 + 1) sc.size
  let areas := t.dot.map fun row =>
    if sum then sumB e ((row.drop left).take (right - left)) else row.getD best.1 e.zero
  let (w, s) := (List.zip t.angle t.dot).foldl (fun (acc : β × β) (rows : List β × List β) =>
      let sa := rows.1.getD best.1 e.zero
      let dotp := rows.2.getD best.1 e.zero
      (acc.1 + sa * dotp, acc.2 + dotp)) (e.zero, e.one)
  some { rt := best.1, score := best.2, spectralAngle := w / s, areas := areas }

end traces

/-! ## `isotopes::peptide_isotopes` (at the `f32` type; `exp` is a parameter) -/

section isotopes
variable {α : Type} [Add α] [Mul α] [Div α] [Neg α]

/-- the truncated 4-term convolution -/
def conv4 (a b : List α) (z : α) : List α :=
  let a0 := a.getD 0 z; let a1 := a.getD 1 z; let a2 := a.getD 2 z; let a3 := a.getD 3 z
  let b0 := b.getD 0 z; let b1 := b.getD 1 z; let b2 := b.getD 2 z; let b3 := b.getD 3 z
  [a0 * b0, a0 * b1 + a1 * b0, a0 * b2 + a1 * b1 + a2 * b0, a0 * b3 + a1 * b2 + a2 * b1 + a3 * b0]

/-- `lambda.powi(k)` for k = 0..3 -/
def powi4 (one x : α) : List α := [one, x, x * x, x * (x * x)]

/-- `peptide_isotopes(carbons, sulfurs)`; `k011 = 0.011`, `k0076 = 0.0076`, `k044 = 0.044` -/
def peptideIsotopes (ofNat : Nat → α) (exp : α → α) (maxF : α → α → α) (zero one k011 k0076 k044 : α)
    (carbons sulfurs : Nat) : List α :=
  let fact := [1, 1, 2, 6]
  let lc := ofNat carbons * k011
  let c13 := List.zipWith (fun p f => p * exp (-lc) / ofNat f) (powi4 one lc) fact
  let l33 := ofNat sulfurs * k0076
  let l35 := ofNat sulfurs * k044
  let s35 := [one * exp (-l35), zero, l35 * exp (-l35), zero]
  let s33 := List.zipWith (fun p f => p * exp (-l33) / ofNat f) (powi4 one l33) fact
  let s := conv4 s33 s35 zero
  let c := conv4 c13 s zero
  let mx := maxF (maxF (c.getD 0 zero) (c.getD 1 zero)) (c.getD 2 zero)
  (c.take 3).map (· / mx)

/-- carbon and sulfur counts of a sequence (`mass::composition`, regenerated table) -/
def composition (seq : List UInt8) : Nat × Nat :=
  seq.foldl (fun acc r =>
    match Sage.Gen.COMPOSITION.find? (fun e => e.1 == r.toNat) with
    | some (_, cN, _, sN) => (acc.1 + cN, acc.2 + sN)
    | none => acc) (0, 0)

end isotopes

/-! ## `FeatureMap::quantify` -/

section quantify
variable {α β : Type} [Add α] [Sub α] [Mul α] [Div α] [Neg α] [LE α] [DecidableLE α] [LT α] [DecidableLT α]
  [Add β] [Sub β] [Mul β] [Div β] [Neg β] [LE β] [DecidableLE β] [LT β] [DecidableLT β]

structure Settings (α β : Type) where
  scoring : Scoring
  sum : Bool
  spectralAngle : β
  ppm : α
  mobPct : α
  combine : Bool

/-- sequential model of `quantify`: `none` = the code panics (bad file index). `dist p` is the isotope
    distribution of peptide `p` as `(cast to f64, ss_dist)` -/
def quantify (c : Env α) (e : FEnv β) (cast : α → β) (bs : Array α → Nat → α → Nat)
    (st : Settings α β) (withMob : Bool) (fm : FeatureMap α) (dist : Nat → List β × β)
    (aligns : List (Align α)) (spectra : List (Spectrum α)) : Option (List (Key × Integrated β)) :=
  if spectra.any (fun s => s.fileId ≥ aligns.length) then none else
  let gs : Grids α β := accumulate c cast e.zero aligns.length
    (contributions c bs withMob st.combine fm aligns spectra)
  if gs.any (fun kg => kg.2.refFile ≥ aligns.length) then none else
  some (gs.filterMap fun (k, g) =>
    let d := dist k.peptide
    match integrate e g.cols (summarize e g d.1 d.2) st.scoring st.sum st.spectralAngle with
    | some r => some (k, r)
    | none => none)

end quantify

/-! ## executable specification (what the property says, evaluated on the implementation's outputs) -/

section spec
variable {α : Type} [Add α] [Sub α] [Mul α] [Div α] [Neg α] [LE α] [DecidableLE α] [LT α] [DecidableLT α]

/-- a peak is *relevant* iff it lies in the window of at least one range of the map (naive scan) -/
def peakRelevant (c : Env α) (withMob : Bool) (ranges : List (Range α)) (rt : α) (pk : Peak α) : Bool :=
  ranges.any fun r =>
    inWindow (rt - c.rtTol) (rt + c.rtTol) pk.mass r && (!withMob || mobOk pk.mobility r)

/-- spectra with the irrelevant peaks (and then the empty spectra) removed -/
def relevantPart (c : Env α) (withMob : Bool) (ranges : List (Range α)) (aligns : List (Align α))
    (spectra : List (Spectrum α)) : List (Spectrum α) :=
  (spectra.map fun s =>
    match aligns[s.fileId]? with
    | some a => { s with peaks := s.peaks.filter (peakRelevant c withMob ranges (alignedRt a s)) }
    | none => s).filter (fun s => !s.peaks.isEmpty)

end spec

end Sage.C19

namespace Sage.C19

/-- the exact-arithmetic instantiation the theorems use (`ℚ` for both number types) -/
def ratEnv : Env Rat :=
  { ofNat := fun n => (n : Rat)
    floorNat := fun x => x.floor.toNat
    zero := 0, one := 1, two := 2
    million := 1000000, hundred := 100
    neutron := Sage.Gen.NEUTRON
    rtTol := Sage.Gen.LFQ_RT_TOL
    decoyShift := 1106 / 100
    margin := 1 / 10
    qThr := 1 / 100 }

end Sage.C19
