import SageModel.Proto
import SageModel.Model.C16

/-! Driver ops for C16.

`mzml <style> <filter:opt nat> <sn:opt nat> <n> event…  |  ok <n> spectrum… | err:<class> | panic`

events
  `S <tag> <id:optstr> <ref:optstr>`   start tag; tag ∈ sp sc bda bin pre ion o<k>
  `B <tag>`                            start tag whose id / spectrumRef attribute holds a malformed entity
  `E <tag>`                            end tag
  `Z <tag>`                            empty element other than cvParam
  `L <text hex>`                       text of the array-length attributes of the next start tag (never read)
  `C <cv 0..20> <val> <unit>`          cvParam; val ∈ `a` | `g` | `f <f32 bits>` | `n <nat>`; unit ∈ s m o a
  `T e` | `T b` | `T d <wire hex> <inflated: 0 | 1 hex>` | `T x <text hex> <decoded: 0 | 1 hex> <inflated: 0 | 1 hex>`
                                       (`x`: the text verbatim; must agree with the model's `b64decode`)
spectrum
  `<id hex> <level> <centroid> <tic> <start> <injection> <np> precursor… <nmz> f32… <nint> f32…`
precursor
  `<mz> <intensity:opt> <charge:opt> <ref:optstr> <window: 0 | 1 lo hi> <mobility:opt>`
All floats are f32 bit patterns, NaN canonicalised to 2143289344. `<style>` only steers the
harness's XML rendering (white space, attribute order, wrapper names) and is ignored here.

`mzmlseq <route 0|1|2> <k> { <style> <filter> <sn> <n> event… }×k  |  <k> result×k result×k`: k documents
parsed back to back on one OS thread (route 0: `MzMLReader::parse`; 1 / 2: `read_spectra` on a file / gzip file),
then each one alone on a fresh thread; spec: the two lists agree (`bad:depends_on_previous_document`) and each
result passes the single-document spec.

`mzmlraw <filter> <sn> <hex bytes>`: arbitrary bytes; only the outcome class is judged
(spec `bad:panic` / `bad:hang`; agree always).
-/
namespace Sage.C16
open Sage.Proto

/-- f32 as its bit pattern (so that events and spectra have decidable equality); arithmetic is IEEE
    binary32 through `Float32` -/
structure B32 where
  bits : UInt32
deriving DecidableEq, Repr

def B32.f (x : B32) : Float32 := Float32.ofBits x.bits
def B32.of (x : Float32) : B32 := ⟨x.toBits⟩      -- `toBits` canonicalises NaN

def le32 (b : List UInt8) : UInt32 :=
  b.foldr (fun x acc => acc * 256 + x.toUInt32) 0
def le64 (b : List UInt8) : UInt64 :=
  b.foldr (fun x acc => acc * 256 + x.toUInt64) 0

instance : Num B32 where
  zero := ⟨0⟩
  ofNat n := B32.of (Float32.ofNat n)
  isZero x := x.f == 0
  div a b := B32.of (a.f / b.f)
  neg a := B32.of (-a.f)
  sixty := B32.of 60
  ofLE32 b := B32.of (Float32.ofBits (le32 b))
  ofLE64 b := B32.of (Float.ofBits (le64 b)).toFloat32

/-! ### request parsing -/

def optStr : P (Option String) := opt str

def pTag : P Tag := do
  let t ← tok
  match t with
  | "sp" => pure .spectrum
  | "sc" => pure .scan
  | "bda" => pure .binaryDataArray
  | "bin" => pure .binary
  | "pre" => pure .precursor
  | "ion" => pure .selectedIon
  | _ =>
    if t.startsWith "o" then
      match (t.drop 1).toString.toNat? with
      | some k => pure (.other k)
      | none => failure
    else failure

def cvTable : List Cv :=
  [.zlib, .noCompression, .f64, .f32, .mzArray, .intensityArray, .noiseArray, .msLevel, .profile,
   .centroid, .tic, .scanStart, .injectionTime, .selMz, .selInt, .selCharge, .isoLower, .isoUpper,
   .invMobility, .other, .missing]

def pCv : P Cv := do
  let n ← nat
  match cvTable[n]? with
  | some c => pure c
  | none => failure

def pVal : P (Val B32) := do
  let t ← tok
  match t with
  | "a" => pure .absent
  | "g" => pure .garbage
  | "f" => do let b ← nat; pure (.flt (B32.of (Float32.ofBits b.toUInt32)))
  | "n" => do let n ← nat; pure (.nat n)
  | _ => failure

def pUnit : P TimeUnit := do
  let t ← tok
  match t with
  | "s" => pure .seconds
  | "m" => pure .minutes
  | "o" => pure .other
  | "a" => pure .absent
  | _ => failure

def pPayload : P Payload := do
  let t ← tok
  match t with
  | "e" => pure .empty
  | "b" => pure .badB64
  | "d" => do
    let w ← bytes
    let i ← opt bytes
    pure (.data w i)
  | "x" => do
    -- verbatim text; the request also says what base64 / zlib make of it (the harness checks that against the
    -- real crates, this side against the model's `b64decode`)
    let text ← bytes
    let dec ← opt bytes
    let inf ← opt bytes
    if b64decode text != dec then failure
    else if dec.isNone && inf.isSome then failure
    else pure (Payload.ofText text (fun _ => inf))
  | _ => failure

def pEvent : P (Event B32) := do
  let t ← tok
  match t with
  | "S" => do let g ← pTag; let i ← optStr; let r ← optStr; pure (.start g i r)
  | "B" => do let g ← pTag; pure (.startBad g)
  | "E" => do let g ← pTag; pure (.stop g)
  | "Z" => do let g ← pTag; pure (.empty g)
  | "L" => do let t ← str; pure (.lengthAttr t)
  | "C" => do let c ← pCv; let v ← pVal; let u ← pUnit; pure (.cv c v u)
  | "T" => do let p ← pPayload; pure (.text p)
  | _ => failure

def pRequest : P (Config × List (Event B32)) := do
  let _style ← tok
  let f ← opt nat
  let s ← opt nat
  let evs ← list pEvent
  pure ({ filter := f, sn := s }, evs)

/-! ### reply rendering -/

def outB (x : B32) : String := toString (B32.of x.f).bits.toNat
def outStr (s : String) : String := hex (bytesOfStr s)
def outOptStr : Option String → String
  | none => "0"
  | some s => "1 " ++ outStr s

def outPrec (p : Precursor B32) : String :=
  " ".intercalate
    [outB p.mz, outOpt outB p.intensity, outOpt toString p.charge, outOptStr p.spectrumRef,
     (match p.window with | none => "0" | some (a, b) => s!"1 {outB a} {outB b}"),
     outOpt outB p.mobility]

def outSpec (s : Spectrum B32) : String :=
  " ".intercalate
    [outStr s.id, toString s.level, outBool s.centroid, outB s.tic, outB s.startTime, outB s.injection,
     outList outPrec s.precursors, outList outB s.mz, outList outB s.intensity]

def errName : Err → String
  | .malformed => "malformed" | .float => "float" | .int => "int" | .base64 => "base64" | .io => "io" | .xml => "xml"

def outResult : Except Err (List (Spectrum B32)) → String
  | .error e => "err:" ++ errName e
  | .ok sps => "ok " ++ outList outSpec sps

/-! ### reading a reply back as named fields (used on the implementation's reply and on the
rendering of the expected spectra alike, so that the first differing field names the clause) -/

abbrev Fields := List (String × String)

def optToks (k : Nat) : P String := do
  let b ← nat
  if b == 0 then pure "0" else do
    let xs ← listN tok k
    pure (" ".intercalate ("1" :: xs))

def pPrecFields : P Fields := do
  let mz ← tok
  let int ← optToks 1
  let ch ← optToks 1
  let rf ← optToks 1
  let win ← optToks 2
  let mob ← optToks 1
  pure [("precursor_mz", mz), ("precursor_intensity", int), ("precursor_charge", ch),
        ("precursor_spectrum_ref", rf), ("precursor_isolation_window", win), ("precursor_ion_mobility", mob)]

def pSpecFields : P Fields := do
  let id ← tok
  let level ← tok
  let cen ← tok
  let tic ← tok
  let st ← tok
  let inj ← tok
  let precs ← list pPrecFields
  let mz ← list tok
  let int ← list tok
  pure ([("id", id), ("ms_level", level), ("representation", cen), ("total_ion_current", tic),
         ("scan_start_time", st), ("injection_time", inj), ("precursor_count", toString precs.length)]
        ++ precs.flatten ++
        [("mz_array", " ".intercalate mz), ("intensity_array", " ".intercalate int)])

def pReplyOk : P (List Fields) := do
  let t ← tok
  if t != "ok" then failure else list pSpecFields

def fieldsOf (sps : List (Spectrum B32)) : Option (List Fields) :=
  Proto.run pReplyOk (words (outResult (.ok sps)))

/-- name of the first field on which two spectra differ -/
def firstDiff : Fields → Fields → Option String
  | (n, a) :: r, (m, b) :: r' => if n != m then some n else if a != b then some n else firstDiff r r'
  | [], [] => none
  | (n, _) :: _, [] => some n
  | [], (n, _) :: _ => some n

def firstDiffDoc : List Fields → List Fields → Option String
  | a :: r, b :: r' => match firstDiff a b with | some n => some n | none => firstDiffDoc r r'
  | _, _ => none

/-! ### recognising schema-shaped documents among event lists (unverified convenience: the result is
only used after the round-trip check `els.flatMap events = strip evs`) -/

abbrev Q := StateT (List (Event B32)) Option

def takeCvs : List (Event B32) → List (Param B32) × List (Event B32)
  | .cv c v u :: rest => let (ps, r) := takeCvs rest; (⟨c, v, u⟩ :: ps, r)
  | evs => ([], evs)

def qCvs : Q (List (Param B32)) := fun evs => some (takeCvs evs)

def qExpect (e : Event B32) : Q Unit := fun
  | x :: r => if x = e then some ((), r) else none
  | [] => none

def qMany {α} (p : Q α) : Nat → Q (List α)
  | 0 => pure []
  | n + 1 => fun evs =>
    match p evs with
    | none => some ([], evs)
    | some (a, r) =>
      match qMany p n r with
      | some (as, r') => some (a :: as, r')
      | none => none

def qGroup (t : Tag) : Q (List (Param B32)) := do
  qExpect (.start t none none)
  let ps ← qCvs
  qExpect (.stop t)
  pure ps

def qPrec (fuel : Nat) : Q (PrecEl B32) := fun evs =>
  match evs with
  | .start .precursor none ref :: rest =>
    (do
      let iso ← qCvs
      let ions ← qMany (qGroup .selectedIon) fuel
      let act ← qCvs
      qExpect (.stop .precursor)
      pure (⟨ref, iso, ions, act⟩ : PrecEl B32)) rest
  | _ => none

def qArr : Q (ArrEl B32) := do
  qExpect (.start .binaryDataArray none none)
  let ps ← qCvs
  qExpect (.start .binary none none)
  let evs ← get
  match evs with
  | .text p :: rest =>
    set rest
    qExpect (.stop .binary)
    qExpect (.stop .binaryDataArray)
    pure ⟨ps, p⟩
  | _ => failure

def qSpec (fuel : Nat) : Q (SpecEl B32) := fun evs =>
  match evs with
  | .start .spectrum (some id) none :: rest =>
    (do
      let ps ← qCvs
      let scans ← qMany (qGroup .scan) fuel
      let precs ← qMany (qPrec fuel) fuel
      let arrs ← qMany qArr fuel
      qExpect (.stop .spectrum)
      pure (⟨id, ps, scans, precs, arrs⟩ : SpecEl B32)) rest
  | _ => none

def recognise (evs : List (Event B32)) : Option (List (SpecEl B32)) :=
  let ev := strip evs
  match qMany (qSpec ev.length) ev.length ev with
  | some (els, []) => if els.flatMap SpecEl.events = ev then some els else none
  | _ => none

/-! ### the spec on the implementation's reply -/

/-- what the code returned for a document with `total ion current = 0` elements before finding C16-tic-zero
    was repaired; only used to give a regression its old name -/
def asCodedDoc (cfg : Config) (els : List (SpecEl B32)) : List (Spectrum B32) :=
  els.flatMap fun e => if e.noTicZero then (denote cfg e).toList else (ticZeroAsCoded cfg).toList

def specVerdict (cfg : Config) (evs : List (Event B32)) (impl : List String) : String :=
  match impl with
  | ["panic"] => "bad:panic"
  | ["hang"] => "bad:hang"
  | _ =>
    match recognise evs with
    | none => "na"
    | some els =>
      if !els.all SpecEl.wf then "na" else
      match Proto.run pReplyOk impl with
      | none => "bad:error_on_wellformed_document"
      | some got =>
        match fieldsOf (denoteDoc cfg els) with
        | none => "na"
        | some want =>
          if got == want then "ok" else
          -- regression of the repaired finding C16-tic-zero (blank spectrum for TIC = 0), and nothing else?
          if !els.all SpecEl.noTicZero && fieldsOf (asCodedDoc cfg els) == some got then
            "bad:tic_zero_blank_spectrum"
          else if got.length != want.length then "bad:spectrum_count"
          else match firstDiffDoc got want with
            | some n => "bad:" ++ n
            | none => "bad:unknown"

/-- the tokens of one per-document result (`ok <n> spectrum…`, `err:<class>`, `panic`, `hang`) -/
def pResultToks : P (List String) := do
  let before ← get
  let t ← tok
  if t == "ok" then do
    let _ ← list pSpecFields
    let after ← get
    pure (before.take (before.length - after.length))
  else pure [t]

def pSeqRequest : P (List (Config × List (Event B32))) := do
  let _route ← tok
  list pRequest

/-- `mzmlseq`: the reply lists every document's result in the sequence, then every document's result when
    parsed alone on a fresh thread -/
def seqVerdict (docs : List (Config × List (Event B32))) (impl : List String) : String :=
  match Proto.run (do
      let k ← nat
      let a ← listN pResultToks k
      let b ← listN pResultToks k
      pure (a, b)) impl with
  | none => if impl == ["panic"] then "bad:panic" else if impl == ["hang"] then "bad:hang" else "na"
  | some (inSeq, alone) =>
    if inSeq.length != docs.length then "na"
    else if inSeq != alone then "bad:depends_on_previous_document"
    else
      let vs := (docs.zip inSeq).map (fun (d, r) => specVerdict d.1 d.2 r)
      match vs.find? (fun v => v.startsWith "bad") with
      | some v => v
      | none => if vs.all (· == "na") then "na" else "ok"

def handle (op : String) (args impl : List String) : Option Reply :=
  match op with
  | "mzmlseq" => do
    let docs ← Proto.run pSeqRequest args
    let results := (parseSeq docs).map outResult
    let model := " ".intercalate (toString docs.length :: (results ++ results))
    pure (exact model (" ".intercalate impl) (seqVerdict docs impl))
  | "mzml" => do
    let (cfg, evs) ← Proto.run pRequest args
    let model := outResult (parse cfg evs)
    pure (exact model (" ".intercalate impl) (specVerdict cfg evs impl))
  | "mzmlraw" =>
    let spec := match impl with
      | ["panic"] => "bad:panic"
      | ["hang"] => "bad:hang"
      | _ => "ok"
    pure { model := " ".intercalate impl, agree := true, spec := spec }
  | _ => none

end Sage.C16
