import SageModel.Proto
import SageModel.Model.C02
import SageModel.Drv.C09

/-! Driver ops for C02 (arithmetic at `Float32` / `Float`, same operations in the same order as the Rust code).

```
tol    := 0 u32(lo) u32(hi)  (ppm)  |  1 u32(lo) u32(hi)  (Da)
pep    := h:seq [n u32 mod…] opt(u32 nterm) opt(u32 cterm) u32(monoisotopic) decoy(0/1)
peak   := u32(mass) u32(intensity)

search [k kind…] min_ion_index bucket [p pep…]  tol(fragment) tol(precursor) opt(max_fragment_charge)
       min_isotope_err max_isotope_err min_precursor_charge max_precursor_charge override_precursor_charge
       chimera wide_window report_psms min_matched_peaks
       u32(precursor m/z) opt(precursor charge) opt(tol isolation window) [n peak…]
   |  [f psm…] in reported order   |  panic
psm    := pep_ix charge rank u32(isotope_error) matched_peaks scored_candidates u64(hyperscore)
          u64(delta_next) u64(delta_best) label
```

The model side builds its OWN index (`C09.buildFragments` → `C03.buildIndex`, stable sorts) and runs `C02.search`
(C03's `pageSearchC`, the dense preliminary vector, C10's swap-level heap, C04's `scoreCandidate`, the stable
descending sort, the chimeric loop).

`agree`: everything produced by `+ − × ÷`, casts, comparisons and the heap/sort (peptide, charge, rank,
isotope_error, matched_peaks, scored_candidates, label, the ORDER) is compared exactly. `hyperscore` passes
through libm's `ln` (Lean's toolchain ships its own libm): ≤ 4 ulp. `delta_next` / `delta_best` are differences of
two hyperscores: absolute difference ≤ 1e-12·max(1, |hyperscore| + |delta|). When two hyperscores of the model's
sorted score vector are within 8 ulp of each other without being bit-identical (a near-tie that the two libms
may order differently; bit-identical scores are ordered by the stable sort on both sides) and the lists differ,
the reply is compared through the spec instead: `agree := (spec = ok)`.

`spec`: `C02.specClause` (brute force, see `Model/C02.lean`) on the IMPLEMENTATION's reply. `na` for requests
outside the model's domain (`covered`).
-/
namespace Sage.C02
open Sage.Proto
open Sage.C09 (Kind RawPep pRaw f32OfBits constsF)
open Sage.C03 (Tol Frag)
open Sage.C04 (Env Peak)

/-- `f32::ln_1p` then `as f64` (unused by C02: SageHyperScore only) -/
def ln1p32 (x : Float32) : Float := (Float.log (1.0 + x.toFloat)).toFloat32.toFloat

def E32 : Env Float32 Float :=
  { add := (· + ·), sub := (· - ·), mul := (· * ·), div := (· / ·), abs := Float32.abs, neg := fun x => -x,
    ofNat := Float32.ofNat,
    proton := f32OfBits Sage.Gen.PROTON_bits, neutron := f32OfBits Sage.Gen.NEUTRON_bits,
    cast := Float32.toFloat,
    addD := (· + ·), subD := (· - ·), mulD := (· * ·), divD := (· / ·), negD := fun x => -x,
    ofNatD := Float.ofNat, half := 0.5, pi := 3.14159265358979323846264338327950288, tiny := 0.0,
    ln := Float.log, exp := Float.exp, log10 := Float.log10, ln1p := ln1p32,
    isFinite := Float.isFinite, isInf := Float.isInf }

/-- monotone integer key of `f64::total_cmp` -/
def f64Key (x : Float) : Int :=
  let n : Int := x.toBits.toNat
  if n ≥ 2^63 then (2^63 : Int) - 1 - n else n

/-- `x.total_cmp(y) != Greater` -/
def tle64 (x y : Float) : Bool := decide (f64Key x ≤ f64Key y)

def absF (x : Float) : Float := if x < 0.0 then -x else x

def near4 (x y : Float) : Bool := x.toBits == y.toBits || (!x.isNaN && !y.isNaN && ulpDistF64 x y ≤ 4)

/-- allowance for a difference of two hyperscores each known to 4 ulp: 1e-12·max(1, |scale| + |value|) -/
def close64 (a b scale : Float) : Bool :=
  a.toBits == b.toBits ||
  (!a.isNaN && !b.isNaN && absF (a - b) ≤ 1.0e-12 * (let m := absF scale + absF a; if m < 1.0 then 1.0 else m))

def cmp64 : Cmp Float :=
  { le := fun x y => decide (x ≤ y), near := near4, zero := 0.0, sub := (· - ·),
    eq := fun x y => x.toBits == y.toBits || x == y, close := close64 }

/-! ### parsing -/

def pTol : P (Tol Float32) := do
  let k ← nat
  let lo ← f32
  let hi ← f32
  match k with
  | 0 => pure (.ppm lo hi)
  | 1 => pure (.da lo hi)
  | _ => failure

def pPeak : P (Peak Float32) := do
  let m ← f32
  let i ← f32
  pure { mass := m, intensity := i }

def pPep : P (RawPep × Bool) := do
  let r ← pRaw
  let d ← bool
  pure (r, d)

structure Req where
  kinds : List Kind
  minIdx : Nat
  bucket : Nat
  raws : List (RawPep × Bool)
  cfg : Cfg Float32
  prec : Precursor Float32
  peaks : List (Peak Float32)

def allSomeK : List (Option Kind) → Option (List Kind)
  | [] => some []
  | none :: _ => none
  | some k :: ks => (allSomeK ks).map (k :: ·)

def pReq : P Req := do
  let kindNs ← list nat
  let minIdx ← nat
  let bucket ← nat
  let raws ← list pPep
  let ftol ← pTol
  let ptol ← pTol
  let mfc ← opt nat
  let isoLo ← int
  let isoHi ← int
  let zLo ← nat
  let zHi ← nat
  let overrideCharge ← bool
  let chimera ← bool
  let wideWindow ← bool
  let reportPsms ← nat
  let minMatched ← nat
  let mz ← f32
  let charge ← opt nat
  let isoWin ← opt pTol
  let peaks ← list pPeak
  match allSomeK (kindNs.map Kind.ofNat?) with
  | none => failure
  | some kinds =>
    pure { kinds, minIdx, bucket, raws, peaks,
           cfg := { ptol, ftol, minMatched, isoLo, isoHi, zLo, zHi, overrideCharge, mfc, chimera, reportPsms, wideWindow,
                    defaultIsoWin := .da (-2.4 : Float32) (2.4 : Float32) },
           prec := { mz, charge, isoWin } }

/-- requests the model covers: well-formed peptides (C09 domain), ascending peptide masses, ascending NaN-free
    peak masses, small charges / isotope errors (`u8` / `i8` never wrap), bucket ≥ 1 -/
def Req.covered (r : Req) : Bool :=
  r.bucket ≥ 1 &&
  r.raws.all (fun p => p.1.seq.length ≥ 1 && p.1.mods.length ≥ p.1.seq.length) &&
  (let ms := r.raws.map (fun p => f32OfBits p.1.mass)
   ms.all (fun m => !m.isNaN) && (ms.zip (ms.drop 1)).all (fun ab => decide (ab.1 ≤ ab.2))) &&
  (let ms := r.peaks.map (·.mass)
   ms.all (fun m => !m.isNaN) && (ms.zip (ms.drop 1)).all (fun ab => decide (ab.1 ≤ ab.2))) &&
  r.peaks.all (fun p => !p.intensity.isNaN) &&
  r.cfg.zLo < 64 && r.cfg.zHi < 64 && (match r.prec.charge with | some c => c ≥ 1 && c < 64 | none => true) &&
  (match r.cfg.mfc with | some c => c < 64 | none => true) &&
  r.cfg.isoLo ≥ -8 && r.cfg.isoHi ≤ 8 && r.cfg.isoLo ≤ 8 && r.cfg.isoHi ≥ -8 && !r.prec.mz.isNaN

/-! ### the model run -/

structure World where
  db : Db Float32
  info : PepInfo Float32
  sdb : SpecDb Float32

def mkWorld (r : Req) : Option World := do
  let peps := r.raws.map (fun p => p.1.toF)
  let pepArr := peps.toArray
  let ions : List (Frag Float32) :=
    (Sage.C09.buildFragments constsF r.kinds r.minIdx peps).map fun f => { pep := f.1, mz := f.2 }
  let (minv, frags) ← Sage.C03.buildIndex r.bucket ions
  let info : PepInfo Float32 :=
    { series := fun i => match pepArr[i]? with
        | some p => r.kinds.map (fun k => (k, Sage.C09.ions constsF k p))
        | none => [],
      len := fun i => match pepArr[i]? with | some p => p.residues.length | none => 0 }
  let idxFrags : Array (List Float32) :=
    (peps.zipIdx.map fun pi => (Sage.C09.pepFragments constsF r.kinds r.minIdx pi.2 pi.1).map (·.2)).toArray
  pure { db := { masses := (peps.map (·.mass)).toArray, minv := minv, frags := frags, B := r.bucket },
         info := info,
         sdb := { masses := peps.map (·.mass), decoy := r.raws.map (·.2),
                  indexFrags := fun i => idxFrags.getD i [], info := info } }

def canonF32 (x : Float32) : String := if x.isNaN then "2143289344" else outF32 x
def canonF64 (x : Float) : String := if x.isNaN then "9221120237041090560" else outF64 x

def isoErrF (e : Int) : Float32 := E32.mul (Sage.C04.ofInt E32 e) E32.neutron

def psmToks (r : Req) (scored : Nat) (p : Psm Float) : List String :=
  let label : Int := (labelAt (r.raws.map (·.2)).toArray p.pep).getD 1
  [toString p.pep, toString p.charge, toString p.rank, canonF32 (isoErrF p.iso), toString p.matched,
   toString scored, canonF64 p.hs, canonF64 p.dnext, canonF64 p.dbest, toString label]

/-! ### the implementation's reply -/

def pRep : P (Rep Float32 Float) := do
  let pep ← nat
  let charge ← nat
  let rank ← nat
  let isoErr ← f32
  let matched ← nat
  let scoredCandidates ← nat
  let hs ← f64
  let dnext ← f64
  let dbest ← f64
  let label ← int
  pure { pep, charge, rank, isoErr, matched, scoredCandidates, hs, dnext, dbest, label }

def deltaNear (a b hs : Float) : Bool :=
  a.toBits == b.toBits ||
  (!a.isNaN && !b.isNaN && absF (a - b) ≤ 1.0e-12 * (let m := absF hs + absF a; if m < 1.0 then 1.0 else m))

/-- positional comparison of the model's PSMs with the implementation's -/
def psmAgree (r : Req) (scored : Nat) (m : Psm Float) (i : Rep Float32 Float) : Bool :=
  let label : Int := (labelAt (r.raws.map (·.2)).toArray m.pep).getD 1
  m.pep == i.pep && m.charge == i.charge && m.rank == i.rank && (isoErrF m.iso).toBits == i.isoErr.toBits &&
  m.matched == i.matched && scored == i.scoredCandidates && label == i.label &&
  near4 m.hs i.hs && deltaNear m.dnext i.dnext m.hs && deltaNear m.dbest i.dbest m.hs

def listAgree (r : Req) (scored : Nat) : List (Psm Float) → List (Rep Float32 Float) → Bool
  | [], [] => true
  | m :: ms, i :: is => psmAgree r scored m i && listAgree r scored ms is
  | _, _ => false

/-- two hyperscores within 8 ulp that are not bit-identical -/
def nearTie (x y : Float) : Bool := x.toBits != y.toBits && !x.isNaN && !y.isNaN && ulpDistF64 x y ≤ 8

def hasNearTie (l : List (Cand Float)) : Bool := (l.zip (l.drop 1)).any fun ab => nearTie ab.1.hs ab.2.hs

/-- does the model's run pass through a near-tie that could change the outcome? -/
def nearTieFlag (r : Req) (w : World) (psms : List (Psm Float)) : Bool :=
  let hits := initialHits E32 w.db r.cfg r.peaks r.prec
  let prelim := hits.prelim.toList
  let vec (peaks : Array (Peak Float32)) : List (Cand Float) :=
    scoreVector tle64 (scoreCand E32 r.cfg.ftol r.cfg.mfc w.info peaks) r.cfg.minMatched prelim
  if r.cfg.chimera then
    let rec go : List (Psm Float) → Array (Peak Float32) → Bool
      | [], peaks => hasNearTie ((vec peaks).take 2)
      | p :: ps, peaks =>
        hasNearTie ((vec peaks).take 2) || go ps (removeMatched E32 r.cfg.ftol r.cfg.mfc w.info peaks p.pep p.charge)
    go psms r.peaks.toArray
  else hasNearTie ((vec r.peaks.toArray).take (r.cfg.reportPsms + 1))

def handle (op : String) (args impl : List String) : Option Reply :=
  match op with
  | "psmsearch" => do
    let r ← run pReq args
    if !r.covered then
      pure { model := "uncovered", agree := false, spec := "na" }
    else
    match mkWorld r with
    | none => pure { model := "uncovered", agree := false, spec := "na" }
    | some w =>
      let (scored, psms) := search E32 tle64 w.db r.cfg w.info r.peaks r.prec
      let model := " ".intercalate (toString psms.length :: psms.flatMap (psmToks r scored))
      match run (list pRep) impl with
      | none =>
        -- `panic` (or an unparsable reply): the model never panics on covered requests
        pure { model := model, agree := false, spec := if impl == ["panic"] then "bad:panic" else "bad:shape" }
      | some reps =>
        let spec := specClause E32 cmp64 w.sdb r.cfg r.prec r.peaks reps
        let exactAgree := listAgree r scored psms reps
        let agree := exactAgree || (spec == "ok" && nearTieFlag r w psms)
        pure { model := model, agree := agree, spec := spec }
  | _ => none

end Sage.C02
