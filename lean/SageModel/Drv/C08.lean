import SageModel.Proto
import SageModel.Generated.Consts
import SageModel.Model.C08
import SageModel.Drv.C06
import SageModel.Drv.C09

/-! Driver ops for C08.

```
db8 <mode> <pseed> <nperm> <gen 0|1> <tag:hex>
    <mc> <min_len> <max_len> <cleave:hex> <0 | 1 restrict-byte> <c_terminal> <semi>
    <f32 min_mass> <f32 max_mass> <max_var>
    <nvar> {<key:hex> <nmass> <f32>*} <nstatic> {<key:hex> <f32>}
    <kinds mask> <min_ion_index> <bucket> <frag 0|1>
    <nrec> {<accession:hex> <sequence:hex>}
  | panic
  | ok <npep> {<decoy> <seq:hex> <n> <f32 mod>*n <0|1 f32 nterm> <0|1 f32 cterm> <f32 mass>
               <missed_cleavages> <semi_enzymatic> <position 0..3> <nprot> <acc:hex>*}
       F <nfrag> [frag=1: {<peptide index> <f32 m/z>}*nfrag sorted]
       perm <orders tried> <orders that differ>  pool <pools tried> <pools that differ>  hash <rebuilds> <that differ>
       ford <record orders> <pools> <rebuilds> whose fragment index AS STORED (vector order, bucket layout) differs
```
The model proves and compares the fragment MULTISET; the order in which the index stores it (the outcome of two
unstable sorts on ties) is not modelled. Since the code is deterministic given the peptide list, the stored index
must nevertheless be the same for every record order, pool size and repeated build: the harness digests it in
stored order and the spec demands equal digests (`bad:fragment_index_order_depends_on_fasta_order`,
`bad:fragment_index_order_thread_dependent`; in `chunkdb` concatenation orders / chunk sizes count as input order).
Comparison with the model is exact on every field (bit patterns; only `+` in a fixed order is involved).
Spec verdicts (evaluated on the implementation's reply):
`bad:fasta_order_dependent`, `bad:thread_dependent`, `bad:run_to_run_nondeterministic` (the implementation
compared with itself: permuted records, pools of 1..32 threads, rebuilds from a fresh `Parameters` = new HashMap seeds),
`bad:not_sorted_by_mass`, `bad:duplicate_key`, `bad:proteins_not_sorted_set`,
`bad:target_peptide_not_in_its_protein` / `bad:decoy_not_reversal_of_its_protein` (clause protein_not_a_source: an
entry, or one of the proteins it lists, has no source — sources being recomputed from the FASTA text of the
request, tagged records skipped iff decoys are generated),
`bad:source_not_listed`, `bad:decoy_not_conjunction`, `bad:semi_not_conjunction`, `bad:position_not_least`,
`bad:missed_cleavages_not_a_source` (the naive definition `Sage.C08.specVerdict`; for databases
too large for the quadratic clauses: sort-based duplicate test and `bad:differs_from_proven_model`, the model
being proven to satisfy the definition), and in mode 1 only `bad:decoy_protein_not_listed`.

```
chunkdb <k> <seed> <drop 0|1> <kfree 0|1> <arguments of db8>
  | panic
  | ok <npep> {peptide}*npep F <nfrag> [pairs] shuf <n> <ndiff> pool <n> <ndiff> ksz <n> <ndiff>
```
The chunked prefilter path (`Model/C08.lean`, `prefilterBuild`): per-chunk `buildDb`, subset rule, `reorder` of the
concatenation; compared exactly. Spec on the implementation's reply: `bad:concatenation_order_dependent`,
`bad:thread_dependent`, `bad:chunk_size_dependent` (the implementation against itself), the clauses of `specVerdict`
against the per-chunk sources recomputed from the request text (decoys judged against the targets of their own
chunk), `bad:decoy_has_target_sequence` (not evaluated when the request has `[` / `]` modifications or drops a subset).

```
db8t <k> <threads>*k <arguments of db8>
  | panic
  | ok <pre> <npep> {peptide}*npep T <k> {<threads> <npep_t> <ndup_t> <nbad_t> <digest_t>}*k
```
Block-boundary stream (de-duplication of `reorder_peptides` inside rayon pools of the listed sizes). The model
supplies `pre` (length of the vector handed to `reorder_peptides`) and the whole database, compared exactly with
the database of the first pool; every pool must report the model's entry count, no duplicate key, no disorder
and the digest of the first pool. Verdicts: `bad:duplicate_entry` (own sort-based test on the listed database,
or `ndup_t > 0` for some pool), `bad:thread_dependent` (entry count or digest differs between pools),
`bad:not_sorted_by_mass`, `bad:proteins_not_sorted_set`, `bad:differs_from_proven_model`.
-/
namespace Sage.C08
open Sage.Proto

abbrev F := Float32

def f32b (b : Nat) : F := Float32.ofBits b.toUInt32

structure Request where
  mode : Nat
  gen : Bool
  tag : List UInt8
  enz : C05.Builder
  lo : Nat
  hi : Nat
  maxVar : Nat
  vars : List (List Nat × List Nat)
  statics : List (List Nat × Nat)
  kinds : Nat
  minIon : Nat
  frag : Bool
  recs : List (List UInt8 × List UInt8)

def request : P Request := do
  let mode ← nat; let _pseed ← nat; let _nperm ← nat; let gen ← bool; let tag ← bytes
  let mc ← nat; let minLen ← nat; let maxLen ← nat; let cleave ← bytes
  let restrict ← opt nat; let cterm ← bool; let semi ← bool
  let lo ← nat; let hi ← nat; let maxVar ← nat
  let vars ← C06.varMods; let statics ← C06.staticMods
  let kinds ← nat; let minIon ← nat; let _bucket ← nat; let frag ← bool
  let recs ← list (do let a ← bytes; let s ← bytes; pure (a, s))
  pure { mode, gen, tag
         enz := { mc := some mc, minLen := some minLen, maxLen := some maxLen, cleaveAt := some cleave,
                  restrict := restrict.map Nat.toUInt8, cTerminal := some cterm, semi := some semi }
         lo, hi, maxVar, vars, statics, kinds, minIon, frag, recs }

/-- `>acc d\nSEQ\n` per record, as the harness renders it -/
def fastaText (recs : List (List UInt8 × List UInt8)) : List UInt8 :=
  recs.flatMap fun (a, s) => [62] ++ a ++ [32, 100, 10] ++ s ++ [10]

def kindsOf (mask : Nat) : List C09.Kind :=
  (C09.Kind.all.zipIdx).filterMap fun (k, i) => if (mask >>> i) % 2 == 1 then some k else none

/-- a peptide on the wire -/
structure WPep where
  decoy : Bool
  seq : List Nat
  mods : List Nat
  nterm : Option Nat
  cterm : Option Nat
  mono : Nat
  mc : Nat
  semi : Bool
  pos : Nat
  proteins : List (List Nat)
deriving BEq

def wpep : P WPep := do
  let decoy ← bool; let seq ← bytes; let mods ← list nat; let nterm ← opt nat; let cterm ← opt nat
  let mono ← nat; let mc ← nat; let semi ← bool; let pos ← nat; let proteins ← list bytes
  pure { decoy, seq := nats seq, mods, nterm, cterm, mono, mc, semi, pos, proteins := proteins.map nats }

def posCode : C06.Position → Nat
  | .nterm => 0 | .cterm => 1 | .full => 2 | .internal => 3

def posOfCode : Nat → C06.Position
  | 0 => .nterm | 1 => .cterm | 2 => .full | _ => .internal

def toW (p : DbPep F) : WPep :=
  { decoy := p.decoy, seq := p.core.sequence, mods := p.core.mods.map (·.toBits.toNat)
    nterm := p.core.nterm.map (·.toBits.toNat), cterm := p.core.cterm.map (·.toBits.toNat)
    mono := p.core.mono.toBits.toNat, mc := p.mc, semi := p.semi, pos := posCode p.core.position
    proteins := p.proteins }

def ofW (w : WPep) : DbPep F :=
  { decoy := w.decoy
    core := { position := posOfCode w.pos, sequence := w.seq, mods := w.mods.map f32b, nterm := w.nterm.map f32b,
              cterm := w.cterm.map f32b, mono := f32b w.mono }
    mc := w.mc, semi := w.semi, proteins := w.proteins }

def hexStr (s : List Nat) : String := hex (s.map Nat.toUInt8)

def renderW (w : WPep) : String :=
  " ".intercalate
    [outBool w.decoy, hexStr w.seq, outList toString w.mods, outOpt toString w.nterm, outOpt toString w.cterm,
     toString w.mono, toString w.mc, outBool w.semi, toString w.pos, outList hexStr w.proteins]

structure ImplReply where
  peps : List WPep
  nfrag : Nat
  frags : List (Nat × Nat)
  perm : Nat × Nat
  pool : Nat × Nat
  hash : Nat × Nat
  /-- record orders / pools / rebuilds whose fragment index AS STORED differs from the first build's -/
  ford : Nat × Nat × Nat

def kw (s : String) : P Unit := do
  let t ← tok
  if t == s then pure () else failure

def implReply (frag : Bool) : P ImplReply := do
  kw "ok"
  let peps ← list wpep
  kw "F"
  let nfrag ← nat
  let frags ← if frag then listN (do let i ← nat; let m ← nat; pure (i, m)) nfrag else pure []
  kw "perm"; let p1 ← nat; let p2 ← nat
  kw "pool"; let t1 ← nat; let t2 ← nat
  kw "hash"; let h1 ← nat; let h2 ← nat
  kw "ford"; let f1 ← nat; let f2 ← nat; let f3 ← nat
  pure { peps, nfrag, frags, perm := (p1, p2), pool := (t1, t2), hash := (h1, h2), ford := (f1, f2, f3) }

def sameEntry (a b : WPep) : Bool :=
  a.decoy == b.decoy && a.seq == b.seq && a.mods == b.mods && a.nterm == b.nterm && a.cterm == b.cterm &&
  a.mono == b.mono && a.proteins == b.proteins && a.mc == b.mc && a.semi == b.semi && a.pos == b.pos

/-- duplicate test by sorting (for databases too large for the quadratic clause) -/
def noDupSorted (out : List (DbPep F)) : Bool :=
  let s := out.mergeSort keyLe   -- by identity (sequence, modifications, termini): no mass in the key
  (s.zip (s.drop 1)).all fun (a, b) => !keyEq a b

def handle (op : String) (args impl : List String) : Option Reply :=
  match op with
  | "db8" => do
    let r ← run request args
    let vars : List (C06.Target × F) := (C06.validateVar r.vars).map fun tm => (tm.1, f32b tm.2)
    let statics : List (C06.Target × F) := (C06.validate r.statics).map fun tm => (tm.1, f32b tm.2)
    let implR : Option ImplReply := run (implReply r.frag) impl
    let echo : String := match implR with
      | some i => s!"perm {i.perm.1} 0 pool {i.pool.1} 0 hash {i.hash.1} 0 ford 0 0 0"
      | none => "perm 0 0 pool 0 0 hash 0 0 ford 0 0 0"
    -- the model
    let built : Option (Cfg F × List (C05.Seq × C05.Seq)) := do
      let par ← r.enz.toParams
      let targets ← C05.parse r.tag r.gen (fastaText r.recs)
      pure ({ par, tag := r.tag, gen := r.gen, h2o := C06.H2Of, table := C06.tableF, vars, statics,
              maxVar := if r.maxVar == 0 then 1 else r.maxVar, lo := f32b r.lo, hi := f32b r.hi }, targets)
    let modelDb : Option (Cfg F × List (C05.Seq × C05.Seq) × List (DbPep F)) := do
      let (cfg, targets) ← built
      let db ← buildDb cfg targets
      pure (cfg, targets, db)
    match modelDb with
    | none => pure (exact "panic" (" ".intercalate impl) "na")
    | some (cfg, targets, db) =>
      let mW : List WPep := db.map toW
      let frags := (C09.bitsOf (fragmentsOf C09.constsF (kindsOf r.kinds) r.minIon C06.tableF db)).mergeSort C09.lePair
      let fragText := if r.frag then " " ++ " ".intercalate (frags.map fun f => s!"{f.1} {f.2}") else ""
      let model := s!"ok {outList renderW mW} F {frags.length}{fragText} {echo}"
      let spec : String :=
        match implR with
        | none => if impl == ["panic"] then "na" else "bad:reply_unreadable"
        | some i =>
          if i.perm.2 != 0 then "bad:fasta_order_dependent" else
          if i.pool.2 != 0 then "bad:thread_dependent" else
          if i.hash.2 != 0 then "bad:run_to_run_nondeterministic" else
          -- the stored fragment index (vector order + bucket layout), compared by the harness as digests
          if i.ford.1 != 0 then "bad:fragment_index_order_depends_on_fasta_order" else
          if i.ford.2.1 != 0 || i.ford.2.2 != 0 then "bad:fragment_index_order_thread_dependent" else
          let out := i.peps.map ofW
          if !clSorted out then "bad:not_sorted_by_mass" else
          if !clProteinsSorted out then "bad:proteins_not_sorted_set" else
          -- the sources are recomputed from the FASTA TEXT of the request by the record-level definition of
          -- FASTA reading (`C05.specFasta`: header line + following lines, tagged records dropped iff decoys are
          -- generated) — neither from sage's parsed proteins nor from the state-machine model `C05.parse`
          let specTargets : List (C05.Seq × C05.Seq) :=
            match C05.specFasta r.tag r.gen ((C05.splitNL (fastaText r.recs)).map C05.trim) with
            | some ts => ts
            | none => targets
          let cs := contribs cfg specTargets
          let small := out.length * cs.length ≤ 4000000
          -- which kind of entry has no source in the protein(s) it lists
          let refine (v : String) : String :=
            if v != "bad:protein_not_a_source" then v else
            match out.find? (fun e => !((cs.any fun c => keyEq c e) &&
                e.proteins.all fun a => cs.any fun c => keyEq c e && c.proteins.contains a)) with
            | some e => if e.decoy then "bad:decoy_not_reversal_of_its_protein" else "bad:target_peptide_not_in_its_protein"
            | none => v
          let v :=
            if small then refine (specVerdict cs out)
            else if !noDupSorted out then "bad:duplicate_key"
            else if out.length != db.length || !((i.peps.zip (db.map toW)).all fun (a, b) => sameEntry a b) then
              "bad:differs_from_proven_model"
            else "ok"
          if v != "ok" then v else
          if r.mode == 1 && !r.gen && !clAllListed (contribsUnfiltered cfg targets) out then
            "bad:decoy_protein_not_listed"
          else "ok"
      pure (exact model (" ".intercalate impl) spec)
  | "db8t" => do
    -- block-boundary stream: `db8t <k> <threads>*k <arguments of db8>`
    let (threads, rest) ← runPrefix (list nat) args
    let r ← run request rest
    let vars : List (C06.Target × F) := (C06.validateVar r.vars).map fun tm => (tm.1, f32b tm.2)
    let statics : List (C06.Target × F) := (C06.validate r.statics).map fun tm => (tm.1, f32b tm.2)
    let implR : Option (Nat × List WPep × List (Nat × Nat × Nat × Nat × Nat × Nat)) :=
      run (do
        kw "ok"; let pre ← nat; let peps ← list wpep; kw "T"
        let per ← list (do
          let t ← nat; let n ← nat; let d ← nat; let b ← nat; let h ← nat; let st ← nat; pure (t, n, d, b, h, st))
        pure (pre, peps, per)) impl
    let modelDb : Option (Nat × List (DbPep F)) := do
      let par ← r.enz.toParams
      let targets ← C05.parse r.tag r.gen (fastaText r.recs)
      let cfg : Cfg F := { par, tag := r.tag, gen := r.gen, h2o := C06.H2Of, table := C06.tableF, vars, statics,
                           maxVar := if r.maxVar == 0 then 1 else r.maxVar, lo := f32b r.lo, hi := f32b r.hi }
      let gs ← groupDigests (fastaDigest cfg.par cfg.tag cfg.gen targets)
      let pre := digestPeptides cfg gs (targetInserts gs)
      pure (pre.length, reorder pre)
    match modelDb with
    | none => pure (exact "panic" (" ".intercalate impl) "na")
    | some (pre, db) =>
      -- the digest of the listed (first) build is the harness' own; every other build must reproduce it
      let refDigest : Nat := match implR with
        | some (_, _, (_, _, _, _, h, _) :: _) => h
        | _ => 0
      let refStored : Nat := match implR with
        | some (_, _, (_, _, _, _, _, st) :: _) => st
        | _ => 0
      let per := threads.map fun t => s!"{t} {db.length} 0 0 {refDigest} {refStored}"
      let model := s!"ok {pre} {outList renderW (db.map toW)} T {threads.length} {" ".intercalate per}"
      let spec : String :=
        match implR with
        | none => if impl == ["panic"] then "na" else "bad:reply_unreadable"
        | some (_, peps, per) =>
          let out := peps.map ofW
          -- O(n log n) facts evaluated here on the listed database …
          if !clSorted out then "bad:not_sorted_by_mass" else
          if !noDupSorted out then "bad:duplicate_entry" else
          if !clProteinsSorted out then "bad:proteins_not_sorted_set" else
          -- … and the per-pool facts reported by the harness
          if per.any (fun x => x.2.2.1 != 0) then "bad:duplicate_entry" else
          if per.any (fun x => x.2.2.2.1 != 0) then "bad:not_sorted_or_proteins_not_sorted_set" else
          if per.any (fun x => x.2.1 != out.length || x.2.2.2.2.1 != refDigest) then "bad:thread_dependent" else
          if per.any (fun x => x.2.2.2.2.2 != refStored) then "bad:fragment_index_order_thread_dependent" else
          if out.length != db.length || !((peps.zip (db.map toW)).all fun (a, b) => sameEntry a b) then
            "bad:differs_from_proven_model"
          else "ok"
      pure (exact model (" ".intercalate impl) spec)
  | "chunkdb" => do
    -- `chunkdb <k> <seed> <drop> <kfree> <arguments of db8>`
    let ((k, seed, drop, kfree), rest) ← runPrefix (do
      let k ← nat; let seed ← nat; let drop ← bool; let kfree ← bool; pure (k, seed, drop, kfree)) args
    let r ← run request rest
    let vars : List (C06.Target × F) := (C06.validateVar r.vars).map fun tm => (tm.1, f32b tm.2)
    let statics : List (C06.Target × F) := (C06.validate r.statics).map fun tm => (tm.1, f32b tm.2)
    let implR : Option (List WPep × Nat × List (Nat × Nat) × (Nat × Nat) × (Nat × Nat) × (Nat × Nat) × (Nat × Nat × Nat)) :=
      run (do
        kw "ok"; let peps ← list wpep; kw "F"; let nfrag ← nat
        let frags ← if r.frag then listN (do let i ← nat; let m ← nat; pure (i, m)) nfrag else pure []
        kw "shuf"; let s1 ← nat; let s2 ← nat
        kw "pool"; let t1 ← nat; let t2 ← nat
        kw "ksz"; let k1 ← nat; let k2 ← nat
        kw "ford"; let f1 ← nat; let f2 ← nat; let f3 ← nat
        pure (peps, nfrag, frags, (s1, s2), (t1, t2), (k1, k2), (f1, f2, f3))) impl
    let echo : String := match implR with
      | some (_, _, _, sh, pl, ks, _) => s!"shuf {sh.1} 0 pool {pl.1} 0 ksz {ks.1} 0 ford 0 0 0"
      | none => "shuf 0 0 pool 0 0 ksz 0 0 ford 0 0 0"
    let built : Option (Cfg F × List (C05.Seq × C05.Seq) × List (List (DbPep F))) := do
      let par ← r.enz.toParams
      let targets ← C05.parse r.tag r.gen (fastaText r.recs)
      let cfg : Cfg F := { par, tag := r.tag, gen := r.gen, h2o := C06.H2Of, table := C06.tableF, vars, statics,
                           maxVar := if r.maxVar == 0 then 1 else r.maxVar, lo := f32b r.lo, hi := f32b r.hi }
      if k == 0 then none else
      let dbs ← chunkDbs cfg targets k
      pure (cfg, targets, dbs)
    match built with
    | none => pure (exact "panic" (" ".intercalate impl) "na")
    | some (cfg, targets, dbs) =>
      let db := reorder (prefilterConcat seed drop dbs)
      let frags := (C09.bitsOf (fragmentsOf C09.constsF (kindsOf r.kinds) r.minIon C06.tableF db)).mergeSort C09.lePair
      let fragText := if r.frag then " " ++ " ".intercalate (frags.map fun f => s!"{f.1} {f.2}") else ""
      let model := s!"ok {outList renderW (db.map toW)} F {frags.length}{fragText} {echo}"
      -- chunk-size independence is claimed only where the build has no decoys at all and no per-chunk choice
      let hasTagged := r.recs.any fun rec => C05.containsSub rec.1 r.tag
      let kfreeOk := !r.gen && !hasTagged && !(r.enz.semi.getD false) && !drop
      let protTerminal := (r.vars.map (·.1) ++ r.statics.map (·.1)).any fun key => key.head? == some 91 || key.head? == some 93
      let spec : String :=
        match implR with
        | none => if impl == ["panic"] then "na" else "bad:reply_unreadable"
        | some (peps, _, _, sh, pl, ks, fo) =>
          if kfree && !kfreeOk then "bad:request_claims_chunk_size_independence_wrongly" else
          if sh.2 != 0 then "bad:concatenation_order_dependent" else
          if pl.2 != 0 then "bad:thread_dependent" else
          if ks.2 != 0 then "bad:chunk_size_dependent" else
          -- the stored fragment index: same canonical peptide list => same stored index
          if fo.1 != 0 || fo.2.2 != 0 then "bad:fragment_index_order_depends_on_fasta_order" else
          if fo.2.1 != 0 then "bad:fragment_index_order_thread_dependent" else
          let out := peps.map ofW
          if !clSorted out then "bad:not_sorted_by_mass" else
          if !clProteinsSorted out then "bad:proteins_not_sorted_set" else
          -- sources from the FASTA text of the request (record-level definition), chunk by chunk
          let specTargets : List (C05.Seq × C05.Seq) :=
            match C05.specFasta r.tag r.gen ((C05.splitNL (fastaText r.recs)).map C05.trim) with
            | some ts => ts
            | none => targets
          let cs := chunkContribs cfg specTargets k seed drop dbs
          let v := if out.length * cs.length ≤ 4000000 then specVerdict cs out
            else if !noDupSorted out then "bad:duplicate_key"
            else if out.length != db.length || !((peps.zip (db.map toW)).all fun (a, b) => sameEntry a b) then
              "bad:differs_from_proven_model"
            else "ok"
          if v != "ok" then v else
          -- C07's clause. As coded it can fail in two situations, in which it is not evaluated: with protein-terminal
          -- modifications a decoy form of a mirror-image target of another chunk may carry a modification its target
          -- twin cannot have; with a dropped subset the target twin of a surviving decoy form may have been dropped
          if !protTerminal && !drop && !clDecoyNotTargetSeq out then "bad:decoy_has_target_sequence" else "ok"
      pure (exact model (" ".intercalate impl) spec)
  | _ => none

end Sage.C08
