import SageModel.Proto
import SageModel.Model.C15
import SageModel.Model.C12

/-! Driver ops for C15.

```
gauss n m A[n*n f64] B[n*m f64]                    | 0 | 1 X[n*m f64]
lda n p F[n*p f64] decoy[n 0/1] perm[n]            | W W'        W = 0 | 1 p w[p f64]
scorepsms n (21 fields)*n                          | fitted n (score:f32 ln1p:f32 pe:f64 l1..l8:f64)*n
```

`gauss` and `lda` are compared **bit-exactly** (`+ − × ÷ sqrt` and comparisons only, same order of
operations; NaNs canonicalised). The spec is evaluated in exact ℚ on the IMPLEMENTATION's reply.
For `scorepsms` the model runs the WHOLE of `score_psms` up to the discriminant scores (20-column
feature transform, `train`, the finite-eigenvector guard, `score`, the `as f32` cast) and the fallback of
`Runner::spectrum_fdr`, bit-exactly, taking as DATA from the harness the values Lean cannot compute:
`f64::ln_1p` of eight fields and `f32::ln_1p(-poisson)` (each checked against an independent evaluation
within 16 f64 / 4 f32 ulps) and the KDE mass-error posterior (feature 5; the KDE is C14's subject).
The later PEP/KDE part of `score_psms` (posterior_error field) is not compared.
-/
namespace Sage.C15
open Sage.Proto

def qnan64 : Nat := 0x7ff8000000000000
def qnan32 : Nat := 0x7fc00000

def outF (x : Float) : String := if x.isNaN then toString qnan64 else outF64 x
def outF32c (x : Float32) : String := if x.isNaN then toString qnan32 else outF32 x

def chunk {β : Type} (rows cols : Nat) (data : List β) : List (List β) :=
  (List.range rows).map fun i => (data.drop (i * cols)).take cols

def join (l : List String) : String := " ".intercalate l

def finiteBits (b : Nat) : Bool := (b / 2^52) % 2048 != 2047

def toQ (x : Float) : Rat := ratOfFloat x
def matQ (m : Mat Float) : Mat Rat := m.map fun r => r.map toQ

/-- the regularisers the real loop tries, as the exact values of the `f64`s it computes -/
def ladderQ : List Rat := (ladder constsF 64 constsF.eps0).map toQ

/-- exact symmetric-positive-semidefinite test: eliminate with the diagonal as pivot; a zero
    diagonal entry needs a zero row; a negative one refutes -/
def isPSDLoop : Nat → Mat Rat → Bool
  | 0, _ => true
  | fuel + 1, m =>
    match m with
    | [] => true
    | r0 :: rest =>
      let a := r0.getD 0 0
      if a < 0 then false
      else if a = 0 then
        r0.all (· = 0) && isPSDLoop fuel (rest.map fun r => r.drop 1)
      else
        let tail0 := r0.drop 1
        isPSDLoop fuel (rest.map fun r =>
          let f := r.getD 0 0 / a
          List.zipWith (fun x y => x - f * y) (r.drop 1) tail0)

def isSymmetric (m : Mat Rat) : Bool :=
  let n := m.length
  (List.range n).all fun i => (List.range n).all fun j => get m i j == get m j i

def isPSD (m : Mat Rat) : Bool := isSymmetric m && isPSDLoop m.length m

/-- backward-error tolerance of the gauss spec: `1e-6` (the code itself tolerates `1e-8` per
    normalised off-diagonal entry, so a returned `X` is exact only up to about `n·1e-8`) -/
def tauGauss : Rat := 1 / 1000000

def parseOptVecs (toks : List String) : Option (List (Option (List Nat))) :=
  run (do
    let w ← opt (list nat)
    let w' ← opt (list nat)
    pure [w, w']) toks

/-- does the EXACT run of the modelled elimination (the same algorithm, over ℚ) at the first regulariser
    end on the exact identity? Then (theorems `solve_equiv`, `solve_exact_of_identity`) its result is THE
    solution of `(A + ε₀I) X = B`; an f64 run of a well-conditioned such system has no excuse to fail or
    to move to a larger regulariser. (Before the repair of the pivot rule the exact run of the
    spurious-failure observation `[[1,2,0],[2,5,0],[0,0,1]]` failed too; with pivoting by magnitude it
    succeeds and that input is judged like any other.) -/
def exactRunOk (n : Nat) (a b : Mat Rat) : Bool :=
  let st := backfill (reduce (echelon n (fillZero (ladderQ.headD 0) a, b)))
  st.1 == Q.identity n

/-- largest elimination multiplier `|a_ik / pivot|` met by the EXACT run of `echelon` (mirrors
    `echelonLoop`). With pivoting by magnitude it is ≤ 1 (theorem `multiplier_le_one`); under the former
    signed-max rule it could be huge (`-(2/3)ε` chosen next to `-0.375`) -/
def multLoop (m n : Nat) : Nat → Nat → Nat → Mat Rat × Mat Rat → Rat → Rat
  | 0, _, _, _, g => g
  | fuel + 1, h, k, (left, right), g =>
    if h < m ∧ k < n then
      let i := (findMax left k h m).1
      if isZero (get left i k) then multLoop m n fuel h (k + 1) (left, right) g
      else
        let sw := if h ≠ i then (swapRows left h i, swapRows right h i) else (left, right)
        let piv := get sw.1 h k
        let g' := (List.range' (h + 1) (m - (h + 1))).foldl
          (fun acc r => Q.maxq acc (Q.absq (get sw.1 r k / piv))) g
        multLoop m n fuel (h + 1) (k + 1) (clearBelow h k sw.1 sw.2) g'
    else g

/-- growth factor `ρ ≥ 1` of the exact run at the first regulariser: the larger of the largest `echelon`
    multiplier and the largest entry of the row-normalised (`reduce`d) left side, whose entries are the
    multipliers of `backfill`. The rounding-error bound of an elimination is `c·n·u·‖|L||U|‖`, i.e. the
    usual `κ·u` times this factor; it is 1..10 for ordinary SPD input and ~`‖A‖/ε` when an ε-sized pivot
    is chosen (observation `corpus/C15/observation-tiny-pivot.req`) -/
def growthFactor (n : Nat) (a b : Mat Rat) : Rat :=
  let st0 := (fillZero (ladderQ.headD 0) a, b)
  let g := multLoop a.length n n 0 0 st0 1
  let red := reduce (echelon n st0)
  Q.maxq g (red.1.foldl (fun mx r => Q.maxq mx (Q.normInfV r)) 1)

/-- `κ∞` below which a failure / a larger regulariser is not excused when the exact run succeeds -/
def kappaStrict : Rat := 1000000

/-- a-priori bounds on what f64 rounding does to the statistics `train` computes from the rows, for a
    computation that centres the data first (two-pass): with `M_j = max_i |x_ij|`, `R_j` = the largest
    exact deviation of a value of column `j` from its class mean, `u = 2⁻⁵³`, `n` rows:
    every mean and every centred value is off by at most `(n+3)·u·M_j`, hence
    `‖δd‖∞ ≤ 2(n+2)·u·max_j M_j` and
    `‖δS_w‖∞ ≤ 2(n+3)·u·max_j Σ_k (M_j R_k + M_k R_j + R_j R_k)` (two classes).
    A single-pass `E[xx'] − μμ'` computation is NOT within these bounds (its error is `u·M_j M_k`). -/
def inputPerturbation (fq : Mat Rat) (decoy : List Bool) (s : Stats Rat) (p : Nat) : Rat × Rat :=
  let n : Rat := (fq.length : Rat)
  let u := Q.dyadicInv 53
  let M : List Rat := (List.range p).map fun j => Q.normInfV (Q.colq fq j)
  let R : List Rat := (List.range p).map fun j =>
    (fq.zip decoy).foldl (fun mx (row, dcy) =>
      Q.maxq mx (Q.absq (row.getD j 0 - (if dcy then s.muDecoy else s.muTarget).getD j 0))) 0
  let dd := 2 * (n + 2) * u * Q.normInfV M
  let rowSum (j : Nat) : Rat := (List.range p).foldl (fun acc k =>
    acc + M.getD j 0 * R.getD k 0 + M.getD k 0 * R.getD j 0 + R.getD j 0 * R.getD k 0) 0
  let dS := 2 * (n + 3) * u * ((List.range p).foldl (fun mx j => Q.maxq mx (rowSum j)) 0)
  (dd, dS)

/-- one direction judged against the exact Fisher direction; returns the verdict and, when the
    direction was accepted, the angle bound that was used (for the row-order clause) -/
def judgeDir (p : Nat) (s : Stats Rat) (dd dS : Rat) (w : List Rat) : String × Option (Rat × List Rat) :=
  let d := List.zipWith (· - ·) s.muTarget s.muDecoy
  -- orientation, with the rounding allowance of the two f64 dot products the code compares
  let allow := Q.dyadicInv 50 * ((List.zipWith (fun a b => Q.absq a * Q.absq b) s.muTarget w).foldl (· + ·) 0
                              + (List.zipWith (fun a b => Q.absq a * Q.absq b) s.muDecoy w).foldl (· + ·) 0)
  if Q.dotq d w < -allow then ("bad:orientation", none) else
  if d.all (· = 0) || w.all (· = 0) then ("ok", none) else
  -- Fisher direction of the regularised problem, for SOME ε of the ladder
  -- accepted iff it matches the exact regularised Fisher direction for SOME ε of the ladder at which
  -- the bound is meaningful; rejected only if ε₀ itself (the first the code tries, where a
  -- well-conditioned system cannot fail) is well-conditioned enough to be judged
  -- strict at ε₀: when the exact run of the elimination succeeds at the first regulariser and the bound
  -- there is meaningful, the direction must match the Fisher direction for ε₀ itself
  let strict := exactRunOk p s.sw s.sb
  -- growth factor of the exact elimination (1 for a stable run)
  let rho := growthFactor p s.sw s.sb
  let rec go : List Rat → Bool → Bool → String × Option (Rat × List Rat)
    | [], judged, _ => (if judged then "bad:not_fisher" else "na", none)
    | eps :: rest, judged, first =>
      let ae := Q.addDiag s.sw eps
      -- forward error of elimination with partial pivoting: c·n·κ∞(A)·u normwise, in the coordinates
      -- the code works in (an equilibrated κ was tried and is NOT a valid bound for this solver: on
      -- ill-scaled, rank-deficient S_w the observed error exceeded 10⁵·κ(DAD)·u); `sc` is kept as the
      -- identity scaling
      let sc : List Rat := ae.map fun _ => 1
      match Q.cond (Q.scaleMat sc ae) with
      | none => go rest judged false
      | some kappa =>
        -- solver + power iteration: 4096·p·κ∞·u; plus the first-order effect of the rounding the INPUT
        -- statistics unavoidably carry when they are computed in f64 from the rows (any algorithm):
        -- ‖δf‖/‖f‖ ≤ κ∞(A)·(‖δd‖/‖d‖ + ‖δS‖/‖A‖), with the exact a-priori bounds `dd ≥ ‖δd‖∞`,
        -- `dS ≥ ‖δS‖∞` of a centred two-pass computation (see `inputPerturbation`), doubled
        let dn := Q.normInfV d
        let bound := (4096 * (p : Rat)) * kappa * Q.dyadicInv 53 * rho
          + 2 * kappa * ((if dn = 0 then 0 else dd / dn) + dS / Q.normInfM ae)
        if bound > 1 / 10 then go rest judged false else
        match Q.solveExact ae (d.map fun x => [x]) with
        | none => go rest judged false
        | some f =>
          let f := List.zipWith (fun r t => r.getD 0 0 / t) f sc
          let w := List.zipWith (· / ·) w sc
          let (num, den) := Q.sin2 w f
          if Q.dotq w f ≥ 0 && decide (num ≤ bound * bound * den) then ("ok", some (bound, sc))
          else if first && strict then ("bad:not_fisher", none)
          else go rest (judged || first) false
  let (v, b) := go ladderQ false true
  if v == "bad:not_fisher" then
    -- the power method starts from the overall mean; say so when that start is (almost) orthogonal
    -- to the class-mean difference, the one situation in which one exact step does not reach the
    -- Fisher direction
    let (num, den) := Q.sin2 d s.xbar
    if den = 0 || decide (den - num < den / 100000000) then ("bad:not_fisher_start_orthogonal", none) else (v, b)
  else (v, b)

def specLda (n p : Nat) (feats : Mat Float) (decoy : List Bool) (perm : List Nat) (impl : List String) : String :=
  if impl == ["panic"] then (if decoy.length == n then "bad:panic" else "ok") else
  match parseOptVecs impl with
  | none => "bad:unparsable_reply"
  | some ws =>
    if !(feats.all fun r => r.all Float.isFinite) then "na" else
    let nd := (decoy.filter id).length
    let nt := decoy.length - nd
    if nd == 0 || nt == 0 then
      (if ws.all Option.isNone then "ok" else "bad:fitted_with_empty_class") else
    if p == 0 then "na" else
    let fq := matQ feats
    let s := stats fq decoy p
    let fq' := perm.map fun k => fq.getD k []
    let decoy' := perm.map fun k => decoy.getD k false
    let s' := stats fq' decoy' p
    let pert := inputPerturbation fq decoy s p
    let judge (s : Stats Rat) (w : Option (List Nat)) : String × Option (Rat × List Rat) :=
      match w with
      | none =>
        -- "reports failure" is allowed by the property text, also when the failure is spurious in the
        -- sense that the EXACT run of the same elimination fails too (observation
        -- corpus/C15/observation-spurious-failure-*.req, theorem solve_fails_on_spd_witness); but not when
        -- the exact run succeeds at ε₀ on a well-conditioned S_w + ε₀I
        (match Q.cond (Q.addDiag s.sw (ladderQ.headD 0)) with
         | some kappa =>
           if kappa ≤ kappaStrict && exactRunOk p s.sw s.sb then "bad:failure_where_exact_run_succeeds" else "ok"
         | none => "ok", none)
      | some bits =>
        if bits.length != p then ("bad:direction_length", none) else
        if !(bits.all finiteBits) then ("na", none) else
        judgeDir p s pert.1 pert.2 (bits.map fun b => (ratOfF64Bits b).getD 0)
    -- narrow signature of the known finding C15-tiny-scale-early-stop: every |feature| ≤ 1e-7
    let tiny := fq.all fun r => r.all fun x => decide (Q.absq x ≤ 1 / 10000000)
    let relabel (v : String) : String := if v == "bad:not_fisher" && tiny then "bad:not_fisher_tiny_scale" else v
    let (v1, b1) := judge s (ws.getD 0 none)
    if v1.startsWith "bad" then relabel v1 else
    let (v2, b2) := judge s' (ws.getD 1 none)
    if v2.startsWith "bad" then relabel v2 ++ "_permuted" else
    match ws.getD 0 none, ws.getD 1 none, b1, b2 with
    | some w, some w', some (b1, sc), some (b2, _) =>
      -- same standardised coordinates as the Fisher clause (the exact statistics of the two row
      -- orders are equal: theorem `stats_perm`)
      let wq := List.zipWith (· / ·) (w.map fun b => (ratOfF64Bits b).getD 0) sc
      let wq' := List.zipWith (· / ·) (w'.map fun b => (ratOfF64Bits b).getD 0) sc
      let (num, den) := Q.sin2 wq wq'
      let b := b1 + b2
      if Q.dotq wq wq' ≥ 0 && decide (num ≤ b * b * den) then "ok" else "bad:row_order"
    | _, _, _, _ => if v1 == "na" || v2 == "na" then "na" else "ok"

def specGauss (n m : Nat) (a b : Mat Float) (impl : List String) : String :=
  if impl == ["panic"] then "bad:panic" else
  if !((a.all fun r => r.all Float.isFinite) && (b.all fun r => r.all Float.isFinite)) then "na" else
  let aq := matQ a
  if !(isPSD aq) then "na" else
  let bq := matQ b
  let eps0 := ladderQ.headD 0
  -- well-conditioned at ε₀ AND the exact run of the same elimination succeeds there
  let kappa0 := Q.cond (Q.addDiag aq eps0)
  let wc := match kappa0 with
    | some k => decide (k ≤ kappaStrict) && exactRunOk n aq bq
    | none => false
  match impl with
  | ["0"] =>
    -- "reports failure" is allowed by the property text, also when the exact run fails too
    -- (observation corpus/C15/observation-spurious-failure-block-diagonal.req); not otherwise
    if wc then "bad:failure_where_exact_run_succeeds" else "ok"
  | "1" :: rest =>
    match run (listN nat (n * m)) rest with
    | none => "bad:unparsable_reply"
    | some bits =>
      if !(bits.all finiteBits) then "bad:nonfinite_solution" else
      let x : Mat Rat := chunk n m (bits.map fun v => (ratOfF64Bits v).getD 0)
      -- strict clause: the solution of the FIRST regulariser, to elimination accuracy
      let tauStrict : Rat := match kappa0 with
        | some k => Q.minq tauGauss (4096 * (n : Rat) * k * Q.dyadicInv 53 * growthFactor n aq bq)
        | none => tauGauss
      let okSome := Q.gaussOk tauGauss ladderQ aq x bq m
      if wc && okSome && !(Q.gaussOk tauStrict [eps0] aq x bq m) then "bad:not_first_regulariser" else
      if okSome then "ok" else
      -- narrow signature of the known finding C15-silently-wrong-singular-illscaled: A is exactly
      -- singular (exact-ℚ rank < n) AND max |A_ij| ≥ 1e8 (the first regularisers are absorbed)
      let singular := (Q.solveExact aq (Q.identity n)).isNone
      let big := decide (aq.foldl (fun mx r => Q.maxq mx (Q.normInfV r)) 0 ≥ 100000000)
      if singular && big then "bad:silently_wrong_singular_illscaled" else
      -- narrow signature of the finding C15-silently-wrong-tiny-pivot: the EXACT run of the elimination at
      -- ε₀ already has a multiplier ≥ 1e12 (REPAIRED in /repo: the former signed-max pivot search chose a regulariser-sized entry
      -- such as -(5/13)·1e-8 over entries of size 1e6), so the f64 run is rounding noise from there on
      if decide (growthFactor n aq bq ≥ 1000000000000) then "bad:silently_wrong_tiny_pivot" else
      "bad:silently_wrong"
  | _ => "bad:unparsable_reply"

/-! ### scorepsms -/

def psm : P PsmRec := do
  let label ← int; let rank ← nat; let charge ← nat
  let hyperscore ← f64; let deltaNext ← f64; let deltaBest ← f64
  let deltaMass ← f32; let isotopeError ← f32; let averagePpm ← f32
  let poisson ← f64; let matchedIntensityPct ← f32
  let matchedPeaks ← nat; let longestB ← nat; let longestY ← nat; let peptideLen ← nat
  let missedCleavages ← nat
  let alignedRt ← f32; let ims ← f32; let deltaRtModel ← f32; let deltaImsModel ← f32
  let longestYPct ← f32
  pure { label, rank, charge, hyperscore, deltaNext, deltaBest, deltaMass, isotopeError, averagePpm,
         poisson, matchedIntensityPct, matchedPeaks, longestB, longestY, peptideLen, missedCleavages,
         alignedRt, ims, deltaRtModel, deltaImsModel, longestYPct }

/-- `x.ln_1p()` is finite iff `x` is finite and `x > -1` -/
def ln1pFinite (x : Float) : Bool := x.isFinite && decide (x > -1.0)

/-- does the feature transform of `score_psms` produce a non-finite entry for this record?
    (`poisson` is masked to 3.5, `delta_mass` goes through the KDE model and is not judged here) -/
def transformNonFinite (q : PsmRec) : Bool :=
  !(ln1pFinite q.hyperscore && ln1pFinite q.deltaNext && ln1pFinite q.deltaBest
    && q.isotopeError.isFinite && q.averagePpm.isFinite && ln1pFinite q.matchedIntensityPct.toFloat
    && q.peptideLen != 0 && q.alignedRt.isFinite && q.ims.isFinite
    && !q.deltaRtModel.isNaN && !q.deltaImsModel.isNaN)

/-- is this a value that only `clamp(0.001, 0.999)` keeps from making `sqrt` non-finite (±inf or
    negative; a NaN passes through the clamp and is NOT guarded) -/
def guardedClamp (x : Float32) : Bool :=
  !x.isNaN && (!x.isFinite || decide (x.toFloat < 0.0))

/-- independent f64 evaluation of `ln_1p` on an f32 argument (Kahan's correction) -/
def ln1pRef (x32 : Float32) : Float32 :=
  let x := x32.toFloat
  if x.isNaN then x32 else
  if x == Float.ofBits 0x7FF0000000000000 then x32 else
  let u := 1.0 + x
  (if u == 1.0 then x else Float.log u * x / (u - 1.0)).toFloat32

def f32Q (x : Float32) : Rat := (ratOfF32Bits x.toBits.toNat).getD 0

/-- independent f64 evaluation of `ln_1p` (Kahan's correction), a few ulps accurate -/
def ln1pRef64 (x : Float) : Float :=
  if x.isNaN then x else
  if x == Float.ofBits 0x7FF0000000000000 then x else
  let u := 1.0 + x
  if u == 1.0 then x else Float.log u * x / (u - 1.0)

def closeF64 (want got : Float) (ulps : Nat) : Bool :=
  (want.isNaN && got.isNaN) || (!want.isNaN && !got.isNaN && ulpDistF64 want got ≤ ulps)

def aux : P PsmAux := do
  let pe ← f64
  let a ← f64; let b ← f64; let c ← f64; let d ← f64; let e ← f64; let f ← f64; let g ← f64; let h ← f64
  pure ⟨pe, a, b, c, d, e, f, g, h⟩

def handleScorePsms (args impl : List String) : Option Reply := do
  let ps ← run (list psm) args
  let n := ps.length
  let parsed := run (do
    let fitted ← bool
    let k ← nat
    let l ← listN (do let s ← f32; let l ← f32; let a ← aux; pure (s, l, a)) k
    pure (fitted, l)) impl
  match parsed with
  | none =>
    pure { model := "unparsed-impl-reply", agree := false,
           spec := if impl == ["panic"] then "bad:panic" else "bad:unparsable_reply" }
  | some (fitted, rows) =>
    if rows.length != n then
      pure { model := "length", agree := false, spec := "bad:length" }
    else
    let nd := (ps.filter fun q => q.label == -1).length
    let nt := n - nd
    -- the whole of score_psms, run by the model on the 20-column matrix it rebuilds
    let fit := scorePsmsModel (ps.zip (rows.map fun r => r.2.2))
    let fittedM := fit.isSome
    -- the fallback of Runner::spectrum_fdr, bit-exact in f32 from the implementation's ln_1p value
    let scoresM : List Float32 :=
      match fit with
      | some sc => sc
      | none => (ps.zip rows).map fun (q, r) =>
        fallback (α := Float32) (β := Float) Float.toFloat32 (fun _ => r.2.1) 3.0 q.poisson q.longestYPct
    let outAux (a : PsmAux) : List String :=
      [a.pe, a.lnHyperscore, a.lnDeltaNext, a.lnDeltaBest, a.lnNegPoisson, a.lnMatchedIntensityPct,
       a.lnLongestB, a.lnLongestY, a.lnPeptideLen].map outF
    let model := join (outBool fittedM :: toString n ::
      ((scoresM.zip rows).flatMap fun (s, r) => [outF32c s, outF32c r.2.1] ++ outAux r.2.2))
    -- spec on the implementation's reply
    let scores := rows.map (·.1)
    let spec : String :=
      let badLn := (ps.zip rows).any fun (q, r) =>
        let want := ln1pRef (-q.poisson).toFloat32
        !((want.isNaN && r.2.1.isNaN) || (!want.isNaN && !r.2.1.isNaN && ulpDistF32 want r.2.1 ≤ 4))
      let badLn64 := (ps.zip rows).any fun (q, r) =>
        let a := r.2.2
        !(closeF64 (ln1pRef64 q.hyperscore) a.lnHyperscore 16 && closeF64 (ln1pRef64 q.deltaNext) a.lnDeltaNext 16
          && closeF64 (ln1pRef64 q.deltaBest) a.lnDeltaBest 16 && closeF64 (ln1pRef64 (-q.poisson)) a.lnNegPoisson 16
          && closeF64 (ln1pRef64 q.matchedIntensityPct.toFloat) a.lnMatchedIntensityPct 16
          && closeF64 (ln1pRef64 (Float.ofNat q.longestB)) a.lnLongestB 16
          && closeF64 (ln1pRef64 (Float.ofNat q.longestY)) a.lnLongestY 16
          && closeF64 (ln1pRef64 (Float.ofNat q.peptideLen)) a.lnPeptideLen 16)
      if badLn || badLn64 then "bad:ln1p_value" else
      if fitted && (nd == 0 || nt == 0 || ps.any transformNonFinite) then "bad:fitted_despite_unfittable_input" else
      -- a fittable model is fitted: the model's own run of score_psms (bit-exact on the unchanged code) fits the
      -- table with finite scores, so the implementation has no excuse to return None (e.g. a mass-error KDE with
      -- a single bin under a narrow dalton tolerance)
      if !fitted && (match fit with | some sc => sc.all Float32.isFinite | none => false) then "bad:fittable_not_fitted" else
      -- the guards of the feature transform: a value they replace (poisson whose ln_1p(-poisson) is not
      -- finite -> 3.5; delta_rt/ims_model outside [0.001, 0.999], incl. ±inf -> clamped) must not keep a
      -- fittable set from being fitted. `fit` is the model's run WITH the guards (theorem
      -- featureRow_finite); this clause is NOT `na` for non-finite inputs.
      let guardedField (q : PsmRec) : Bool :=
        !(ln1pFinite (-q.poisson)) || guardedClamp q.deltaRtModel || guardedClamp q.deltaImsModel
      let fittableGuarded := ps.any guardedField &&
        (match fit with | some sc => sc.all Float32.isFinite | none => false)
      if fittableGuarded && !(fitted && scores.all Float32.isFinite) then "bad:nonfinite_feature_not_guarded" else
      if !(scores.all Float32.isFinite) then
        (if fitted then "bad:nonfinite_score_fitted"
         -- the fit legitimately failed: the fallback is judged on its domain, record by record (theorem
         -- fallback_finite: poisson finite and ≤ 0, longest_y_pct finite); a non-finite fallback score of
         -- a record whose poisson is outside the domain is `na` (scoring.rs no longer produces -inf)
         else if (ps.zip scores).any (fun (q, sc) => !sc.isFinite &&
                   q.poisson.isFinite && decide (q.poisson ≤ 0.0) && q.longestYPct.isFinite)
           then "bad:nonfinite_fallback" else "na") else
      if fitted then
        let sumT := ((ps.zip scores).filter fun (q, _) => q.label != -1).foldl (fun a (_, s) => a + f32Q s) (0 : Rat)
        let sumD := ((ps.zip scores).filter fun (q, _) => q.label == -1).foldl (fun a (_, s) => a + f32Q s) (0 : Rat)
        let absSum := scores.foldl (fun a s => a + Q.absq (f32Q s)) (0 : Rat)
        -- allowance: one f32 rounding per score (2^-24 relative) on each side
        let allow := Q.dyadicInv 22 * absSum / (n : Rat)
        if sumT / (nt : Rat) + allow < sumD / (nd : Rat) then "bad:targets_not_higher" else "ok"
      else "ok"
    pure (exact model (join impl) spec)

/-- The three known findings are behaviours of the UNCHANGED algorithm, which the model reproduces
    bit-exactly: their narrow verdicts are kept only when the implementation's reply equals the model's;
    a different wrong answer on the same kind of input is reported under the general clause -/
def narrowKnown (agree : Bool) (v : String) : String :=
  if agree then v else
  ((((v.replace "bad:silently_wrong_singular_illscaled" "bad:silently_wrong").replace
      "bad:silently_wrong_tiny_pivot" "bad:silently_wrong").replace
      "bad:not_fisher_tiny_scale" "bad:not_fisher").replace
      "bad:not_fisher_start_orthogonal" "bad:not_fisher")

def exactNarrow (model impl spec : String) : Reply :=
  let r := exact model impl spec
  { r with spec := narrowKnown r.agree r.spec }

/-! ### large tables in explicit rayon pools (`ldabig`, `scorepsmst`) -/

/-- the direction as the harness reads it back (`score(identity)`) -/
def outDir (p : Nat) (w : Option (Vec Float)) : String :=
  match w with
  | none => "0"
  | some w =>
    let ident : Mat Float := (List.range p).map fun i => (List.range p).map fun j => if i = j then 1.0 else 0.0
    let r := score w ident
    let bad := r.any fun x => !x.isFinite
    join ("1" :: toString p :: r.map fun x => if bad then toString qnan64 else outF x)

/-- are two reported directions within `b` of each other (sine of the angle, same orientation)? -/
def sameDir (b : Rat) (w w' : List Nat) : Bool :=
  let wq := w.map fun x => (ratOfF64Bits x).getD 0
  let wq' := w'.map fun x => (ratOfF64Bits x).getD 0
  let (num, den) := Q.sin2 wq wq'
  Q.dotq wq wq' ≥ 0 && decide (num ≤ b * b * den)

/-- `ldabig n p F decoy perm k t1..tk | W_t1 .. W_tk W'`: linear-time parsing (arrays), the model's `train`
    once for the given order and once for the permuted one (the unchanged `Matrix::mean` is an indexed
    parallel map over COLUMNS with a sequential sum per column, so the result cannot depend on the pool),
    exact ℚ statistics once (they are permutation invariant: theorem `stats_perm`).
    Spec: Fisher clause on the first pool's direction; every other pool's direction and the permuted one
    must lie within the same bound of it (`bad:thread_dependent`, `bad:row_order`). -/
def handleLdaBig (args impl : List String) : Option Reply := do
  let a := args.toArray
  let n ← (a[0]?).bind String.toNat?
  let p ← (a[1]?).bind String.toNat?
  let base := 2 + n * p
  let k ← (a[base + 2 * n]?).bind String.toNat?
  if a.size != base + 2 * n + 1 + k then none else
  let fl (i : Nat) : Float := Float.ofBits ((a[i]!).toNat!.toUInt64)
  let F : Array (List Float) := (Array.range n).map fun r => (List.range p).map fun j => fl (2 + r * p + j)
  let decoy : Array Bool := (Array.range n).map fun i => a[base + i]! != "0"
  let perm : Array Nat := (Array.range n).map fun i => (a[base + n + i]!).toNat!
  if perm.any (· ≥ n) then none else
  let w := train constsF Float.sqrt F.toList decoy.toList p
  let w' := train constsF Float.sqrt (perm.map fun r => F[r]!).toList (perm.map fun r => decoy[r]!).toList p
  let model := join ((List.replicate k (outDir p w)) ++ [outDir p w'])
  let spec : String :=
    if impl == ["panic"] then "bad:panic" else
    match run (listN (opt (list nat)) (k + 1)) impl with
    | none => "bad:unparsable_reply"
    | some ws =>
      if !(F.all fun r => r.all Float.isFinite) then "na" else
      let nd := (decoy.toList.filter id).length
      if nd == 0 || nd == n || p == 0 then "na" else
      let fq : Mat Rat := F.toList.map fun r => r.map toQ
      let s := stats fq decoy.toList p
      let pert := inputPerturbation fq decoy.toList s p
      match ws.headD none with
      | none =>
        (match Q.cond (Q.addDiag s.sw (ladderQ.headD 0)) with
         | some kappa =>
           if kappa ≤ kappaStrict && exactRunOk p s.sw s.sb then "bad:failure_where_exact_run_succeeds" else "ok"
         | none => "ok")
      | some w1 =>
        if w1.length != p then "bad:direction_length" else
        if !(w1.all finiteBits) then "na" else
        let (v1, b1) := judgeDir p s pert.1 pert.2 (w1.map fun b => (ratOfF64Bits b).getD 0)
        if v1.startsWith "bad" then v1 else
        match b1 with
        | none => v1
        | some (b, _) =>
          -- both directions within `b` of the exact one, hence within `2b` of each other
          let others := (ws.drop 1).take (k - 1)
          if others.any (fun o => match o with
              | some wt => !(wt.length == p && wt.all finiteBits && sameDir (2 * b) w1 wt)
              | none => true) then "bad:thread_dependent" else
          match ws.getD k none with
          | some wp => if wp.length == p && wp.all finiteBits && sameDir (2 * b) w1 wp then "ok" else "bad:row_order"
          | none => "bad:row_order"
  pure (exactNarrow model (join impl) spec)

/-! ### `fdrrun`: the REAL `Runner::run`, whose private `spectrum_fdr` holds the heuristic fallback -/

structure FdrRow where
  label : Int
  poisson : Float
  lyp : Float32
  disc : Float32
  ln1p : Float32
  sq : Float32

def fdrRow : P FdrRow := do
  let label ← int; let poisson ← f64; let lyp ← f32; let disc ← f32; let ln1p ← f32; let sq ← f32
  pure { label, poisson, lyp, disc, ln1p, sq }

/-- the order `f32::total_cmp` sorts by, as an integer key (−0.0 below +0.0, NaNs at the ends) -/
def totalKey (x : Float32) : Int :=
  let n : Int := x.toBits.toNat
  if n ≥ 2147483648 then (2147483647 : Int) - n else n

/-- the single f32 division `decoy as f32 / target as f32` of an exact ratio (as in the C12 driver) -/
def qToF32 (q : Rat) : Float32 := Float32.ofNat q.num.toNat / Float32.ofNat q.den

/-- spectrum q-values = the C12 definition (`Sage.C12.spectrumQ` on the label sequence) applied to the PSMs
    in decreasing REPORTED discriminant score. The code sorts with `par_sort_unstable_by(total_cmp)`: PSMs
    with bit-identical scores may come in any order, so a tie between a target and a decoy leaves the
    definition undecided (`na`); a tie within one class does not matter. NaN scores: `na`. -/
def specQ (rows : List FdrRow) : String :=
  if rows.any (fun r => r.disc.isNaN) then "na" else
  -- inside a group of bit-identical scores the code's order is unspecified; the definition's q-values never
  -- decrease down the list (C12.q_monotone), so within a group the reported q-values are matched in
  -- increasing order
  let sorted := (rows.toArray.qsort (fun a b =>
    totalKey a.disc > totalKey b.disc || (totalKey a.disc == totalKey b.disc && totalKey a.sq < totalKey b.sq))).toList
  let rec mixedTie : List FdrRow → Bool
    | a :: b :: rest => (totalKey a.disc == totalKey b.disc && a.label != b.label) || mixedTie (b :: rest)
    | _ => false
  -- (a tie group with both labels always has two ADJACENT members of different label after sorting only if
  --  the group is contiguous, which it is; compare every adjacent pair of the group)
  if mixedTie sorted then "na" else
  let labels := sorted.map fun r => r.label == -1
  let qs := (Sage.C12.spectrumQ labels).1
  if qs.length != sorted.length then "bad:spectrum_q_ne_definition_in_score_order" else
  if (sorted.zip qs).all (fun (r, q) => r.sq.toBits == (qToF32 q).toBits) then "ok"
  else "bad:spectrum_q_ne_definition_in_score_order"

/-- `fdrrun decoys predict_rt fasta mgf | n (label poisson lyp disc ln1p spectrum_q)*n`.
    When only one class is present among the reported PSMs the LDA cannot have been fitted (`train` has an
    empty class: `score_psms` returns `None`), so `Runner::spectrum_fdr` must have written the heuristic
    `(-poisson as f32).ln_1p() + longest_y_pct / 3.0`: the model recomputes it bit-exactly in `Float32`
    (one f64→f32 cast, one f32 division, one f32 addition) from the implementation's own `poisson` and
    `longest_y_pct`; `ln_1p` is not available in Lean, so its value is DATA from the harness (Rust's
    `f32::ln_1p` of the same argument), accepted only within 4 f32 ulps of an independent f64 evaluation
    (`ln1pRef`: `log(1+x)·x/((1+x)−1)`). Spec: every in-domain PSM (poisson finite and ≤ 0, longest_y_pct
    finite) has a finite score (`bad:fallback_not_finite`) equal to the heuristic (`bad:fallback_ne_heuristic`),
    and — fitted or not — the spectrum q-values equal the C12 definition in reported score order
    (`bad:spectrum_q_ne_definition_in_score_order`, see `specQ`). -/
def handleFdrRun (impl : List String) : Option Reply := do
  if impl == ["panic"] then
    return { model := "-", agree := false, spec := "bad:panic" }
  match impl with
  | [e] => if e.startsWith "err:" then return { model := "-", agree := false, spec := "bad:" ++ e } else pure ()
  | _ => pure ()
  let rows ← run (list fdrRow) impl
  let single := rows.all (fun r => r.label == 1) || rows.all (fun r => r.label == -1)
  let heuristic (r : FdrRow) : Float32 :=
    fallback (α := Float32) (β := Float) Float.toFloat32 (fun _ => r.ln1p) 3.0 r.poisson r.lyp
  let discM : List Float32 := rows.map fun r => if single then heuristic r else r.disc
  let model := join (toString rows.length ::
    ((rows.zip discM).flatMap fun (r, d) =>
      [toString r.label, outF r.poisson, outF32c r.lyp, outF32c d, outF32c r.ln1p, outF32c r.sq]))
  let spec : String :=
    let badLn := rows.any fun r =>
      let want := ln1pRef (-r.poisson).toFloat32
      !((want.isNaN && r.ln1p.isNaN) || (!want.isNaN && !r.ln1p.isNaN && ulpDistF32 want r.ln1p ≤ 4))
    if badLn then "bad:ln1p_value" else
    let inDomain (r : FdrRow) : Bool := r.poisson.isFinite && decide (r.poisson ≤ 0.0) && r.lyp.isFinite
    if rows.any (fun r => inDomain r && !r.disc.isFinite) then "bad:fallback_not_finite" else
    if single && (rows.zip discM).any (fun (r, d) => inDomain r && outF32c r.disc != outF32c d) then
      "bad:fallback_ne_heuristic" else
    -- whether or not the LDA was fitted: the spectrum q-values are the C12 definition in REPORTED score order
    specQ rows
  pure (exact model (join impl) spec)

def handle (op : String) (args impl : List String) : Option Reply :=
  match op with
  | "gauss" => do
    let (n, m, a, b) ← run (do
      let n ← nat; let m ← nat
      let a ← listN f64 (n * n)
      let b ← listN f64 (n * m)
      pure (n, m, a, b)) args
    let A := chunk n n a
    let B := chunk n m b
    let model := match solve constsF n A B with
      | none => "0"
      | some x => join ("1" :: x.flatten.map outF)
    pure (exactNarrow model (join impl) (specGauss n m A B impl))
  | "lda" => do
    let (n, p, f, decoy, perm) ← run (do
      let n ← nat; let p ← nat
      let f ← listN f64 (n * p)
      let d ← listN bool n
      let perm ← listN nat n
      pure (n, p, f, d, perm)) args
    let F := chunk n p f
    let outW (w : Option (Vec Float)) : String :=
      match w with
      | none => "0"
      | some w =>
        -- the harness reads the private eigenvector back as `score(identity)`
        let ident : Mat Float := (List.range p).map fun i => (List.range p).map fun j => if i = j then 1.0 else 0.0
        let r := score w ident
        let bad := r.any fun x => !x.isFinite
        join ("1" :: toString p :: r.map fun x => if bad then toString qnan64 else outF x)
    let w := train constsF Float.sqrt F decoy p
    let F' := perm.map fun k => F.getD k []
    let decoy' := perm.map fun k => decoy.getD k false
    let w' := train constsF Float.sqrt F' decoy' p
    let model := outW w ++ " " ++ outW w'
    pure (exactNarrow model (join impl) (specLda n p F decoy perm impl))
  | "scorepsms" => handleScorePsms args impl
  | "ldabig" => handleLdaBig args impl
  | "fdrrun" => handleFdrRun impl
  | "scorepsmst" => handleScorePsms (args.drop 1) impl
  | "scorepsmstol" =>
    -- `kind lo hi` then the scorepsms request; reply `bins` then the scorepsms reply. The bin count the harness
    -- used for the KDE data must be the one the model derives from the tolerance (`massModelBins`)
    match args, impl with
    | k :: lo :: hi :: rest, b :: irest =>
      (match k.toNat?, lo.toNat?, hi.toNat?, b.toNat? with
       | some k, some lo, some hi, some b =>
         let want := massModelBins k (Float32.ofBits lo.toUInt32) (Float32.ofBits hi.toUInt32)
         (handleScorePsms rest irest).map fun r =>
           { r with model := toString want ++ " " ++ r.model, agree := r.agree && b == want }
       | _, _, _, _ => none)
    | _, ["panic"] => some { model := "-", agree := false, spec := "bad:panic" }
    | _, _ => none
  | _ => none

end Sage.C15
