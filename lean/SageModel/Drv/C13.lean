import SageModel.Proto
import SageModel.Model.C13

/-! Driver ops for C13 (formats: see `harness/src/ops/c13.rs`).

```
DB    := gd tag npep { decoy seq nmod { pos f32 } nterm(opt f32) cterm(opt f32) nprot { name } }
FEATS := nfeat { peptide_idx score(f32) }
pickpep | pickprot  DB FEATS | passing nfeat { q }  ntab { score pep }  nord { psm-index }     (or `panic`)
pickprec n { kind ix charge decoy score(f64) } | passing n { q } nord { entry-index }
permpep | permprot  DB FEATS nperm { i } | passingA n { qA } passingB n { qB }
permprec n {…} nperm { i } | passingA n { qA } passingB n { qB }
```

The model runs at `σ := Int` (the `total_cmp` key of the f32 score: the order the sort uses) and
`α := Float32`: the same additions, divisions and comparisons in the same order as the Rust code.

What is compared, and how exactly:
* `pickprec`: bit-exact (counts only; `usize as f32` casts and one IEEE division per row).
* `pickpep` / `pickprot`: the PEP of each row score is DATA taken from the implementation's fitted
  estimator (`ntab`). With it the model's float operations are the code's, so q-values normally agree bit
  for bit. They are nevertheless compared within `rows + 2` ulp: the harness has to fit its own copy of the
  estimator (the one inside `assign_q_value` is not reachable) and the fit is a long f64 summation whose
  last bits depend on the sample order (= hash-map iteration order); a PEP that differs in its last f32 bit
  moves the running `decoy` sum by at most one ulp per row (`decoy ≥ 1 ≥ pep`). Structure (who shares a q,
  the passing count, panics) is exact. The reported iteration order (`nord`) is no longer used: since /repo
  1f05eb8 the sort key (score, decoy flag, index) is total and the model's result is the same for every
  order (`order_invariant`).
* `perm*`: implementation against itself under a permutation of the supply order, same bound (the two
  fits see their samples in different orders). Any difference beyond it is a violation:
  `bad:order_dependent` (no repeated score) / `bad:order_dependent_tie` (some rows share a score).
-/
namespace Sage.C13
open Sage.Proto

/-- key of an f32 bit pattern in `total_cmp` order -/
def scoreKey (bits : Nat) : Int :=
  if bits ≥ 2147483648 then -((bits - 2147483648 : Nat) : Int) - 1 else (bits : Int)

/-- `f32::MIN` = 0xFF7FFFFF -/
def botKey : Int := scoreKey 4286578687
/-- `-∞` -/
def negInfKey : Int := scoreKey 4286578688

def thrPep : Float32 := Float32.ofBits 1008981770   -- 0.01f32
def thrPrec : Float32 := Float32.ofBits 1028443341  -- 0.05f32

def pPep : P Pep := do
  let decoy ← bool
  let seq ← bytes
  let mods ← list (do let i ← nat; let b ← nat; pure (i, b))
  let nterm ← opt nat
  let cterm ← opt nat
  let prots ← list str
  let modv := (List.range seq.length).map fun i =>
    match mods.reverse.find? (fun m => m.1 == i) with
    | some m => m.2
    | none => 0
  pure { decoy, seq := seq.map (·.toNat), mods := modv, nterm, cterm, prots }

def pDb : P (Bool × String × List Pep) := do
  let gd ← bool
  let tag ← str
  let peps ← list pPep
  pure (gd, tag, peps)

def pFeats : P (List (Nat × Nat)) := list (do let i ← nat; let s ← nat; pure (i, s))

def f32OfBits (b : Nat) : Float32 := Float32.ofBits b.toUInt32

def renderResult (passing : Nat) (qs : List Float32) : String :=
  toString passing ++ " " ++ outList outF32 qs

def pResult : P (Nat × List Nat) := do
  let p ← nat
  let q ← list nat
  pure (p, q)

def nodup {β} [DecidableEq β] (l : List β) : Bool := l.eraseDups.length == l.length

def withinUlps (tol : Nat) (a b : List Float32) : Bool :=
  a.length == b.length && (a.zip b).all fun p => ulpDistF32 p.1 p.2 ≤ tol

def isPerm (n : Nat) (l : List Nat) : Bool := l.length == n && nodup l && l.all (· < n)

/-- features with their scores as `total_cmp` keys -/
def keyed (feats : List (Nat × Nat)) : List (Nat × Int) := feats.map fun f => (f.1, scoreKey f.2)

section generic
variable {κ ι : Type} [DecidableEq κ] [DecidableEq ι] [LE ι] [DecidableLE ι]

def pickReply (psms : List (Psm κ ι Int)) (impl : List String) : Reply :=
  let es0 := competition botKey psms
  let zero : Float32 := 0
  let one : Float32 := 1
  -- does the index lookup panic? (independent of pep values and of the iteration order)
  let panics := (pickedWith (fun _ => zero) Float32.ofNat one thrPep es0 psms).isNone
  if impl == ["panic"] then
    if panics then { model := "panic", agree := true, spec := "na" }
    else { model := "no-panic", agree := false, spec := "bad:panic" }
  else
  match run (do
      let r ← pResult
      let tab ← list (do let s ← nat; let p ← nat; pure (scoreKey s, f32OfBits p))
      let ord ← list nat
      pure (r, tab, ord)) impl with
  | none => { model := "unparsed-impl-reply", agree := false, spec := "na" }
  | some ((ip, iq), tab, ord) =>
    let iqs := iq.map f32OfBits
    let spec0 := specVerdict botKey zero one thrPep psms iqs ip
    -- theorem `nan_all`: when every PEP of the table is NaN (zero-variance class, C14's known finding)
    -- every q must be exactly 1.0 and nothing passes
    let allNaN := !tab.isEmpty && tab.all fun t => t.2.isNaN
    let spec := if spec0 == "ok" && allNaN && !(iqs.all (fun q => q.toBits == one.toBits) && ip == 0)
      then "bad:nan_pep_not_one" else spec0
    if panics then { model := "panic", agree := false, spec := spec } else
    let rows := rowsOf es0
    if !(rows.all fun r => tab.any fun t => t.1 == r.score) then
      { model := "pep-table-incomplete", agree := false, spec := spec } else
    let _ := ord
    let es := es0
    let pep (s : Int) : Float32 := match tab.find? (fun t => t.1 == s) with
      | some t => t.2
      | none => zero
    match pickedWith pep Float32.ofNat one thrPep es psms with
    | none => { model := "panic", agree := false, spec := spec }
    | some (qs, passing) =>
      let tol := rows.length + 2
      let tab := (assignQ pep Float32.ofNat one thrPep es).1
      let nearThr := tab.any fun rq => ulpDistF32 rq.2 thrPep ≤ tol
      { model := renderResult passing qs
        agree := withinUlps tol qs iqs && (passing == ip || nearThr)
        spec := spec }

/-- metamorphic: the implementation's two answers (original / permuted supply order) -/
def permReply (psms : List (Psm κ ι Int)) (impl : List String) : Reply :=
  let rows := rowsOf (competition botKey psms)
  let tieFree := nodup (rows.map (·.score))
  -- the model's prediction (`order_invariant`, ties included)
  let model := "invariant"
  if impl == ["panic"] then { model := model, agree := true, spec := "na" } else
  match run (do let a ← pResult; let b ← pResult; pure (a, b)) impl with
  | none => { model := "unparsed-impl-reply", agree := false, spec := "na" }
  | some ((pa, qa), (pb, qb)) =>
    let tol := rows.length + 2
    let fa := qa.map f32OfBits
    let fb := qb.map f32OfBits
    let nearThr := fa.any fun q => ulpDistF32 q thrPep ≤ tol
    let same := withinUlps tol fa fb && (pa == pb || nearThr)
    if same then { model := model, agree := true, spec := "ok" }
    else if tieFree then { model := model, agree := false, spec := "bad:order_dependent" }
    else { model := model, agree := false, spec := "bad:order_dependent_tie" }

end generic

/-- `PrecursorId` in its derived `Ord` (`Combined(ix)` < `Charged((ix, charge))`, then the fields) as a
    number, times two plus the decoy bit: unique per map key `(id, decoy)`; rows that tie in score and
    decoy flag compare by `id` exactly as these numbers do -/
def precIx (kind ix charge : Nat) (decoy : Bool) : Nat :=
  2 * (kind * 2^40 + ix * 256 + charge) + (if decoy then 1 else 0)

/-- precursor entries: `(row index, decoy, total_cmp key of (score as f32))` -/
def pPeaks : P (List (Nat × Bool × Int)) :=
  list (do
    let kind ← nat
    let ix ← nat
    let charge ← nat
    let decoy ← bool
    let s ← f64
    pure (precIx kind ix charge decoy, decoy, scoreKey s.toFloat32.toBits.toNat))

def precPsms (entries : List (Nat × Bool × Int)) : List (Psm Nat Nat Int) :=
  entries.map fun e => { key := e.1, decoy := e.2.1, ix := e.1, score := e.2.2 }


/-! ### large tables (`bigpick`, `bigprec`)

Both sides generate the table from the seed with the same integer formulas (splitmix64 finaliser), so the
request is short and the driver knows every PSM: entity, decoy flag and score (an integer `m`; the f32 score
is `(m - 131070) / 32768`, exact, so comparing scores is comparing `m`). The Lean MODEL is not run at this size
(its competition map is an association list, quadratic); what is checked is the implementation against itself
under three supply orders / pool sizes (`bad:order_dependent`) and the property's clauses on each of its
answers, evaluated with arrays in O(n log n): `range`, `same_entity`, `antitone`, `count`. -/

def mix64 (z : UInt64) : UInt64 :=
  let z := (z ^^^ (z >>> 30)) * 0xBF58476D1CE4E5B9
  let z := (z ^^^ (z >>> 27)) * 0x94D049BB133111EB
  z ^^^ (z >>> 31)

def hsh (seed i salt : UInt64) : UInt64 :=
  mix64 (seed + (i + 1) * 0x9E3779B97F4A7C15 + salt * 0xD1B54A32D192ED03)

def bell (x : UInt64) : Int :=
  let k : UInt64 := 0xFFFF
  (((x &&& k) + ((x >>> 16) &&& k) + ((x >>> 32) &&& k) + ((x >>> 48) &&& k)).toNat : Int)

/-- a PSM of a large table: peptide-level entity, protein-level entity, decoy flag, integer score -/
structure BigPsm where
  pep : Nat
  prot : Nat
  decoy : Bool
  m : Int

/-- mirror of `big_table` in harness/src/ops/c13.rs -/
def bigTable (seed : UInt64) (n : Nat) (mixk : Nat) (gd : Bool) : Array BigPsm := Id.run do
  let confCut : UInt64 := if mixk == 0 then 4 else 7
  let nullCut : UInt64 := if mixk == 0 then 7 else 9
  let mut out : Array BigPsm := Array.mkEmpty (2 * n)
  for i in [0:n] do
    let iu := i.toUInt64
    let c := hsh seed iu 1 % 10
    let g := if i > 0 && (hsh seed iu 3 &&& 3) == 0 then i - 1 else i
    let hasExtra := (hsh seed iu 4 &&& 7) == 0
    let extraDrop : Int := 1 + ((hsh seed iu 5 % 40000).toNat : Int)
    if !gd then
      let decoy := c ≥ nullCut
      let m := bell (hsh seed iu 2) + (if c < confCut then 196608 else 0)
      -- protein-level entity: the group name, told apart by the decoy prefix
      let e : BigPsm := { pep := i, prot := 2 * g + (if decoy then 1 else 0), decoy, m }
      out := out.push e
      if hasExtra then out := out.push { e with m := m - extraDrop }
    else
      let conf := c < confCut + 2
      if hsh seed iu 7 % 10 != 0 then
        let m := bell (hsh seed iu 2) + (if conf then 196608 else 0)
        let e : BigPsm := { pep := 2 * i, prot := 2 * g, decoy := false, m }
        out := out.push e
        if hasExtra then out := out.push { e with m := m - extraDrop }
      if hsh seed iu 6 % 10 < 6 then
        out := out.push { pep := 2 * i + 1, prot := 2 * g + 1, decoy := true, m := bell (hsh seed iu 8) }
  return out

/-- the clauses on ONE answer: `ent` = entity of each PSM (dense ids below `nEnt`), `q` per PSM -/
def bigClauses (nEnt : Nat) (ent : Array Nat) (decoy : Array Bool) (m : Array Int) (q : Array Float32)
    (passing : Nat) (thr : Float32) : String := Id.run do
  if q.size != ent.size then return "bad:length"
  -- range
  for x in q do
    if !(x > 0 && x ≤ 1) then return "bad:range"
  -- same entity => same q ; best score per entity
  let mut eq : Array (Option Float32) := Array.replicate nEnt none
  let mut best : Array Int := Array.replicate nEnt 0
  let mut edec : Array Bool := Array.replicate nEnt false
  for k in [0:ent.size] do
    let e := ent[k]!
    match eq[e]! with
    | none =>
      eq := eq.set! e (some q[k]!)
      best := best.set! e m[k]!
      edec := edec.set! e decoy[k]!
    | some x =>
      if x.toBits != q[k]!.toBits then return "bad:same_entity"
      if m[k]! > best[e]! then best := best.set! e m[k]!
  -- entities, best score descending
  let mut es : Array (Int × Float32 × Bool) := Array.mkEmpty nEnt
  for e in [0:nEnt] do
    match eq[e]! with
    | some x => es := es.push (best[e]!, x, edec[e]!)
    | none => pure ()
  let sorted := es.qsort (fun a b => a.1 > b.1)
  -- antitone: every entity's q is at least the largest q among entities with a strictly higher best score
  let mut maxHigher : Float32 := 0
  let mut groupMax : Float32 := 0
  let mut cur : Int := 0
  let mut first := true
  let mut cnt := 0
  for (b, x, d) in sorted do
    if first || b != cur then
      if groupMax > maxHigher then maxHigher := groupMax
      groupMax := 0
      cur := b
      first := false
    if x < maxHigher then return "bad:antitone"
    if x > groupMax then groupMax := x
    if !d && x ≤ thr then cnt := cnt + 1
  if cnt != passing then return "bad:count"
  return "ok"

/-- rounding allowance between two runs of the implementation on a table with `rows` entities: the two KDE
    fits sum their samples in different orders (relative error ~ rows·2⁻⁵³), which flips the f32 rounding of a
    PEP for a small fraction of the rows; each flip moves the running `decoy` sum by at most one ulp -/
def bigTol (rows : Nat) : Nat := 2 + rows / 256

def sameWithin (tol : Nat) (a b : Array Float32) : Bool := Id.run do
  if a.size != b.size then return false
  for k in [0:a.size] do
    if ulpDistF32 a[k]! b[k]! > tol then return false
  return true

def handleBigPick (args impl : List String) : Option Reply := do
  let (seed, n, mixk, gd, _pm) ← run (do
    let s ← nat; let n ← nat; let m ← nat; let g ← bool; let p ← nat; pure (s, n, m, g, p)) args
  let tab := bigTable seed.toUInt64 n mixk gd
  let toks := impl.toArray
  if impl == ["panic"] then pure { model := "invariant", agree := false, spec := "bad:panic" } else
  let npsm := tab.size
  let blk := 2 + 2 * npsm
  if toks.size != 1 + 3 * blk || toks[0]!.toNat? != some npsm then
    pure { model := "unexpected-reply-size", agree := false, spec := "bad:length" } else
  let num (i : Nat) : Nat := (toks[i]!.toNat?).getD 0
  let qOf (o : Nat) (lvl : Nat) : Array Float32 :=
    (Array.range npsm).map fun k => f32OfBits (num (1 + o * blk + 2 + lvl * npsm + k))
  let passOf (o lvl : Nat) : Nat := num (1 + o * blk + lvl)
  let decoy := tab.map (·.decoy)
  let ms := tab.map (·.m)
  let entPep := tab.map (·.pep)
  let entProt := tab.map (·.prot)
  let nEnt := 2 * n + 2
  let verdict : String := Id.run do
    for lvl in [0:2] do
      let ent := if lvl == 0 then entPep else entProt
      let q0 := qOf 0 lvl
      for o in [0:3] do
        let q := qOf o lvl
        let v := bigClauses nEnt ent decoy ms q (passOf o lvl) thrPep
        if v != "ok" then return v
        if o > 0 then
          let tol := bigTol nEnt
          let near := q0.any fun x => ulpDistF32 x thrPep ≤ tol
          if !(sameWithin tol q0 q && (passOf 0 lvl == passOf o lvl || near)) then return "bad:order_dependent"
    return "ok"
  pure { model := "invariant", agree := verdict == "ok", spec := verdict }

def handleBigPrec (args impl : List String) : Option Reply := do
  let (seed, n) ← run (do let s ← nat; let n ← nat; pure (s, n)) args
  let toks := impl.toArray
  let blk := 1 + n
  if toks.size != 1 + 3 * blk || toks[0]!.toNat? != some n then
    pure { model := "unexpected-reply-size", agree := false, spec := "bad:length" } else
  let num (i : Nat) : Nat := (toks[i]!.toNat?).getD 0
  let s := seed.toUInt64
  let decoy : Array Bool := (Array.range n).map fun i => decide (hsh s i.toUInt64 2 % 10 < 3)
  let ms := (Array.range n).map fun i => bell (hsh s i.toUInt64 3) + (if hsh s i.toUInt64 2 % 10 < 3 then 0 else 40000)
  let ent := Array.range n
  let qOf (o : Nat) : Array Float32 := (Array.range n).map fun k => f32OfBits (num (1 + o * blk + 1 + k))
  let verdict : String := Id.run do
    let q0 := qOf 0
    for o in [0:3] do
      let q := qOf o
      let v := bigClauses n ent decoy ms q (num (1 + o * blk)) thrPrec
      if v != "ok" then return v
      -- counts only: exact
      if o > 0 && !(sameWithin 0 q0 q && num (1 + o * blk) == num 1) then return "bad:order_dependent"
    return "ok"
  pure { model := "invariant", agree := verdict == "ok", spec := verdict }

def handle (op : String) (args impl : List String) : Option Reply :=
  match op with
  | "bigpick" => handleBigPick args impl
  | "bigprec" => handleBigPrec args impl
  | "pickpep" => do
    let ((gd, _, peps), feats) ← run (do let d ← pDb; let f ← pFeats; pure (d, f)) args
    let psms ← pepPsms gd peps (keyed feats)
    pure (pickReply psms impl)
  | "pickprot" => do
    let ((gd, tag, peps), feats) ← run (do let d ← pDb; let f ← pFeats; pure (d, f)) args
    let psms ← protPsms gd tag peps (keyed feats)
    pure (pickReply psms impl)
  | "permpep" => do
    let ((gd, _, peps), feats, perm) ← run (do let d ← pDb; let f ← pFeats; let p ← list nat; pure (d, f, p)) args
    if !isPerm feats.length perm then failure
    let psms ← pepPsms gd peps (keyed feats)
    pure (permReply psms impl)
  | "permprot" => do
    let ((gd, tag, peps), feats, perm) ← run (do let d ← pDb; let f ← pFeats; let p ← list nat; pure (d, f, p)) args
    if !isPerm feats.length perm then failure
    let psms ← protPsms gd tag peps (keyed feats)
    pure (permReply psms impl)
  | "pickprec" => do
    let entries ← run pPeaks args
    let psms := precPsms entries
    let zero : Float32 := 0
    let one : Float32 := 1
    match run (do let r ← pResult; let o ← list nat; pure (r, o)) impl with
    | none => pure { model := "unparsed-impl-reply", agree := false, spec := "na" }
    | some ((ip, iq), _ord) =>
      let spec := specVerdict negInfKey zero one thrPrec psms (iq.map f32OfBits) ip
      -- rows in request order: the result does not depend on it (`order_invariant_precursor`)
      let rows : List (Row Nat Int) := entries.map fun e => ⟨e.1, e.2.1, e.2.2⟩
      let (tab, passing) := pickedPrecursor Float32.ofNat zero one thrPrec rows
      let qs := entries.map fun e => (lookupQ tab e.1).getD one
      let model := renderResult passing qs
      -- exact: counts, casts and one division per row
      pure { model := model, agree := words model == (toString ip :: toString iq.length :: iq.map toString), spec := spec }
  | "permprec" => do
    let (entries, perm) ← run (do let e ← pPeaks; let p ← list nat; pure (e, p)) args
    if !isPerm entries.length perm then failure
    let tieFree := nodup (entries.map (·.2.2))
    match run (do let a ← pResult; let b ← pResult; pure (a, b)) impl with
    | none => pure { model := "unparsed-impl-reply", agree := false, spec := "na" }
    | some (a, b) =>
      if a == b then pure { model := "invariant", agree := true, spec := "ok" }
      else if tieFree then pure { model := "invariant", agree := false, spec := "bad:order_dependent" }
      else pure { model := "invariant", agree := false, spec := "bad:order_dependent_tie" }
  | _ => none

end Sage.C13
