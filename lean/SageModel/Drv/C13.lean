import SageModel.Proto
import SageModel.Model.C13

/-! Driver ops for C13 (formats: see `harness/src/ops/c13.rs`).

```
DB    := gd tag npep { decoy seq nmod { pos f32 } nterm(opt f32) cterm(opt f32) nprot { name } }
FEATS := nfeat { peptide_idx score(f32) }
pickpep | pickprot  DB FEATS | passing nfeat { q }  ntab { score pep }  nord { psm-index }     (or `panic`)
pickprec n { kind ix charge decoy score(f64) } | passing n { q } nord { entry-index }
permpep | permprot  DB FEATS nperm { i } | passingA n { qA } passingB n { qB }
permprec n {…} nperm { i } | passingA n { qA } passingB n { qB }
```

The model runs at `σ := Int` (the `total_cmp` key of the f32 score: the order the sort uses) and
`α := Float32`: the same additions, divisions and comparisons in the same order as the Rust code.

What is compared, and how exactly:
* `pickprec`: bit-exact (counts only; `usize as f32` casts and one IEEE division per row).
* `pickpep` / `pickprot`: the PEP of each row score is DATA taken from the implementation's fitted
  estimator (`ntab`). With it the model's float operations are the code's, so q-values normally agree bit
  for bit. They are nevertheless compared within `rows + 2` ulp: the harness has to fit its own copy of the
  estimator (the one inside `assign_q_value` is not reachable) and the fit is a long f64 summation whose
  last bits depend on the sample order (= hash-map iteration order); a PEP that differs in its last f32 bit
  moves the running `decoy` sum by at most one ulp per row (`decoy ≥ 1 ≥ pep`). Structure (who shares a q,
  the passing count, panics) is exact. The reported iteration order (`nord`) is no longer used: since /repo
  1f05eb8 the sort key (score, decoy flag, index) is total and the model's result is the same for every
  order (`order_invariant`).
* `perm*`: implementation against itself under a permutation of the supply order, same bound (the two
  fits see their samples in different orders). Any difference beyond it is a violation:
  `bad:order_dependent` (no repeated score) / `bad:order_dependent_tie` (some rows share a score).
-/
namespace Sage.C13
open Sage.Proto

/-- key of an f32 bit pattern in `total_cmp` order -/
def scoreKey (bits : Nat) : Int :=
  if bits ≥ 2147483648 then -((bits - 2147483648 : Nat) : Int) - 1 else (bits : Int)

/-- `f32::MIN` = 0xFF7FFFFF -/
def botKey : Int := scoreKey 4286578687
/-- `-∞` -/
def negInfKey : Int := scoreKey 4286578688

def thrPep : Float32 := Float32.ofBits 1008981770   -- 0.01f32
def thrPrec : Float32 := Float32.ofBits 1028443341  -- 0.05f32

def pPep : P Pep := do
  let decoy ← bool
  let seq ← bytes
  let mods ← list (do let i ← nat; let b ← nat; pure (i, b))
  let nterm ← opt nat
  let cterm ← opt nat
  let prots ← list str
  let modv := (List.range seq.length).map fun i =>
    match mods.reverse.find? (fun m => m.1 == i) with
    | some m => m.2
    | none => 0
  pure { decoy, seq := seq.map (·.toNat), mods := modv, nterm, cterm, prots }

def pDb : P (Bool × String × List Pep) := do
  let gd ← bool
  let tag ← str
  let peps ← list pPep
  pure (gd, tag, peps)

def pFeats : P (List (Nat × Nat)) := list (do let i ← nat; let s ← nat; pure (i, s))

def f32OfBits (b : Nat) : Float32 := Float32.ofBits b.toUInt32

def renderResult (passing : Nat) (qs : List Float32) : String :=
  toString passing ++ " " ++ outList outF32 qs

def pResult : P (Nat × List Nat) := do
  let p ← nat
  let q ← list nat
  pure (p, q)

def nodup {β} [DecidableEq β] (l : List β) : Bool := l.eraseDups.length == l.length

def withinUlps (tol : Nat) (a b : List Float32) : Bool :=
  a.length == b.length && (a.zip b).all fun p => ulpDistF32 p.1 p.2 ≤ tol

def isPerm (n : Nat) (l : List Nat) : Bool := l.length == n && nodup l && l.all (· < n)

/-- features with their scores as `total_cmp` keys -/
def keyed (feats : List (Nat × Nat)) : List (Nat × Int) := feats.map fun f => (f.1, scoreKey f.2)

section generic
variable {κ ι : Type} [DecidableEq κ] [DecidableEq ι] [LE ι] [DecidableLE ι]

def pickReply (psms : List (Psm κ ι Int)) (impl : List String) : Reply :=
  let es0 := competition botKey psms
  let zero : Float32 := 0
  let one : Float32 := 1
  -- does the index lookup panic? (independent of pep values and of the iteration order)
  let panics := (pickedWith (fun _ => zero) Float32.ofNat one thrPep es0 psms).isNone
  if impl == ["panic"] then
    if panics then { model := "panic", agree := true, spec := "na" }
    else { model := "no-panic", agree := false, spec := "bad:panic" }
  else
  match run (do
      let r ← pResult
      let tab ← list (do let s ← nat; let p ← nat; pure (scoreKey s, f32OfBits p))
      let ord ← list nat
      pure (r, tab, ord)) impl with
  | none => { model := "unparsed-impl-reply", agree := false, spec := "na" }
  | some ((ip, iq), tab, ord) =>
    let iqs := iq.map f32OfBits
    let spec0 := specVerdict botKey zero one thrPep psms iqs ip
    -- theorem `nan_all`: when every PEP of the table is NaN (zero-variance class, C14's known finding)
    -- every q must be exactly 1.0 and nothing passes
    let allNaN := !tab.isEmpty && tab.all fun t => t.2.isNaN
    let spec := if spec0 == "ok" && allNaN && !(iqs.all (fun q => q.toBits == one.toBits) && ip == 0)
      then "bad:nan_pep_not_one" else spec0
    if panics then { model := "panic", agree := false, spec := spec } else
    let rows := rowsOf es0
    if !(rows.all fun r => tab.any fun t => t.1 == r.score) then
      { model := "pep-table-incomplete", agree := false, spec := spec } else
    let _ := ord
    let es := es0
    let pep (s : Int) : Float32 := match tab.find? (fun t => t.1 == s) with
      | some t => t.2
      | none => zero
    match pickedWith pep Float32.ofNat one thrPep es psms with
    | none => { model := "panic", agree := false, spec := spec }
    | some (qs, passing) =>
      let tol := rows.length + 2
      let tab := (assignQ pep Float32.ofNat one thrPep es).1
      let nearThr := tab.any fun rq => ulpDistF32 rq.2 thrPep ≤ tol
      { model := renderResult passing qs
        agree := withinUlps tol qs iqs && (passing == ip || nearThr)
        spec := spec }

/-- metamorphic: the implementation's two answers (original / permuted supply order) -/
def permReply (psms : List (Psm κ ι Int)) (impl : List String) : Reply :=
  let rows := rowsOf (competition botKey psms)
  let tieFree := nodup (rows.map (·.score))
  -- the model's prediction (`order_invariant`, ties included)
  let model := "invariant"
  if impl == ["panic"] then { model := model, agree := true, spec := "na" } else
  match run (do let a ← pResult; let b ← pResult; pure (a, b)) impl with
  | none => { model := "unparsed-impl-reply", agree := false, spec := "na" }
  | some ((pa, qa), (pb, qb)) =>
    let tol := rows.length + 2
    let fa := qa.map f32OfBits
    let fb := qb.map f32OfBits
    let nearThr := fa.any fun q => ulpDistF32 q thrPep ≤ tol
    let same := withinUlps tol fa fb && (pa == pb || nearThr)
    if same then { model := model, agree := true, spec := "ok" }
    else if tieFree then { model := model, agree := false, spec := "bad:order_dependent" }
    else { model := model, agree := false, spec := "bad:order_dependent_tie" }

end generic

/-- `PrecursorId` in its derived `Ord` (`Combined(ix)` < `Charged((ix, charge))`, then the fields) as a
    number, times two plus the decoy bit: unique per map key `(id, decoy)`; rows that tie in score and
    decoy flag compare by `id` exactly as these numbers do -/
def precIx (kind ix charge : Nat) (decoy : Bool) : Nat :=
  2 * (kind * 2^40 + ix * 256 + charge) + (if decoy then 1 else 0)

/-- precursor entries: `(row index, decoy, total_cmp key of (score as f32))` -/
def pPeaks : P (List (Nat × Bool × Int)) :=
  list (do
    let kind ← nat
    let ix ← nat
    let charge ← nat
    let decoy ← bool
    let s ← f64
    pure (precIx kind ix charge decoy, decoy, scoreKey s.toFloat32.toBits.toNat))

def precPsms (entries : List (Nat × Bool × Int)) : List (Psm Nat Nat Int) :=
  entries.map fun e => { key := e.1, decoy := e.2.1, ix := e.1, score := e.2.2 }

def handle (op : String) (args impl : List String) : Option Reply :=
  match op with
  | "pickpep" => do
    let ((gd, _, peps), feats) ← run (do let d ← pDb; let f ← pFeats; pure (d, f)) args
    let psms ← pepPsms gd peps (keyed feats)
    pure (pickReply psms impl)
  | "pickprot" => do
    let ((gd, tag, peps), feats) ← run (do let d ← pDb; let f ← pFeats; pure (d, f)) args
    let psms ← protPsms gd tag peps (keyed feats)
    pure (pickReply psms impl)
  | "permpep" => do
    let ((gd, _, peps), feats, perm) ← run (do let d ← pDb; let f ← pFeats; let p ← list nat; pure (d, f, p)) args
    if !isPerm feats.length perm then failure
    let psms ← pepPsms gd peps (keyed feats)
    pure (permReply psms impl)
  | "permprot" => do
    let ((gd, tag, peps), feats, perm) ← run (do let d ← pDb; let f ← pFeats; let p ← list nat; pure (d, f, p)) args
    if !isPerm feats.length perm then failure
    let psms ← protPsms gd tag peps (keyed feats)
    pure (permReply psms impl)
  | "pickprec" => do
    let entries ← run pPeaks args
    let psms := precPsms entries
    let zero : Float32 := 0
    let one : Float32 := 1
    match run (do let r ← pResult; let o ← list nat; pure (r, o)) impl with
    | none => pure { model := "unparsed-impl-reply", agree := false, spec := "na" }
    | some ((ip, iq), _ord) =>
      let spec := specVerdict negInfKey zero one thrPrec psms (iq.map f32OfBits) ip
      -- rows in request order: the result does not depend on it (`order_invariant_precursor`)
      let rows : List (Row Nat Int) := entries.map fun e => ⟨e.1, e.2.1, e.2.2⟩
      let (tab, passing) := pickedPrecursor Float32.ofNat zero one thrPrec rows
      let qs := entries.map fun e => (lookupQ tab e.1).getD one
      let model := renderResult passing qs
      -- exact: counts, casts and one division per row
      pure { model := model, agree := words model == (toString ip :: toString iq.length :: iq.map toString), spec := spec }
  | "permprec" => do
    let (entries, perm) ← run (do let e ← pPeaks; let p ← list nat; pure (e, p)) args
    if !isPerm entries.length perm then failure
    let tieFree := nodup (entries.map (·.2.2))
    match run (do let a ← pResult; let b ← pResult; pure (a, b)) impl with
    | none => pure { model := "unparsed-impl-reply", agree := false, spec := "na" }
    | some (a, b) =>
      if a == b then pure { model := "invariant", agree := true, spec := "ok" }
      else if tieFree then pure { model := "invariant", agree := false, spec := "bad:order_dependent" }
      else pure { model := "invariant", agree := false, spec := "bad:order_dependent_tie" }
  | _ => none

end Sage.C13
