import SageModel.Proto

/-! Driver ops for C13 (stub: no ops yet). -/
namespace Sage.C13
open Sage.Proto

def handle (op : String) (args impl : List String) : Option Reply :=
  match op with
  | _ => none

end Sage.C13
