import SageModel.Proto
import SageModel.Generated.Consts
import SageModel.Model.C19

/-! Driver ops for C19 (formats: see `harness/src/ops/c19.rs`).

`lfqmap`, and the grid cells of `lfqgrid`, are compared bit-exactly (only `+ - * /`, casts and comparisons
are involved). Everything downstream of `exp` (gaussian kernel), `acos`, `powf` and, for `lfq` with more
than one worker, of the concurrent `f64` accumulation, is compared within the relative bound `1e-9`
(`closeF`): libm may differ in the last ulp between the two toolchains and the parallel sum of `n` cells
differs by at most `n·2⁻⁵³` relatively; discrete results (keys, peak position) must be identical.
The float accumulation order under `DashMap`/rayon is modelled (one sequential schedule), not verified.
-/
namespace Sage.C19
open Sage.Proto

/-! ### instantiation at `f32` / `f64` -/

def f32b (n : Nat) : Float32 := Float32.ofBits n.toUInt32

def env32 : Env Float32 :=
  { ofNat := Float32.ofNat
    floorNat := fun x => x.floor.toUInt64.toNat
    zero := 0, one := 1, two := 2
    million := 1000000, hundred := 100
    neutron := f32b Sage.Gen.NEUTRON_bits
    rtTol := f32b Sage.Gen.LFQ_RT_TOL_bits
    decoyShift := f32b 1093727683   -- 11.06
    margin := f32b 1036831949       -- 0.1
    qThr := f32b 1008981770 }       -- 0.01

def maxF64 (a b : Float) : Float := if a.isNaN then b else if b.isNaN then a else if a < b then b else a
def maxF32 (a b : Float32) : Float32 := if a.isNaN then b else if b.isNaN then a else if a < b then b else a

def env64 : FEnv Float :=
  { ofNat := Float.ofNat, zero := 0, one := 1, two := 2, half := 0.5
    pi := Float.ofBits 4614256656552045848
    third := Float.ofBits 4599616371426034975   -- 0.33
    sqrt := Float.sqrt, acos := Float.acos, exp := Float.exp, powf := Float.pow, max := maxF64 }

/-- `peptide_isotopes` of a sequence as `(distribution cast to f64, ss_dist)` -/
def distOf (seq : List UInt8) : List Float32 :=
  let (cN, sN) := composition seq
  peptideIsotopes Float32.ofNat Float32.exp maxF32 0 1 (f32b 1010055512) (f32b 1006176620) (f32b 1026832728) cN sN

def distPair (d : List Float32) : List Float × Float :=
  (d.map Float32.toFloat, ((d.map fun x => x * x).foldl (· + ·) (0 : Float32)).sqrt.toFloat)

/-! ### parsing -/

def pFeat : P (Feat Float32) := do
  let pep ← nat; let label ← int; let q ← f32; let rt ← f32; let cm ← f32
  let z ← nat; let file ← nat; let ims ← f32
  pure { peptide := pep, label := label, peptideQ := q, alignedRt := rt, calcmass := cm, charge := z, fileId := file, ims := ims }

/-- feature list: `x n (10 tokens)…` — the last two are `expmass` and `isotope_error`, which the model does NOT take
    (the LFQ windows are centred on the peptide's theoretical mass, `calcmass`, only) — or the older `n (8 tokens)…` -/
def pFeats : P (List (Feat Float32)) := do
  let t ← tok
  if t == "x" then
    list (do let f ← pFeat; let _ ← f32; let _ ← f32; pure f)
  else match t.toNat? with
    | some n => listN pFeat n
    | none => failure

structure World where
  withMob : Bool
  st : Settings Float32 Float
  zLo : Nat
  zHi : Nat
  peptides : List (List UInt8)
  feats : List (Feat Float32)
  aligns : List (Align Float32)
  spectra : List (Spectrum Float32)

def pWorld : P World := do
  let withMob ← bool
  let combine ← bool
  let scoring ← nat
  let sum ← bool
  let sa ← f64
  let ppm ← f32
  let mob ← f32
  let zLo ← nat
  let zHi ← nat
  let peptides ← list bytes
  let feats ← pFeats
  let aligns ← list (do let a ← f32; let b ← f32; let c ← f32; pure ({ maxRt := a, slope := b, intercept := c } : Align Float32))
  let spectra ← list (do
    let file ← nat
    let t ← f32
    let peaks ← list (do let m ← f32; let i ← f32; let mo ← f32; pure ({ mass := m, intensity := i, mobility := mo } : Peak Float32))
    pure ({ fileId := file, scanStart := t, peaks := peaks } : Spectrum Float32))
  let sc : Scoring := match scoring with
    | 0 => .retentionTime | 1 => .spectralAngle | 2 => .intensity | _ => .hybrid
  pure { withMob := withMob,
         st := { scoring := sc, sum := sum, spectralAngle := sa, ppm := ppm, mobPct := mob, combine := combine },
         zLo := zLo, zHi := zHi, peptides := peptides, feats := feats, aligns := aligns, spectra := spectra }

/-- one reported row -/
structure Row where
  pep : Nat
  charge : Nat
  decoy : Bool
  rt : Nat
  score : Float
  angle : Float
  areas : List Float

def pRows : P (List Row) := list (do
  let pep ← nat; let z ← nat; let d ← bool; let rt ← nat; let s ← f64; let a ← f64
  let areas ← list f64
  pure { pep := pep, charge := z, decoy := d, rt := rt, score := s, angle := a, areas := areas })

def outRows (rows : List Row) : String :=
  outList (fun r => " ".intercalate
    [toString r.pep, toString r.charge, outBool r.decoy, toString r.rt, outF64 r.score, outF64 r.angle,
     outList outF64 r.areas]) rows

/-! ### running the model -/

def keyLt (a b : Row) : Bool :=
  a.pep < b.pep || (a.pep == b.pep && (a.charge < b.charge || (a.charge == b.charge && (!a.decoy && b.decoy))))

def featureMap (w : World) (bin : Nat) : FeatureMap Float32 :=
  let fm := buildFeatureMapB (if bin = 0 then binSize else bin) env32 w.st.ppm w.st.mobPct w.zLo w.zHi w.feats
  fm

/-- the model's result for a world: `none` = panic -/
def runModel (w : World) (bin : Nat) : Option (List Row) :=
  let fm := featureMap w bin
  let dists := (w.peptides.map fun s => distPair (distOf s)).toArray
  let dist := fun p => dists.getD p ([], 0)
  match quantify env32 env64 Float32.toFloat binSearchFrom w.st w.withMob fm dist w.aligns w.spectra with
  | none => none
  | some rs =>
    let rows := rs.map fun (k, r) =>
      ({ pep := k.peptide, charge := k.charge, decoy := k.decoy, rt := r.rt, score := r.score,
         angle := r.spectralAngle, areas := r.areas } : Row)
    some (rows.mergeSort (fun a b => keyLt a b || !(keyLt b a)))

/-! ### comparison -/

def closeF (a b : Float) : Bool :=
  a.toBits == b.toBits || (a.isNaN && b.isNaN) ||
  (a.isFinite && b.isFinite && (a - b).abs ≤ 1e-9 * maxF64 a.abs b.abs)

def closeL (a b : List Float) : Bool :=
  a.length == b.length && (List.zip a b).all (fun p => closeF p.1 p.2)

def rowClose (a b : Row) : Bool :=
  a.pep == b.pep && a.charge == b.charge && a.decoy == b.decoy && a.rt == b.rt &&
  closeF a.score b.score && closeF a.angle b.angle && closeL a.areas b.areas

def rowsClose (a b : List Row) : Bool :=
  a.length == b.length && (List.zip a b).all (fun p => rowClose p.1 p.2)

def rowExact (a b : Row) : Bool :=
  a.pep == b.pep && a.charge == b.charge && a.decoy == b.decoy && a.rt == b.rt &&
  a.score.toBits == b.score.toBits && a.angle.toBits == b.angle.toBits &&
  a.areas.map Float.toBits == b.areas.map Float.toBits

def rowsExact (a b : List Row) : Bool :=
  a.length == b.length && (List.zip a b).all (fun p => rowExact p.1 p.2)

/-! ### spec clauses on the implementation's rows -/

def first? (l : List (Option String)) : Option String := l.findSome? id

/-- (history: before repair 98eb8cd) the largest negative area the f32 rounding of `add_entry`'s UNCLAMPED interpolation
    weight could explain; both clauses are real violations now: the weight is off
    by a few ulp(rt)/rt_step <= 4e-3, kernel weights and isotope abundances are <= 1, so no area can be below
    `-4e-3 * (sum of all intensities)`. Negative areas inside this allowance get their own (narrow) clause
    `bad:negative_area_interp_rounding`; anything else negative or non-finite is `bad:negative_or_nonfinite`. -/
def roundingAllowance (w : World) : Float :=
  4e-3 * (w.spectra.foldl (fun acc s => s.peaks.foldl (fun a p => a + p.intensity.toFloat.abs) acc) 0)

/-- (d) finite, non-negative, one area per file; keys only of confident targets at searched charges -/
def rowsWellFormed (w : World) (rows : List Row) : Option String :=
  let conf := (w.feats.filter (confident env32)).map (·.peptide)
  first? (rows.map fun r =>
    if r.areas.length != w.aligns.length then some "bad:area_count"
    else if r.areas.any (fun a => !a.isFinite || a < -(roundingAllowance w)) then some "bad:negative_or_nonfinite"
    else if r.areas.any (fun a => a < 0) then some "bad:negative_area_interp_rounding"
    else if !conf.contains r.pep then some "bad:unconfident_reported"
    else if w.st.combine && r.charge != 0 then some "bad:charge_not_combined"
    else if !w.st.combine && (r.charge < w.zLo || r.charge > w.zHi) then some "bad:charge_not_searched"
    else none)

/-- keys that have at least one in-window peak, by the naive scan over all (peak, range) pairs -/
def signalKeys (w : World) : List Key :=
  let ranges := allRanges env32 w.st.ppm w.st.mobPct w.zLo w.zHi w.feats
  (w.spectra.flatMap fun s =>
    match w.aligns[s.fileId]? with
    | none => []
    | some a =>
      let rt := alignedRt a s
      s.peaks.flatMap fun pk =>
        (ranges.filter fun r =>
          inWindow (rt - env32.rtTol) (rt + env32.rtTol) pk.mass r && (!w.withMob || mobOk pk.mobility r)).map
          (keyOf w.st.combine)).eraseDups

def rowsHaveSignal (w : World) (rows : List Row) : Option String :=
  let ks := signalKeys w
  if rows.all (fun r => ks.contains { peptide := r.pep, charge := r.charge, decoy := r.decoy }) then none
  else some "bad:reported_without_signal"

def peakEq (a b : Peak Float32) : Bool :=
  a.mass.toBits == b.mass.toBits && a.intensity.toBits == b.intensity.toBits && a.mobility.toBits == b.mobility.toBits

def alignEq (a b : Align Float32) : Bool :=
  a.maxRt.toBits == b.maxRt.toBits && a.slope.toBits == b.slope.toBits && a.intercept.toBits == b.intercept.toBits

def listEq {γ : Type} (eq : γ → γ → Bool) (a b : List γ) : Bool :=
  a.length == b.length && (List.zip a b).all (fun p => eq p.1 p.2)

def spectrumEq (a b : Spectrum Float32) : Bool :=
  a.fileId == b.fileId && a.scanStart.toBits == b.scanStart.toBits && listEq peakEq a.peaks b.peaks

def featEq (a b : Feat Float32) : Bool :=
  a.peptide == b.peptide && a.label == b.label && a.peptideQ.toBits == b.peptideQ.toBits &&
  a.alignedRt.toBits == b.alignedRt.toBits && a.calcmass.toBits == b.calcmass.toBits && a.charge == b.charge &&
  a.fileId == b.fileId && a.ims.toBits == b.ims.toBits

/-- is file `j` file `i` with exactly doubled intensities (same scans in the same relative order, same alignment)? -/
def isDouble (w : World) (i j : Nat) : Bool :=
  let si := w.spectra.filter (·.fileId == i)
  let sj := w.spectra.filter (·.fileId == j)
  match w.aligns[i]?, w.aligns[j]? with
  | some a, some b =>
    alignEq a b && !si.isEmpty &&
    listEq (fun (x y : Spectrum Float32) => x.scanStart.toBits == y.scanStart.toBits &&
      listEq (fun (p q : Peak Float32) => p.mass.toBits == q.mass.toBits && p.mobility.toBits == q.mobility.toBits &&
        (2 * p.intensity).toBits == q.intensity.toBits && (2 * p.intensity).isFinite) x.peaks y.peaks) si sj
  | _, _ => false

/-- the same precursor keys are reported -/
def sameKeys (a b : List Row) : Bool :=
  a.length == b.length && (List.zip a b).all (fun p => p.1.pep == p.2.pep && p.1.charge == p.2.charge && p.1.decoy == p.2.decoy)

/-- a total key on spectra, to compare two spectrum lists as multisets -/
def spectrumKey (s : Spectrum Float32) : List Nat :=
  s.fileId :: s.scanStart.toBits.toNat :: s.peaks.flatMap (fun p => [p.mass.toBits.toNat, p.intensity.toBits.toNat, p.mobility.toBits.toNat])

/-- (b) a file with exactly twice the intensities gets exactly twice the area (single worker) /
    twice within the summation bound (several workers) -/
def doublingOk (w : World) (rows : List Row) (exact : Bool) : Option String :=
  let n := w.aligns.length
  let pairs := (List.range n).flatMap fun i => ((List.range n).filter fun j => i != j && isDouble w i j).map fun j => (i, j)
  if pairs.all (fun (i, j) => rows.all fun r =>
      let a := r.areas.getD i 0
      let b := r.areas.getD j 0
      if exact then (2 * a).toBits == b.toBits else closeF (2 * a) b) then none
  else some "bad:not_doubled"

def hasDoubling (w : World) : Bool :=
  let n := w.aligns.length
  (List.range n).any fun i => (List.range n).any fun j => i != j && isDouble w i j

/-! ### canonical form of a feature map -/

def rangeToks (r : Range Float32) : List Nat :=
  [r.rt.toBits.toNat, r.massLo.toBits.toNat, r.massHi.toBits.toNat, r.mobLo.toBits.toNat, r.mobHi.toBits.toNat,
   r.charge, r.isotope, r.peptide, r.fileId, if r.decoy then 1 else 0]

def lexLe : List Nat → List Nat → Bool
  | [], _ => true
  | _ :: _, [] => false
  | a :: as, b :: bs => a < b || (a == b && lexLe as bs)

def pRange : P (Range Float32) := do
  let rt ← f32; let lo ← f32; let hi ← f32; let ml ← f32; let mh ← f32
  let z ← nat; let iso ← nat; let pep ← nat; let file ← nat; let d ← bool
  pure { rt := rt, massLo := lo, massHi := hi, mobLo := ml, mobHi := mh, charge := z, isotope := iso,
         peptide := pep, fileId := file, decoy := d }

/-- the index invariant the lookup relies on, checked on a concrete map -/
def mapInvOk (fm : FeatureMap Float32) : Bool :=
  let b := fm.binSize
  let n := fm.minRts.size
  b > 0 && fm.ranges.length ≤ n * b && (fm.ranges.length + b > n * b || fm.ranges.isEmpty) &&
  (List.range n).all fun p =>
    let s := pageSlice fm.ranges b p
    let m := fm.minRts.getD p 0
    s.all (fun r => m ≤ r.rt) && s.any (fun r => r.rt.toBits == m.toBits) &&
    (match fm.minRts[p+1]? with
     | some m' => s.all (fun r => r.rt ≤ m')
     | none => true) &&
    (List.zip s (s.drop 1)).all (fun q => q.1.massLo ≤ q.2.massLo)

/-! ### big worlds (derived from a seed identically in `harness/src/ops/c19.rs::big_world`) -/

def bigSeqs : Array (List UInt8) :=
  #["PEPTIDEK", "ACDEFGHIK", "LLMMNNPPQQR", "SSTTVVWWYK", "GGAAGGAAGGK", "CMCMCMK", "FFYYWWHHR", "DEDEDEDEKR"].map
    (fun (x : String) => x.toUTF8.toList)

/-- splitmix64 finaliser of (seed, i) -/
def bigHash (seed i : UInt64) : UInt64 :=
  let z := seed + (i + 1) * 0x9E3779B97F4A7C15
  let z := (z ^^^ (z >>> 30)) * 0xBF58476D1CE4E5B9
  let z := (z ^^^ (z >>> 27)) * 0x94D049BB133111EB
  z ^^^ (z >>> 31)

def bigSettings : Settings Float32 Float :=
  { scoring := .hybrid, sum := true, spectralAngle := 0.5, ppm := 10, mobPct := 1, combine := true }

/-- peptide `i` of the big world: sequence, PSM, its three scans -/
def bigPeptide (seed i : Nat) : List UInt8 × Feat Float32 × List (Spectrum Float32) :=
  let r := (bigHash seed.toUInt64 i.toUInt64).toNat
  let cm : Float32 := Float32.ofNat (700000 + r % 3000000) / 1000
  let rt : Float32 := Float32.ofNat (2 + 3 * i) / 100
  let base : Float32 := Float32.ofNat (1000 + (r >>> 40) % 9000)
  let seq := bigSeqs.getD ((r >>> 32) % 8) []
  let d : Float32 := f32b 978433815   -- 0.0008
  let feat : Feat Float32 := { peptide := i, label := 1, peptideQ := 0, alignedRt := rt, calcmass := cm, charge := 2,
                               fileId := i % 2, ims := 1 }
  -- every third PSM was picked on the M+1 peak and measured 15 ppm high (expmass = calc + NEUTRON + 15 ppm); the scans then
  -- also carry noise where windows centred on `expmass - isotope_error` would be (15 ppm away, tolerance 10 ppm)
  let shifted := (r >>> 20) % 3 == 0
  let expmass : Float32 := (cm + env32.neutron) + cm * f32b 930850946   -- 0.000015
  let scans := [(rt + (-d), (0.5 : Float32)), (rt + 0, 1), (rt + d, 0.5)].map fun (t, wk) =>
    ({ fileId := i % 2, scanStart := t,
       peaks := ([(0, (1 : Float32)), (1, 0.75), (2, 0.5)].map fun (iso, env) =>
         ({ mass := (cm + Float32.ofNat iso * env32.neutron) / 2, intensity := base * wk * env, mobility := 1 } : Peak Float32)) ++
         (if shifted then [0, 1, 2].map fun iso =>
           ({ mass := ((expmass - env32.neutron) + Float32.ofNat iso * env32.neutron) / 2, intensity := base * wk * 2,
              mobility := 1 } : Peak Float32) else []) } : Spectrum Float32)
  (seq, feat, scans)

def identityAlign : Align Float32 := { maxRt := 1, slope := 1, intercept := 0 }

/-- the one-peptide world of peptide `i` (peptide renumbered 0). The big world is RT-disjoint by construction (aligned RTs
    0.03 apart, windows ±0.005, decoy windows 0.01 earlier), so no scan of one peptide lies in a window of another and every
    grid is fed by its own peptide's scans only: the result of the big world is the union of the results of these. -/
def bigMini (seed i : Nat) : World :=
  let (seq, feat, scans) := bigPeptide seed i
  { withMob := false, st := bigSettings, zLo := 2, zHi := 4, peptides := [seq], feats := [{ feat with peptide := 0 }],
    aligns := [identityAlign, identityAlign], spectra := scans }

/-- spec + agreement for one feature map reported by the implementation; `confOk` decides whether a peptide index is a
    confident target, `nConf` is their number -/
def mapVerdict (fm : FeatureMap Float32) (canonFm : List (List Nat)) (zLo zHi nConf : Nat) (confOk : Nat → Bool)
    (irs : List (Range Float32)) (ims : List Float32) (ib : Nat) : Bool × String :=
  let ifm : FeatureMap Float32 := { ranges := irs, minRts := ims.toArray, binSize := ib }
  -- order among rt / mass_lo ties is not fixed by the code (unstable sorts): compare as multisets
  let agree := (irs.map rangeToks).mergeSort lexLe == canonFm &&
    ims.map Float32.toBits == fm.minRts.toList.map Float32.toBits && ib == fm.binSize
  let spec :=
    if irs.any (fun r => !confOk r.peptide) then "bad:unconfident_range"
    -- the property text fixes THREE isotopologues (literal 3, not the regenerated constant)
    else if irs.any (fun r => r.charge < zLo || r.charge > zHi || r.isotope ≥ 3) then "bad:charge_or_isotope"
    else if irs.length != nConf * (zHi + 1 - zLo) * 3 * 2 then "bad:range_count"
    else if !mapInvOk ifm then "bad:index_invariant"
    else "ok"
  (agree, spec)

/-! ### ops -/

def handle (op : String) (args impl : List String) : Option Reply :=
  match op with
  | "lfqmap" => do
    let (ppm, mob, zLo, zHi, fs) ← run (do
      let ppm ← f32; let mob ← f32; let zLo ← nat; let zHi ← nat; let fs ← pFeats
      pure (ppm, mob, zLo, zHi, fs)) args
    let fm := buildFeatureMap env32 ppm mob zLo zHi fs
    let canon (rs : List (Range Float32)) := (rs.map rangeToks).mergeSort lexLe
    let model := outList (fun r => " ".intercalate (rangeToks r |>.map toString)) fm.ranges ++ " " ++
      outList outF32 fm.minRts.toList ++ " " ++ toString fm.binSize
    match run (do let rs ← list pRange; let ms ← list f32; let b ← nat; pure (rs, ms, b)) impl with
    | none => pure { model := model, agree := false, spec := "na" }
    | some (irs, ims, ib) =>
      let conf := (fs.filter (confident env32))
      let nConf := (conf.map (·.peptide)).eraseDups.length
      let (agree, spec) := mapVerdict fm (canon fm.ranges) zLo zHi nConf (fun p => conf.any fun f => f.peptide == p) irs ims ib
      pure { model := model, agree := agree, spec := spec }
  | "lfqgrid" => do
    let (refRt, refFile, files, d, scoring, sum, sa, adds) ← run (do
      let refRt ← f32; let refFile ← nat; let files ← nat
      let d0 ← f32; let d1 ← f32; let d2 ← f32
      let scoring ← nat; let sum ← bool; let sa ← f64
      let adds ← list (do let rt ← f32; let iso ← nat; let file ← nat; let x ← f32; pure (rt, iso, file, x))
      pure (refRt, refFile, files, [d0, d1, d2], scoring, sum, sa, adds)) args
    -- the code panics on a row index outside the matrix
    if adds.any (fun a => a.2.2.1 ≥ files || a.2.1 ≥ nIso) || refFile ≥ files then
      pure (exact "panic" (" ".intercalate impl) "na")
    else
    let g0 : Grid Float32 Float := Grid.new env32 0 refRt refFile files
    let g := adds.foldl (fun g a => g.addEntry env32 Float32.toFloat a.1 a.2.1 a.2.2.1 a.2.2.2) g0
    let dp := distPair d
    let tr := summarize env64 g dp.1 dp.2
    let sc : Scoring := match scoring with
      | 0 => .retentionTime | 1 => .spectralAngle | 2 => .intensity | _ => .hybrid
    let integ := integrate env64 g.cols tr sc sum sa
    let outInt := match integ with
      | none => "0"
      | some r => s!"1 {r.rt} {outF64 r.score} {outF64 r.spectralAngle} {outList outF64 r.areas}"
    let model := outList outF64 g.cells.toList ++ " " ++ outList outF64 tr.dot.flatten ++ " " ++
      outList outF64 tr.angle.flatten ++ " " ++ outInt
    match run (do
        let cells ← list f64; let dot ← list f64; let ang ← list f64
        let r ← opt (do let rt ← nat; let s ← f64; let a ← f64; let ar ← list f64; pure (rt, s, a, ar))
        pure (cells, dot, ang, r)) impl with
    | none => pure { model := model, agree := false, spec := "na" }
    | some (ic, idot, iang, ir) =>
      let agree := ic.map Float.toBits == g.cells.toList.map Float.toBits &&   -- cells: bit-exact
        closeL idot tr.dot.flatten && closeL iang tr.angle.flatten &&
        (match ir, integ with
         | none, none => true
         | some (rt, s, a, ar), some r => rt == r.rt && closeF s r.score && closeF a r.spectralAngle && closeL ar r.areas
         | _, _ => false)
      -- the non-negativity claim is about what `quantify` feeds the grid: intensities >= 0 and spectra that passed
      -- the window test of `mass_lookup` (`range.rt <= rt + RT_TOL && range.rt >= rt - RT_TOL`, in f32)
      let pos := adds.all (fun a => a.2.2.2 ≥ 0 &&
        decide (refRt ≤ a.1 + env32.rtTol) && decide (a.1 - env32.rtTol ≤ refRt))
      let spec :=
        if !pos then "na"
        else match ir with
          | some (_, _, _, ar) =>
            let allow := 4e-3 * adds.foldl (fun acc a => acc + a.2.2.2.toFloat.abs) 0
            if ar.any (fun a => !a.isFinite || a < -allow) then "bad:negative_or_nonfinite"
            else if ar.any (fun a => a < 0) then "bad:negative_area_interp_rounding" else "ok"
          | none => "ok"
      pure { model := model, agree := agree, spec := spec }
  | "lfq" => do
    let (threads, bin, w) ← run (do let th ← list nat; let bin ← nat; let w ← pWorld; pure (th, bin, w)) args
    let m := runModel w bin
    match m with
    | none => pure (exact "panic" (" ".intercalate impl) "na")
    | some rows =>
      let model := " ".intercalate (threads.map fun _ => outRows rows)
      match run (listN pRows threads.length) impl with
      | none => pure { model := model, agree := false, spec := "na" }
      | some irs =>
        let agree := irs.all (fun ir => rowsClose ir rows)
        let spec : String :=
          match first? (irs.map (rowsWellFormed w)) with
          | some s => s
          | none =>
          match first? (irs.map (rowsHaveSignal w)) with
          | some s => s
          | none =>
          match first? ((List.zip threads irs).map fun (n, ir) => doublingOk w ir (n ≤ 1)) with
          | some s => s
          | none =>
            match irs with
            | [] => "ok"
            | r0 :: rest =>
              -- presence first: the same precursors must be reported whatever the pool size
              if !(rest.all (fun r => sameKeys r0 r)) then "bad:thread_dependent_presence"
              else if rest.all (fun r => rowsClose r0 r) then "ok" else "bad:thread_dependent"
        pure { model := model, agree := agree, spec := spec }
  | "lfq2" => do
    let (kind, perm, bin, a, b) ← run (do
      let kind ← nat; let perm ← list nat; let bin ← nat; let a ← pWorld; let b ← pWorld
      pure (kind, perm, bin, a, b)) args
    match runModel a bin, runModel b bin with
    | some ra, some rb =>
      let model := outRows ra ++ " " ++ outRows rb
      match run (do let x ← pRows; let y ← pRows; pure (x, y)) impl with
      | none => pure { model := model, agree := false, spec := "na" }
      | some (ia, ib) =>
        let agree := rowsClose ia ra && rowsClose ib rb
        let wf := first? [rowsWellFormed a ia, rowsWellFormed b ib, rowsHaveSignal a ia, rowsHaveSignal b ib]
        let spec : String :=
          match wf with
          | some s => s
          | none =>
          if kind == 0 then
            -- (a) B differs from A only by signal the property calls irrelevant: PSMs that are not confident
            -- targets, peaks outside every window. Checked here, not assumed.
            let ranges := allRanges env32 a.st.ppm a.st.mobPct a.zLo a.zHi a.feats
            let related :=
              listEq featEq (a.feats.filter (confident env32)) (b.feats.filter (confident env32)) &&
              listEq alignEq a.aligns b.aligns && a.withMob == b.withMob && a.zLo == b.zLo && a.zHi == b.zHi &&
              listEq spectrumEq (relevantPart env32 a.withMob ranges a.aligns a.spectra)
                                (relevantPart env32 b.withMob ranges b.aligns b.spectra)
            if !related then "na"
            else if rowsExact ia ib then "ok" else "bad:outside_window_changed"
          else if kind == 2 then
            -- (e') B is A with the MS1 spectra listed in another order (one of the schedules the statement quantifies
            -- over, made deterministic: both run on a single worker). Same precursors, areas within the summation bound.
            let related :=
              listEq featEq a.feats b.feats && listEq alignEq a.aligns b.aligns && a.withMob == b.withMob &&
              a.zLo == b.zLo && a.zHi == b.zHi &&
              (a.spectra.map spectrumKey).mergeSort lexLe == (b.spectra.map spectrumKey).mergeSort lexLe
            if !related then "na"
            else if !sameKeys ia ib then "bad:order_dependent_presence"
            else if rowsClose ia ib then "ok" else "bad:order_dependent"
          else
            -- (c) B is A with file i renamed perm[i]
            let n := a.aligns.length
            let okPerm := perm.length == n && perm.all (· < n) && perm.eraseDups.length == n
            let pf := fun i => perm.getD i 0
            let related := okPerm &&
              listEq featEq (a.feats.map fun f => { f with fileId := pf f.fileId }) b.feats &&
              listEq spectrumEq (a.spectra.map fun s => { s with fileId := pf s.fileId }) b.spectra &&
              b.aligns.length == n &&
              (List.range n).all (fun i => match a.aligns[i]?, b.aligns[pf i]? with
                | some x, some y => alignEq x y
                | _, _ => false)
            if !related then "na"
            else if ia.length == ib.length && (List.zip ia ib).all (fun (x, y) =>
                x.pep == y.pep && x.charge == y.charge && x.decoy == y.decoy && x.rt == y.rt &&
                (List.range n).all (fun i => closeF (x.areas.getD i 0) (y.areas.getD (pf i) 0))) then "ok"
            else "bad:columns_do_not_follow"
        pure { model := model, agree := agree, spec := spec }
    | _, _ => pure (exact "panic" (" ".intercalate impl) "na")
  | "lfqbigmap" => do
    let (seed, nPep, threads) ← run (do let a ← nat; let b ← nat; let c ← list nat; pure (a, b, c)) args
    let fs := (List.range nPep).map fun i => (bigPeptide seed i).2.1
    let fm := buildFeatureMap env32 bigSettings.ppm bigSettings.mobPct 2 4 fs
    let canonFm := (fm.ranges.map rangeToks).mergeSort lexLe
    let one := outList (fun r => " ".intercalate (rangeToks r |>.map toString)) fm.ranges ++ " " ++
      outList outF32 fm.minRts.toList ++ " " ++ toString fm.binSize
    let model := " ".intercalate (threads.map fun _ => one)
    match run (listN (do let rs ← list pRange; let ms ← list f32; let b ← nat; pure (rs, ms, b)) threads.length) impl with
    | none => pure { model := model, agree := false, spec := "na" }
    | some maps =>
      let vs := maps.map fun (irs, ims, ib) => mapVerdict fm canonFm 2 4 nPep (· < nPep) irs ims ib
      let spec := match vs.find? (fun v => v.2 != "ok") with
        | some v => v.2
        | none => "ok"
      pure { model := model, agree := vs.all (·.1), spec := spec }
  | "lfqbig" => do
    let (seed, nPep, threads) ← run (do let a ← nat; let b ← nat; let c ← list nat; pure (a, b, c)) args
    -- expected rows, peptide by peptide (O(nPep)): the sequential model on the one-peptide world, and the keys that have
    -- in-window signal by the naive scan of that world
    let minis := (List.range nPep).map fun i =>
      let w := bigMini seed i
      let rows := ((runModel w 0).getD []).map fun r => { r with pep := i }
      let sig := (signalKeys w).map fun k => ({ k with peptide := i } : Key)
      (rows, sig)
    let expected := (minis.flatMap (·.1)).mergeSort (fun a b => keyLt a b || !(keyLt b a))
    let model := " ".intercalate (threads.map fun _ => outRows expected)
    match run (listN pRows threads.length) impl with
    | none => pure { model := model, agree := false, spec := "na" }
    | some irs =>
      let agree := irs.all (fun ir => rowsClose ir expected)
      -- presence tables for the common key shape (combined charge, target); anything else goes through lists
      let sigPlain := (minis.map fun m => m.2.any (fun k => k.charge == 0 && !k.decoy)).toArray
      let sigOther := (minis.flatMap (·.2)).filter (fun k => k.charge != 0 || k.decoy)
      let hasSignal (r : Row) : Bool :=
        if r.charge == 0 && !r.decoy then sigPlain.getD r.pep false
        else sigOther.contains { peptide := r.pep, charge := r.charge, decoy := r.decoy }
      let wellFormed (rows : List Row) : Option String :=
        first? (rows.map fun r =>
          if r.areas.length != 2 then some "bad:area_count"
          else if r.areas.any (fun a => !a.isFinite || a < 0) then some "bad:negative_or_nonfinite"
          else if r.pep ≥ nPep then some "bad:unconfident_reported"
          else if r.charge != 0 then some "bad:charge_not_combined"
          else if !hasSignal r then some "bad:reported_without_signal"
          else none)
      -- every precursor whose clean envelope lies inside its own windows (and which the sequential definition quantifies)
      -- must be reported, whatever the pool size and however large the map
      let lost (rows : List Row) : Bool :=
        let present := rows.foldl (fun (a : Array Bool) r =>
          if r.charge == 0 && !r.decoy && r.pep < nPep then a.set! r.pep true else a) (Array.replicate nPep false)
        expected.any fun r => r.charge == 0 && !r.decoy && hasSignal r && !present.getD r.pep false
      let spec : String :=
        match first? (irs.map wellFormed) with
        | some s => s
        | none =>
          if irs.any lost then "bad:in_window_signal_lost"
          else match irs with
            | [] => "ok"
            | r0 :: rest =>
              if !(rest.all (fun r => sameKeys r0 r)) then "bad:thread_dependent_presence"
              else if rest.all (fun r => rowsClose r0 r) then "ok" else "bad:thread_dependent"
      pure { model := model, agree := agree, spec := spec }
  | _ => none

end Sage.C19
