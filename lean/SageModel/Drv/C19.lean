import SageModel.Proto

/-! Driver ops for C19 (stub: no ops yet). -/
namespace Sage.C19
open Sage.Proto

def handle (op : String) (args impl : List String) : Option Reply :=
  match op with
  | _ => none

end Sage.C19
