import SageModel.Proto
import SageModel.Model.C03

/-! Driver ops for C03.

```
bss   [n f32…] lo hi                                   | L R
page  sortmode kinds minIon [nB B…] [npep (mass seqhex)…] [nq query…]   | db-export results   (or `panic`)
dbinv (same request format, usually nq = 0)
pageseq (same request format; ALL queries share preMass / preTol / fragTol: the implementation creates ONE
        `IndexedQuery` per B and performs the lookups `(fragMz, charge)` through it in request order; per lookup the
        reply carries the window, the result through the shared query object AND the result of the same lookup
        through a fresh query object: `… [cnt pairs…] [cnt pairs…]`)

query     = ptk plo phi  ftk flo fhi  preMass fragMz charge        (tolerance kind 0 = ppm, 1 = Da, 2 = Pct)
db-export = [npep mass…] [nion (pep mz)…]  then per B:  [nfrag (pep mz)…] [nmin minv…]  then per query:
            fragLo fragHi preLo preHi [cnt (pep mz)…]             (pairs sorted by (pep, mz bits))
```
`masses`, `frags`, `min_value` are the public fields of the REAL `IndexedDatabase` built with bucket size
`B`; `ions` is the flat ion list in generation order (recomputed by the harness through `IonSeries`).

Model reply for `page`/`dbinv`: per B, per query `fragLo fragHi preLo preHi [cnt pairs…]` computed by the
model's `window`, `buildIndex B ions` and `pageSearch` (all at `Float32`, compared exactly; no transcendental
functions are involved).  `agree` additionally requires that the model's `pageSearch` run on the REAL
layout gives the same answer.

Spec verdicts (evaluated on the implementation's reply):
`bad:panic`, `bad:dbinv-<clause>@B`, `bad:frag-multiset@B` (stored fragments are not a permutation of the
generated ions), `bad:scan-missing@B,q` / `bad:scan-extra@B,q` (result ≠ linear scan of the stored
fragments with the window computed from the request by the model), `bad:lookup_depends_on_history@B,q` (`pageseq`: the answer through the shared query object differs from the
answer through a fresh one — the lookup depends on what was looked up before), `bad:bucket-dependence@q` (two bucket sizes, different answers);
`bad:window_ne_definition@B,q` (the bounds reported by the real `Tolerance::bounds` are not bit-identical to the
model's `window` computed from the request; the scans are always made with the request-derived window);
for `bss`: `bad:range`, `bad:covers`, `bad:tight`, `bad:exit`.
-/
namespace Sage.C03
open Sage.Proto

abbrev F := Float32

def million : F := Float32.ofNat 1000000
def hundred : F := Float32.ofNat 100

def pairOf (f : Frag F) : Nat × Nat := (f.pep, f.mz.toBits.toNat)
def pairLe (a b : Nat × Nat) : Bool := a.1 < b.1 || (a.1 == b.1 && a.2 ≤ b.2)
def sortPairs (l : List (Nat × Nat)) : List (Nat × Nat) := l.mergeSort pairLe

def outPair (p : Nat × Nat) : String := s!"{p.1} {p.2}"

/-- multiset difference of two sorted lists: (#only in a, #only in b) -/
def diffSorted : Nat → List (Nat × Nat) → List (Nat × Nat) → Nat × Nat
  | 0, _, _ => (0, 0)
  | _, [], b => (0, b.length)
  | _, a, [] => (a.length, 0)
  | f+1, x :: a, y :: b =>
    if x == y then diffSorted f a b
    else if pairLe x y then let r := diffSorted f a (y :: b); (r.1 + 1, r.2)
    else let r := diffSorted f (x :: a) b; (r.1, r.2 + 1)

def pTol : P (Tol F) := do
  let k ← nat
  let lo ← f32
  let hi ← f32
  match k with
  | 0 => pure (.ppm lo hi)
  | 1 => pure (.da lo hi)
  | 2 => pure (.pct lo hi)
  | _ => failure

structure Qry where
  preTol : Tol F
  fragTol : Tol F
  preMass : F
  fragMz : F
  charge : Nat

def Qry.panics (q : Qry) : Bool := match q.fragTol with | .pct _ _ => true | _ => false

def pQry : P Qry := do
  let pt ← pTol
  let ft ← pTol
  let pm ← f32
  let mz ← f32
  let c ← nat
  pure { preTol := pt, fragTol := ft, preMass := pm, fragMz := mz, charge := c }

def pFrag : P (Frag F) := do
  let p ← nat
  let m ← f32
  pure { pep := p, mz := m }

def pPair : P (Nat × Nat) := do
  let p ← nat
  let m ← nat
  pure (p, m)

structure Req where
  Bs : List Nat
  npep : Nat
  qs : List Qry

def pReq : P Req := do
  let _sortmode ← nat
  let _kinds ← nat
  let _minIon ← nat
  let bs ← list nat
  let peps ← list (do let m ← f32; let s ← tok; pure (m, s))
  let qs ← list pQry
  pure { Bs := bs, npep := peps.length, qs := qs }

structure QRes where
  win : List Nat          -- fragLo fragHi preLo preHi (bits)
  res : List (Nat × Nat)
  fresh : Option (List (Nat × Nat)) := none   -- `pageseq`: the same lookup through a FRESH query object

structure BRes where
  frags : List (Frag F)
  minv : List F
  res : List QRes

structure Impl where
  masses : List F
  ions : List (Frag F)
  per : List BRes

def pImpl (seq : Bool) (nB nq : Nat) : P Impl := do
  let masses ← list f32
  let ions ← list pFrag
  let per ← listN (do
      let frags ← list pFrag
      let minv ← list f32
      let res ← listN (do
          let w ← listN nat 4
          let r ← list pPair
          let fr ← if seq then (do let x ← list pPair; pure (some x)) else pure none
          pure ({ win := w, res := r, fresh := fr } : QRes)) nq
      pure ({ frags := frags, minv := minv, res := res } : BRes)) nB
  pure { masses := masses, ions := ions, per := per }

def winBits (w : Q F) : List Nat :=
  [w.fragLo.toBits.toNat, w.fragHi.toBits.toNat, w.preLo.toBits.toNat, w.preHi.toBits.toNat]

def qOfBits : List Nat → Option (Q F)
  | [a, b, c, d] => some { fragLo := Float32.ofBits a.toUInt32, fragHi := Float32.ofBits b.toUInt32,
                           preLo := Float32.ofBits c.toUInt32, preHi := Float32.ofBits d.toUInt32 }
  | _ => none

def modelWindow (q : Qry) : Option (Q F) :=
  window million hundred q.preTol q.fragTol q.preMass q.fragMz (Float32.ofNat q.charge)

def outQRes (r : QRes) : String :=
  " ".intercalate (r.win.map toString) ++ " " ++ outList outPair r.res

/-- first `some` of a list of checks -/
def firstBad : List (Unit → Option String) → String
  | [] => "ok"
  | c :: cs => match c () with
    | some s => "bad:" ++ s
    | none => firstBad cs

/-- the model's answers to all lookups of a case on one index.  `page`: a fresh query per lookup
    (`pageSearchC` on the model's window).  `pageseq`: ONE query object (`mkQuery` from the first query's
    precursor mass and tolerances) and `runSeq` through it, in request order. -/
def searchAll (seq : Bool) (qs : List Qry) (wins : List (Option (Q F))) (masses minv : Array F)
    (frags : List (Frag F)) (B : Nat) : List (List (Nat × Nat)) :=
  if seq then
    match qs with
    | [] => []
    | q0 :: _ =>
      let iq := mkQuery million hundred masses q0.preTol q0.fragTol q0.preMass
      (runSeq million hundred iq masses minv frags B (qs.map fun q => (q.fragMz, Float32.ofNat q.charge))).map
        fun r => match r with
          | some l => sortPairs (l.map pairOf)
          | none => []
  else wins.map fun w => match w with
    | some w => sortPairs ((pageSearchC masses minv frags B w).map pairOf)
    | none => []

def handlePage (seq : Bool) (args impl : List String) : Option Reply := do
  let req ← run pReq args
  let expectPanic := req.Bs.any (· == 0) || (!req.Bs.isEmpty && req.qs.any Qry.panics)
  if impl == ["panic"] then
    return { model := if expectPanic then "panic" else "no-panic", agree := expectPanic,
             spec := if expectPanic then "ok" else "bad:panic" }
  if expectPanic then
    return { model := "panic", agree := false, spec := "na" }
  match run (pImpl seq req.Bs.length req.qs.length) impl with
  | none => return { model := "unparsable-impl-reply", agree := false, spec := "na" }
  | some im =>
    let masses := im.masses.toArray
    let wins : List (Option (Q F)) := req.qs.map modelWindow
    -- the model: build the index from the generated ions with each B, then search
    let modelPer : List (List QRes × Bool) := (req.Bs.zip im.per).map fun (B, br) =>
      match buildIndex B im.ions with
      | none => ([], false)
      | some (minvM, fragsM) =>
        let resB := searchAll seq req.qs wins masses minvM fragsM B
        -- the same search on the layout the REAL builder produced
        let resA := searchAll seq req.qs wins masses br.minv.toArray br.frags B
        let rs := (wins.zip (resB.zip resA)).map fun (w, rB, rA) => match w with
          | none => (({ win := [], res := [] } : QRes), true)
          | some w => ({ win := winBits w, res := rB }, rA == rB)
        (rs.map (·.1), rs.all (·.2) && resB.length == wins.length && resA.length == wins.length)
    let model := " ".intercalate (modelPer.map fun (rs, _) => " ".intercalate (rs.map outQRes))
    let implStr := " ".intercalate (im.per.map fun br => " ".intercalate (br.res.map outQRes))
    -- `pageseq`: the fresh-query answers must equal the model's too
    let freshOk := (modelPer.zip im.per).all fun ((rs, _), br) =>
      (rs.zip br.res).all fun (m, i) => match i.fresh with
        | some fr => fr == m.res
        | none => true
    let agree := words model == words implStr && modelPer.all (·.2) && freshOk
    -- the spec, on the implementation's reply
    let ionsSorted := sortPairs (im.ions.map pairOf)
    let perB : List (Nat × BRes) := req.Bs.zip im.per
    let checks : List (Unit → Option String) :=
      (perB.map fun ((B, br) : Nat × BRes) => fun (_ : Unit) =>
        let c := dbInvClause masses br.minv.toArray br.frags B
        if c != "" then some s!"dbinv-{c}@B={B}" else
        if sortPairs (br.frags.map pairOf) != ionsSorted then some s!"frag-multiset@B={B}" else
        ((List.range br.res.length).zip br.res).findSome? fun (qi, qr) =>
          -- the window is judged too: it is recomputed from the REQUEST by the model's `window`
          -- (`Tol.bounds`, the subject of Props/C03Tol) at Float32, operation by operation as coded
          -- (`mz * z`, `lo / z`, `(c * lo) / 1e6`, `c + delta`), and the scan below uses THAT window, so
          -- "none missing" and "none extra" are relative to the definition, not to what the code reported
          match wins[qi]?.join with
          | none => some s!"window@B={B},q={qi}"
          | some w =>
            -- a lookup through the shared query object must equal the same lookup through a fresh one
            if (match qr.fresh with | some fr => fr != qr.res | none => false) then
              some s!"lookup_depends_on_history@B={B},q={qi}" else
            let want := sortPairs ((scan masses br.frags w).map pairOf)
            let d := diffSorted (want.length + qr.res.length + 1) want qr.res
            if d.1 != 0 then some s!"scan-missing@B={B},q={qi}"
            else if d.2 != 0 then some s!"scan-extra@B={B},q={qi}"
            else if sortPairs qr.res != qr.res then some s!"unsorted-reply@B={B},q={qi}"
            else if qr.win != winBits w then some s!"window_ne_definition@B={B},q={qi}"
            else none) ++
      [fun (_ : Unit) =>
        match im.per with
        | [] => none
        | b0 :: rest =>
          (List.range req.qs.length).findSome? fun qi =>
            if rest.all (fun b => (b.res[qi]?.map (·.res)) == (b0.res[qi]?.map (·.res))) then none
            else some s!"bucket-dependence@q={qi}"]
    return { model := if (words model).isEmpty then "-" else " ".intercalate (words model), agree := agree,
             spec := firstBad checks }

def handle (op : String) (args impl : List String) : Option Reply :=
  match op with
  | "bss" => do
    let (xs, lo, hi) ← run (do let xs ← list f32; let lo ← f32; let hi ← f32; pure (xs, lo, hi)) args
    let arr := xs.toArray
    let r := binarySearchSlice arr lo hi
    let model := s!"{r.1} {r.2}"
    let spec : String :=
      match run (do let l ← nat; let r ← nat; pure (l, r)) impl with
      | none => if impl == ["panic"] then "bad:panic" else "na"
      | some (L, R) =>
        let c := bssClause arr lo hi L R
        if c == "" then "ok" else "bad:" ++ c
    pure (exact model (" ".intercalate impl) spec)
  | "page" => handlePage false args impl
  | "dbinv" => handlePage false args impl
  | "pageseq" => handlePage true args impl
  | _ => none

end Sage.C03
