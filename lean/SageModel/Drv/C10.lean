import SageModel.Proto
import SageModel.Model.C10

/-! Driver ops for C10 (all arithmetic at `Float32`, compared bit-for-bit).

`process max deiso u32(minmz) level centroid charge? [n (u32 mz, u32 int)…]  |  [k (u32 mass, u32 int)…] u32(tic)`  or `panic`
`deiso   maxz u32(ppm) u32(minmz) [n (u32 mz, u32 int)…]                    |  [n (u32 mz, u32 int, z?, env?)…]`

`procfull max deiso u32(minmz) <raw>  |  level h:id file_id u32(sst) u32(iit) [np precursor…] [k (mass int)…] u32(tic)`  or `panic`
`procims  max deiso u32(minmz) <raw>  |  level h:id file_id u32(sst) u32(iit) [np precursor…] [k (mass int mob)…] u32(tic)`  or `panic`
   `<raw>` = `file_id level h:id centroid u32(sst) u32(iit) u32(raw_tic) [np precursor…] [n (mz int)…] mob?`
   `precursor` = `u32(mz) int? charge? ref? win? iim?`, `win` = `kind(0 ppm,1 pct,2 da) u32 u32`, `mob?` = `0 | 1 [m u32…]`

`agree` is exact token equality.  One exception, `process` with deisotoping: the code orders the deisotoped
peaks with `sort_unstable_by`; when two of them have bit-equal (intensity, m/z) keys but different charge /
envelope the order among them is unspecified, so on such inputs (and only on such) a reply that differs from
the model's stable-sort answer is accepted iff the spec (which allows any choice among tied entries) accepts it.
-/
namespace Sage.C10
open Sage.Proto

def pPair : P (Float32 × Float32) := do
  let a ← f32
  let b ← f32
  pure (a, b)

def pPeak : P (Peak Float32) := do
  let m ← f32
  let i ← f32
  pure { mass := m, intensity := i }

def pDeiso : P (Deiso Float32) := do
  let m ← f32
  let i ← f32
  let z ← opt nat
  let e ← opt nat
  pure { mz := m, intensity := i, charge := z, envelope := e }

def outPeak (p : Peak Float32) : String := outF32 p.mass ++ " " ++ outF32 p.intensity

def outDeiso (d : Deiso Float32) : String :=
  outF32 d.mz ++ " " ++ outF32 d.intensity ++ " " ++ outOpt toString d.charge ++ " " ++ outOpt toString d.envelope

/-- two deisotoped entries with the same sort key but a different payload: `sort_unstable_by` may order them either way -/

def pTol : P (Tol Float32) := do
  let k ← nat; let lo ← f32; let hi ← f32
  match k with
  | 0 => pure (.ppm lo hi)
  | 1 => pure (.pct lo hi)
  | 2 => pure (.da lo hi)
  | _ => failure

def pPrecursor : P (Precursor Float32) := do
  let mz ← f32; let i ← opt f32; let z ← opt nat; let r ← opt bytes; let w ← opt pTol; let m ← opt f32
  pure { mz := mz, intensity := i, charge := z, spectrumRef := r, isolationWindow := w, inverseIonMobility := m }

def outTol : Tol Float32 → String
  | .ppm lo hi => "0 " ++ outF32 lo ++ " " ++ outF32 hi
  | .pct lo hi => "1 " ++ outF32 lo ++ " " ++ outF32 hi
  | .da lo hi => "2 " ++ outF32 lo ++ " " ++ outF32 hi

def outPrecursor (p : Precursor Float32) : String :=
  " ".intercalate [outF32 p.mz, outOpt outF32 p.intensity, outOpt toString p.charge, outOpt hex p.spectrumRef,
    outOpt outTol p.isolationWindow, outOpt outF32 p.inverseIonMobility]

def pRawFull : P (RawFull Float32) := do
  let fid ← nat; let level ← nat; let id ← bytes; let c ← bool; let sst ← f32; let iit ← f32; let rt ← f32
  let pre ← list pPrecursor; let peaks ← list pPair; let mob ← opt (list f32)
  pure { fileId := fid, level := level, id := id, precursors := pre, centroid := c, scanStartTime := sst,
         ionInjectionTime := iit, totalIonCurrent := rt, peaks := peaks, mobility := mob }

/-- the pass-through part of a reply: `level h:id file_id u32(sst) u32(iit) [np precursor…]` -/
def outMeta (r : RawFull Float32) : String :=
  " ".intercalate [toString r.level, hex r.id, toString r.fileId, outF32 r.scanStartTime, outF32 r.ionInjectionTime,
    outList outPrecursor r.precursors]

def outIMPeak (p : IMPeak Float32) : String := outF32 p.mass ++ " " ++ outF32 p.intensity ++ " " ++ outF32 p.mobility

def pIMPeak : P (IMPeak Float32) := do
  let m ← f32; let i ← f32; let b ← f32
  pure { mass := m, intensity := i, mobility := b }

def imEq (a b : IMPeak Float32) : Bool := teq a.intensity b.intensity && teq a.mass b.mass && teq a.mobility b.mobility

def imSorted : List (IMPeak Float32) → Bool
  | a :: b :: rest => imMassLe a b && imSorted (b :: rest)
  | _ => true

/-- does `impl` start with the tokens of `pre`?  returns the rest -/
def stripPrefix (pre impl : List String) : Option (List String) :=
  if impl.take pre.length == pre then some (impl.drop pre.length) else none

def hasKeyTie (d : List (Deiso Float32)) : Bool :=
  let rec go : List (Deiso Float32) → Bool
    | [] => false
    | x :: xs => xs.any (fun y => deisoKeyEq x y && (x.charge != y.charge || x.envelope != y.envelope)) || go xs
  go d

/-- Lean cannot observe the sign or payload of a NaN (`Float32.toBits` canonicalises to 0x7fc00000), so NaN tokens of the
    implementation's reply are canonicalised the same way before anything is compared (float tokens are the only
    tokens that large) -/
def canonNaN (t : String) : String :=
  match t.toNat? with
  | some n => if (2139095040 < n && n ≤ 2147483647) || (4286578688 < n && n ≤ 4294967295) then "2143289344" else t
  | none => t

def handle (op : String) (args impl0 : List String) : Option Reply :=
  let impl := impl0.map canonNaN
  match op with
  | "process" => do
    let (k, deiso, minMz, level, centroid, charge, peaks) ← run (do
      let k ← nat; let d ← bool; let m ← f32; let l ← nat; let c ← bool; let z ← opt nat
      let p ← list pPair
      pure (k, d, m, l, c, z, p)) args
    let cfg : Cfg Float32 := { takeTopN := k, deisotope := deiso, minDeisoMz := minMz }
    let raw : Raw Float32 := { level := level, centroid := centroid, charge := charge, peaks := peaks }
    let model : String :=
      match process cfg raw with
      | none => "panic"
      | some (l, t) => outList outPeak l ++ " " ++ outF32 t
    let implS := " ".intercalate impl
    -- spec on the implementation's reply
    let spec : String :=
      if impl == ["panic"] then
        -- the only input class the code may reject: profile data at MS2
        (if level == 2 && !centroid then "ok" else "bad:panic")
      else
        match run (do let l ← list pPeak; let t ← f32; pure (l, t)) impl with
        | none => "bad:malformed_reply"
        | some (out, t) =>
          if level == 2 && !centroid then "bad:profile_accepted" else specProcess cfg raw out t
    let r := exact model implS spec
    if r.agree then pure r else
      let tie := level == 2 && centroid && deiso &&
        hasKeyTie (deisotope peaks (charge.getD 3) (Num.ofNat 10) minMz)
      pure { r with agree := tie && spec == "ok" }
  | "procfull" => do
    let (k, deiso, minMz, raw) ← run (do
      let k ← nat; let d ← bool; let m ← f32; let r ← pRawFull
      pure (k, d, m, r)) args
    let cfg : Cfg Float32 := { takeTopN := k, deisotope := deiso, minDeisoMz := minMz }
    let model : String :=
      match processFull cfg raw with
      | none => "panic"
      | some o => outMeta raw ++ " " ++ outList outPeak o.peaks ++ " " ++ outF32 o.totalIonCurrent
    let implS := " ".intercalate impl
    let rejects := raw.level == 2 && !raw.centroid
    let spec : String :=
      if impl == ["panic"] then (if rejects then "ok" else "bad:panic")
      else if rejects then "bad:profile_accepted"
      else
        -- every pass-through field must come back as it went in
        match stripPrefix (words (outMeta raw)) impl with
        | none => "bad:passthrough"
        | some rest =>
          match run (do let l ← list pPeak; let t ← f32; pure (l, t)) rest with
          | none => "bad:malformed_reply"
          | some (out, t) => specProcess cfg raw.toRaw out t
    let r := exact model implS spec
    if r.agree then pure r else
      let tie := raw.level == 2 && raw.centroid && deiso &&
        hasKeyTie (deisotope raw.peaks (raw.toRaw.charge.getD 3) (Num.ofNat 10) minMz)
      pure { r with agree := tie && spec == "ok" }
  | "procims" => do
    let (_, _, _, raw) ← run (do
      let k ← nat; let d ← bool; let m ← f32; let r ← pRawFull
      pure (k, d, m, r)) args
    let model : String :=
      match processIms raw with
      | none => "panic"
      | some o => outMeta raw ++ " " ++ outList outIMPeak o.peaks ++ " " ++ outF32 o.totalIonCurrent
    let rejects := raw.level != 1 || raw.mobility.isNone
    let spec : String :=
      if impl == ["panic"] then (if rejects then "ok" else "bad:panic")
      else if rejects then "bad:ims_precondition_accepted"
      else
        match stripPrefix (words (outMeta raw)) impl with
        | none => "bad:passthrough"
        | some rest =>
          match run (do let l ← list pIMPeak; let t ← f32; pure (l, t)) rest with
          | none => "bad:malformed_reply"
          | some (out, t) =>
            let all := zipMob raw.peaks (raw.mobility.getD [])
            if !imSorted out then "bad:sorted" else
            if out.length != all.length then "bad:length" else
            match msub imEq all out with
            | some [] =>
              if teq (out.foldl (fun a p => Num.add a p.intensity) Num.sumZero) t then "ok" else "bad:tic"
            | _ => "bad:ms1_keeps_all"
    pure (exact model (" ".intercalate impl) spec)
  | "deiso" => do
    let (maxz, ppm, minMz, peaks) ← run (do
      let z ← nat; let p ← f32; let m ← f32; let l ← list pPair
      pure (z, p, m, l)) args
    let d := deisotope peaks maxz ppm minMz
    let model := outList outDeiso d
    let spec : String :=
      match run (list pDeiso) impl with
      | none => if impl == ["panic"] then "bad:panic" else "bad:malformed_reply"
      | some out => specDeisotope peaks maxz ppm minMz out
    pure (exact model (" ".intercalate impl) spec)
  | _ => none

end Sage.C10
