import SageModel.Proto
import SageModel.Model.C10

/-! Driver ops for C10 (all arithmetic at `Float32`, compared bit-for-bit).

`process max deiso u32(minmz) level centroid charge? [n (u32 mz, u32 int)…]  |  [k (u32 mass, u32 int)…] u32(tic)`  or `panic`
`deiso   maxz u32(ppm) u32(minmz) [n (u32 mz, u32 int)…]                    |  [n (u32 mz, u32 int, z?, env?)…]`

`agree` is exact token equality.  One exception, `process` with deisotoping: the code orders the deisotoped
peaks with `sort_unstable_by`; when two of them have bit-equal (intensity, m/z) keys but different charge /
envelope the order among them is unspecified, so on such inputs (and only on such) a reply that differs from
the model's stable-sort answer is accepted iff the spec (which allows any choice among tied entries) accepts it.
-/
namespace Sage.C10
open Sage.Proto

def pPair : P (Float32 × Float32) := do
  let a ← f32
  let b ← f32
  pure (a, b)

def pPeak : P (Peak Float32) := do
  let m ← f32
  let i ← f32
  pure { mass := m, intensity := i }

def pDeiso : P (Deiso Float32) := do
  let m ← f32
  let i ← f32
  let z ← opt nat
  let e ← opt nat
  pure { mz := m, intensity := i, charge := z, envelope := e }

def outPeak (p : Peak Float32) : String := outF32 p.mass ++ " " ++ outF32 p.intensity

def outDeiso (d : Deiso Float32) : String :=
  outF32 d.mz ++ " " ++ outF32 d.intensity ++ " " ++ outOpt toString d.charge ++ " " ++ outOpt toString d.envelope

/-- two deisotoped entries with the same sort key but a different payload: `sort_unstable_by` may order them either way -/
def hasKeyTie (d : List (Deiso Float32)) : Bool :=
  let rec go : List (Deiso Float32) → Bool
    | [] => false
    | x :: xs => xs.any (fun y => deisoKeyEq x y && (x.charge != y.charge || x.envelope != y.envelope)) || go xs
  go d

def handle (op : String) (args impl : List String) : Option Reply :=
  match op with
  | "process" => do
    let (k, deiso, minMz, level, centroid, charge, peaks) ← run (do
      let k ← nat; let d ← bool; let m ← f32; let l ← nat; let c ← bool; let z ← opt nat
      let p ← list pPair
      pure (k, d, m, l, c, z, p)) args
    let cfg : Cfg Float32 := { takeTopN := k, deisotope := deiso, minDeisoMz := minMz }
    let raw : Raw Float32 := { level := level, centroid := centroid, charge := charge, peaks := peaks }
    let model : String :=
      match process cfg raw with
      | none => "panic"
      | some (l, t) => outList outPeak l ++ " " ++ outF32 t
    let implS := " ".intercalate impl
    -- spec on the implementation's reply
    let spec : String :=
      if impl == ["panic"] then
        -- the only input class the code may reject: profile data at MS2
        (if level == 2 && !centroid then "ok" else "bad:panic")
      else
        match run (do let l ← list pPeak; let t ← f32; pure (l, t)) impl with
        | none => "bad:malformed_reply"
        | some (out, t) =>
          if level == 2 && !centroid then "bad:profile_accepted" else specProcess cfg raw out t
    let r := exact model implS spec
    if r.agree then pure r else
      let tie := level == 2 && centroid && deiso &&
        hasKeyTie (deisotope peaks (charge.getD 3) (Num.ofNat 10) minMz)
      pure { r with agree := tie && spec == "ok" }
  | "deiso" => do
    let (maxz, ppm, minMz, peaks) ← run (do
      let z ← nat; let p ← f32; let m ← f32; let l ← list pPair
      pure (z, p, m, l)) args
    let d := deisotope peaks maxz ppm minMz
    let model := outList outDeiso d
    let spec : String :=
      match run (list pDeiso) impl with
      | none => if impl == ["panic"] then "bad:panic" else "bad:malformed_reply"
      | some out => specDeisotope peaks maxz ppm minMz out
    pure (exact model (" ".intercalate impl) spec)
  | _ => none

end Sage.C10
