import SageModel.Proto
import SageModel.Generated.Consts
import SageModel.Model.C06
import SageModel.Model.C05
import SageModel.Model.C06Db

/-! Driver ops for C06.

```
modkey <key:hex utf-8>
   | ok <kind 0..4> <0 | 1 residue> <display:hex>  |  err:empty | err:residue <code point> | err:toolong
        kind: 0 PeptideN(^) 1 PeptideC($) 2 ProteinN([) 3 ProteinC(]) 4 Residue

apply <pos 0..3> <seq:hex> <max> <nvar> {<key:hex> <nmass> <f32>*} <nstatic> {<key:hex> <f32>}
   | err:invalid
   | ok <k> <static request index>*k <nforms> {<0|1 f32> <len> <f32>*len <0|1 f32> <f32 mono>}
        pos: 0 Nterm 1 Cterm 2 Full 3 Internal.  The k indices are the iteration order of the
        validated static-mod HashMap (random per process). Forms are sorted by their token lists.

dbforms <seq:hex> <max> <f32 lo> <f32 hi> <vars as above> <statics as above>
   | ok <nforms> {form as above} <nall> {form}
        (Parameters::digest on a one-protein FASTA, whole protein = one peptide, Position::Full; sorted and
         de-duplicated; first with the bounds [lo, hi], then with [-inf, +inf])
```
dbdigest <7 opt EnzymeBuilder fields as in C05's `digest`: mc min_len max_len cleave:hex restrict c_terminal semi>
         <protein:hex> <max> <f32 lo> <f32 hi> <vars> <statics>
   | panic | ok <n> {<seq:hex> form} <nall> {<seq:hex> form}
        (Parameters::digest on a one-protein FASTA digested with a real enzyme: N-terminal, C-terminal,
         internal and full-length peptides; sorted by (sequence, form) and de-duplicated; bounds [lo, hi], then
         [-inf, +inf]. The expected peptides and their positions come from C05's model of the digestion.)
pepdisplay <same arguments as apply>
   | err:invalid | ok <ntab> {<f32> <text:hex>} <nforms> {form <display:hex>}
        (`to_string()` of every form; the `{:+}` text of each shown mass is data. The model recomputes every
         display string from the implementation's own fields with `display` and the table as `fmt`.)
dbmulti <7 opt EnzymeBuilder fields> <k> {<protein:hex>}*k <max> <vars> <statics>
   | panic | ok <n> {<seq:hex> form <position 0..3> <j> <protein index>*j}
        (Parameters::digest on a FASTA of k target proteins P0..P(k-1), no decoys, no mass bounds: every database
         entry with its protein list and its `position` field; sorted. Model: Model/C06Db.lean — group_digests groups
         by (position, sequence); equal forms of different groups are merged, proteins united, position = min.)
modjson <dupfield 0|1> <ns> {<key:hex> <kind> <f32>} <nv> {<key:hex> <kind> <n> <f32>*n}
   | err:json | ok <ns'> {<kind 0..4> <0|1 r> <f32>} <nv'> {<kind> <0|1 r> <n> <f32>*n}
        (a JSON search configuration rendered by the harness — members in the given order, repeated keys allowed,
         value kind 0 = well-typed, other kinds = wrong JSON type / `NaN` literal — through serde into
         sage_cli::input::Input, then Input::build: the static and variable mod maps of the built Parameters, sorted
         by specificity. dupfield = the `static_mods` member itself is written twice.)
All float comparisons are bit-exact (only `+` in a fixed order is involved).
-/
namespace Sage.C06
open Sage.Proto

/-- key bytes → code points (`none` if not UTF-8) -/
def codePoints (b : List UInt8) : Option (List Nat) :=
  (String.fromUTF8? (ByteArray.mk b.toArray)).map fun s => s.toList.map Char.toNat

def key : P (List Nat) := do
  let b ← bytes
  match codePoints b with
  | some k => pure k
  | none => failure

def position : P Position := do
  let n ← nat
  match n with
  | 0 => pure .nterm
  | 1 => pure .cterm
  | 2 => pure .full
  | 3 => pure .internal
  | _ => failure

def varMods : P (List (List Nat × List Nat)) := list (do let k ← key; let ms ← list nat; pure (k, ms))
def staticMods : P (List (List Nat × Nat)) := list (do let k ← key; let m ← nat; pure (k, m))

def f32b (b : Nat) : Float32 := Float32.ofBits b.toUInt32
def H2Of : Float32 := f32b Sage.Gen.H2O_bits
def tableF : List Float32 := Sage.Gen.MONOISOTOPIC_bits.map f32b

/-- a form on the wire: `<0|1 f32> <len> <f32>* <0|1 f32> <f32 mono>` as numbers -/
def formToks (p : Peptide Float32) : List Nat :=
  let o : Option Float32 → List Nat := fun
    | none => [0]
    | some x => [1, x.toBits.toNat]
  o p.nterm ++ [p.mods.length] ++ p.mods.map (·.toBits.toNat) ++ o p.cterm ++ [p.mono.toBits.toNat]

def lexLe : List Nat → List Nat → Bool
  | [], _ => true
  | _ :: _, [] => false
  | a :: as, b :: bs => a < b || (a == b && lexLe as bs)

def renderForms (fs : List (Peptide Float32)) (dedupe : Bool := false) : String :=
  let toks := (fs.map formToks).mergeSort lexLe
  let toks := if dedupe then toks.eraseDups else toks
  " ".intercalate (toString toks.length :: toks.map fun t => " ".intercalate (t.map toString))

structure WireForm where
  nterm : Option Nat
  mods : List Nat
  cterm : Option Nat
  mono : Nat

def wireForm : P WireForm := do
  let n ← opt nat
  let m ← list nat
  let c ← opt nat
  let mono ← nat
  pure { nterm := n, mods := m, cterm := c, mono := mono }

def optRat : Option Nat → Option (Option Rat)
  | none => some none
  | some b => (ratOfF32Bits b).map some

def allSome {β : Type} : List (Option β) → Option (List β)
  | [] => some []
  | none :: _ => none
  | some x :: xs => (allSome xs).map (x :: ·)

/-- exact rational reading of an observed form (`none` if some value is not finite) -/
def WireForm.toRat (w : WireForm) : Option (Form × Rat) := do
  let n ← optRat w.nterm
  let m ← allSome (w.mods.map ratOfF32Bits)
  let c ← optRat w.cterm
  let mono ← ratOfF32Bits w.mono
  pure ({ nterm := n, mods := m, cterm := c }, mono)

def absRat (x : Rat) : Rat := if x < 0 then -x else x

/-- rounding allowance for the f32 evaluation of the mass formula: `k` additions, each with relative
    error ≤ 2⁻²⁴ on a partial sum bounded by `S = Σ|operand|`; stated with a factor 2 of slack -/
def massAllowance (seq : List Nat) (f : Form) : Rat :=
  let ops : Rat := ((2 * seq.length + 4 : Nat) : Rat)
  let s : Rat := Sage.Gen.H2O + sumRat (seq.map (monoisotopic Sage.Gen.MONOISOTOPIC))
    + sumRat (f.mods.map absRat) + absRat (f.nterm.getD 0) + absRat (f.cterm.getD 0)
  (ops + 1) * s / 8388608

/-- the executable spec on observed forms (enumeration clauses + mass formula) -/
def formsVerdict (seq : List Nat) (pos : Position) (varsQ staticsQ : List (Target × Rat)) (max : Nat)
    (got : List (Form × Rat)) (strict : Bool) : String :=
  let want := refForms seq pos varsQ staticsQ max
  let v := enumVerdict want (got.map (·.1)) strict
  if v != "ok" then v else
  match got.find? (fun fm => decide (absRat (fm.2 - refMass seq fm.1) > massAllowance seq fm.1)) with
  | some _ => "bad:mass_formula"
  | none => "ok"

/-- masses offered only by keys OUTSIDE the documented grammar (which must be dropped, never applied) -/
def rejectedOnlyMasses (vars : List (List Nat × List Nat)) (statics : List (List Nat × Nat)) : List Rat :=
  let bad : List Nat := (vars.filter fun km => (grammar.lookup km.1).isNone).flatMap (·.2) ++
    (statics.filter fun km => (grammar.lookup km.1).isNone).map (·.2)
  let good : List Nat := (vars.filter fun km => (grammar.lookup km.1).isSome).flatMap (·.2) ++
    (statics.filter fun km => (grammar.lookup km.1).isSome).map (·.2)
  (bad.filter fun b => !good.contains b).filterMap ratOfF32Bits

/-- "rejected rather than misapplied": a form that is not a placement and carries a mass that only a key
    outside the grammar offers means that key was accepted -/
def refineKeyVerdict (v : String) (rejected : List Rat) (got : List Form) : String :=
  if v.startsWith "bad:form_not_a_placement" &&
      got.any (fun f => (f.nterm.toList ++ f.cterm.toList ++ f.mods).any fun m => m != 0 && rejected.contains m)
  then "bad:invalid_key_accepted" else v

def ratMods (l : List (Target × Nat)) : Option (List (Target × Rat)) :=
  allSome (l.map fun tm => (ratOfF32Bits tm.2).map fun q => (tm.1, q))

/-- C05's position as C06's -/
def posOf5 : Sage.C05.Position → Position
  | .nterm => .nterm | .cterm => .cterm | .full => .full | .internal => .internal

def pBuilder5 : P Sage.C05.Builder := do
  let mc ← opt nat
  let mn ← opt nat
  let mx ← opt nat
  let cl ← opt bytes
  let sk ← opt nat
  let ct ← opt bool
  let se ← opt bool
  pure ⟨mc, mn, mx, cl, sk.map Nat.toUInt8, ct, se⟩

/-- sort key / wire text of a peptide form of a digested protein: sequence, then the form -/
def pepToks (p : Peptide Float32) : List Nat := p.sequence.length :: p.sequence ++ formToks p

def renderPeps (fs : List (Peptide Float32)) : String :=
  let toks := ((fs.map fun p => (pepToks p, p)).mergeSort fun a b => lexLe a.1 b.1)
  let rec dd : List (List Nat × Peptide Float32) → List (List Nat × Peptide Float32)
    | a :: b :: rest => if a.1 == b.1 then dd (b :: rest) else a :: dd (b :: rest)
    | l => l
  let toks := dd toks
  " ".intercalate (toString toks.length :: toks.map fun t =>
    hex (t.2.sequence.map Nat.toUInt8) ++ " " ++ " ".intercalate ((formToks t.2).map toString))

def wirePep : P (List Nat × WireForm) := do
  let s ← bytes
  let w ← wireForm
  pure (s.map (·.toNat), w)

def wireToks (w : WireForm) : List Nat :=
  (match w.nterm with | none => [0] | some x => [1, x]) ++ [w.mods.length] ++ w.mods ++
  (match w.cterm with | none => [0] | some x => [1, x]) ++ [w.mono]

def handle (op : String) (args impl : List String) : Option Reply :=
  match op with
  | "modkey" => do
    let k ← run key args
    let dispHex := fun (t : Target) => hex (String.ofList (t.display.map Char.ofNat)).toUTF8.toList
    let (model, _) : String × Option Target :=
      match fromStr k with
      | .ok t =>
        let (kind, r) : Nat × Option Nat := match t with
          | .peptideN r => (0, r) | .peptideC r => (1, r) | .proteinN r => (2, r) | .proteinC r => (3, r)
          | .residue r => (4, some r)
        (s!"ok {kind} {outOpt toString r} {dispHex t}", some t)
      | .error .empty => ("err:empty", none)
      | .error (.invalidResidue c) => (s!"err:residue {c}", none)
      | .error .tooLong => ("err:toolong", none)
    -- the spec on the implementation's reply: accepted exactly the documented keys, with their meaning
    let got : Option (Option Target) :=
      match impl with
      | "ok" :: rest =>
        match runPrefix (do let kind ← nat; let r ← opt nat; pure (kind, r)) rest with
        | some ((0, r), _) => some (some (.peptideN r))
        | some ((1, r), _) => some (some (.peptideC r))
        | some ((2, r), _) => some (some (.proteinN r))
        | some ((3, r), _) => some (some (.proteinC r))
        | some ((4, some r), _) => some (some (.residue r))
        | _ => none
      | t :: _ => if t.startsWith "err:" then some none else none
      | [] => none
    let spec := match got with
      | some g => keyVerdict k g
      | none => "bad:reply_unreadable"
    pure (exact model (" ".intercalate impl) spec)
  | "apply" => do
    let (pos, seq, max, vars, statics) ← run (do
      let pos ← position; let seq ← bytes; let max ← nat; let v ← varMods; let s ← staticMods
      pure (pos, seq.map (·.toNat), max, v, s)) args
    -- validated modifications (invalid keys are dropped, as `validate_mods` does)
    let varsV : List (Target × Nat) := validateVar vars
    let staticsIdx : List (List Nat × (Nat × Nat)) := (statics.zipIdx).map fun (km, i) => (km.1, (i, km.2))
    let staticsV : List (Target × (Nat × Nat)) := validate staticsIdx
    let validIdx := staticsV.map (·.2.1)
    let disjoint := staticsDisjoint seq pos staticsV
    -- the implementation reports the iteration order of its static-mod HashMap
    let implOrder : Option (List Nat) :=
      match impl with
      | "ok" :: rest => (runPrefix (list nat) rest).map (·.1)
      | _ => none
    let isPerm (o : List Nat) : Bool := o.length == validIdx.length && validIdx.all o.contains && o.all validIdx.contains
    let echoOrder : List Nat := match implOrder with
      | some o => if isPerm o then o else validIdx
      | none => validIdx
    -- non-overlapping static mods: the model uses the REQUEST order (the result must not depend on
    -- the map's order); overlapping ones: first writer wins, so the model follows the reported order
    let useOrder := if disjoint then validIdx else echoOrder
    let staticsOrdered : List (Target × Nat) :=
      useOrder.filterMap fun i => (staticsV.find? (·.2.1 == i)).map fun tm => (tm.1, tm.2.2)
    let varsF := varsV.map fun tm => (tm.1, f32b tm.2)
    let staticsF := staticsOrdered.map fun tm => (tm.1, f32b tm.2)
    let model : String :=
      match tryFrom H2Of tableF pos seq with
      | none => "err:invalid"
      | some p => s!"ok {outList toString echoOrder} {renderForms (apply p varsF staticsF max)}"
    -- spec on the implementation's reply
    let seqValid := seq.all fun c => Sage.Gen.VALID_AA.contains c
    let spec : String :=
      match impl with
      | ["err:invalid"] => if seqValid then "bad:valid_sequence_rejected" else "ok"
      | "ok" :: rest =>
        if !seqValid then "bad:invalid_sequence_accepted" else
        match run (do let _ ← list nat; list wireForm) rest with
        | none => "bad:reply_unreadable"
        | some wfs =>
          match allSome (wfs.map WireForm.toRat), ratMods varsV, ratMods (staticsOrdered) with
          | some got, some varsQ, some staticsQ =>
            if !disjoint then "na" else
            if varsQ.any (·.2 == 0) || staticsQ.any (·.2 == 0) then "na" else
            let strict := nodupB (specCands seq pos varsQ)
            let v := formsVerdict seq pos varsQ staticsQ max got strict
            let v := refineKeyVerdict v (rejectedOnlyMasses vars statics) (got.map (·.1))
            if v != "ok" then v else if strict then "ok" else "na"
          | _, _, _ => "na"
      | _ => "bad:reply_unreadable"
    pure (exact model (" ".intercalate impl) spec)
  | "dbforms" => do
    let (seq, max, lo, hi, vars, statics) ← run (do
      let seq ← bytes; let max ← nat; let lo ← nat; let hi ← nat; let v ← varMods; let s ← staticMods
      pure (seq.map (·.toNat), max, lo, hi, v, s)) args
    let varsV : List (Target × Nat) := validateVar vars
    let staticsV : List (Target × Nat) := validate statics
    let disjoint := staticsDisjoint seq .full staticsV
    let varsF := varsV.map fun tm => (tm.1, f32b tm.2)
    let staticsF := staticsV.map fun tm => (tm.1, f32b tm.2)
    -- `Builder::make_parameters` clamps `max_variable_mods` to at least 1
    let max := if max == 0 then 1 else max
    let ninf : Float32 := f32b 4286578688
    let pinf : Float32 := f32b 2139095040
    let model := "ok " ++ renderForms (dbForms H2Of tableF .full seq varsF staticsF max (f32b lo) (f32b hi)) true
      ++ " " ++ renderForms (dbForms H2Of tableF .full seq varsF staticsF max ninf pinf) true
    let spec : String :=
      if !disjoint then "na" else
      match impl with
      | "ok" :: rest =>
        match run (do let a ← list wireForm; let b ← list wireForm; pure (a, b)) rest with
        | none => "bad:reply_unreadable"
        | some (kept, all) =>
          -- range clause, exact, on the implementation's own f32 masses: what enters the database with
          -- bounds [lo, hi] is what enters without bounds, restricted to lo ≤ mass ≤ hi (inclusive)
          let toks (w : WireForm) : List Nat :=
            (match w.nterm with | none => [0] | some x => [1, x]) ++ [w.mods.length] ++ w.mods ++
            (match w.cterm with | none => [0] | some x => [1, x]) ++ [w.mono]
          let inRange (w : WireForm) : Bool :=
            decide (f32b lo ≤ f32b w.mono) && decide (f32b w.mono ≤ f32b hi)
          if (all.filter inRange).map toks != kept.map toks then "bad:range_filter" else
          -- "each once": the database holds no two entries with the same sequence and modifications
          if !nodupB (all.map toks) then "bad:form_listed_twice" else
          match allSome (all.map WireForm.toRat), ratMods varsV, ratMods staticsV with
          | some got, some varsQ, some staticsQ =>
            if varsQ.any (·.2 == 0) || staticsQ.any (·.2 == 0) then "na" else
            if !(seq.all fun c => Sage.Gen.VALID_AA.contains c) then
              (if got.isEmpty then "ok" else "bad:invalid_sequence_accepted") else
            -- the database merges equal forms: compare with the reference enumeration as sets
            refineKeyVerdict (formsVerdict seq .full varsQ staticsQ max got false)
              (rejectedOnlyMasses vars statics) (got.map (·.1))
          | _, _, _ => "na"
      | _ => "bad:reply_unreadable"
    pure (exact model (" ".intercalate impl) spec)
  | "modjson" => do
    let (dup, statics, vars) ← run (do
      let dup ← nat
      let s ← list (do let k ← key; let kind ← nat; let m ← nat; pure (k, kind, m))
      let v ← list (do let k ← key; let kind ← nat; let ms ← list nat; pure (k, kind, ms))
      pure (dup, s, v)) args
    let targetToks (t : Target) : List Nat :=
      match t with
      | .peptideN r => 0 :: (match r with | none => [0] | some x => [1, x])
      | .peptideC r => 1 :: (match r with | none => [0] | some x => [1, x])
      | .proteinN r => 2 :: (match r with | none => [0] | some x => [1, x])
      | .proteinC r => 3 :: (match r with | none => [0] | some x => [1, x])
      | .residue r => [4, 1, r]
    let render (ss : List (Target × Nat)) (vs : List (Target × List Nat)) : String :=
      let srows := (ss.map fun tm => targetToks tm.1 ++ [tm.2]).mergeSort lexLe
      let vrows := (vs.map fun tm => targetToks tm.1 ++ (tm.2.length :: tm.2)).mergeSort lexLe
      let out (rows : List (List Nat)) : String :=
        " ".intercalate (toString rows.length :: rows.map fun r => " ".intercalate (r.map toString))
      s!"ok {out srows} {out vrows}"
    let sMembers : List (Member Nat) := statics.map fun (k, kind, m) => (k, if kind == 0 then some m else none)
    let vMembers : List (Member (List Nat)) := vars.map fun (k, kind, ms) => (k, if kind == 0 then some ms else none)
    let model : String :=
      if dup != 0 then "err:json" else
      match configMods sMembers vMembers with
      | none => "err:json"
      | some (ss, vs) => render ss vs
    -- spec, from the grammar table: the built maps hold exactly the documented keys with their last-written value
    let malformed := dup != 0 || statics.any (fun x => x.2.1 != 0) || vars.any (fun x => x.2.1 != 0)
    let lastOf {β : Type} (l : List (List Nat × β)) : List (List Nat × β) :=
      l.reverse.foldl (fun acc kv => if acc.any (fun a => a.1 == kv.1) then acc else kv :: acc) []
    let wantS : List (Target × Nat) := (lastOf (statics.map fun x => (x.1, x.2.2))).filterMap fun kv =>
      (grammar.lookup kv.1).map fun t => (t, kv.2)
    let wantV : List (Target × List Nat) := (lastOf (vars.map fun x => (x.1, x.2.2))).filterMap fun kv =>
      (grammar.lookup kv.1).map fun t => (t, kv.2)
    let rejectedS : List Nat := (statics.filter fun x => (grammar.lookup x.1).isNone).map (·.2.2)
    let rejectedV : List Nat := (vars.filter fun x => (grammar.lookup x.1).isNone).flatMap (·.2.2)
    let spec : String :=
      match impl with
      | ["err:json"] => if malformed then "ok" else "bad:valid_config_rejected"
      | "ok" :: rest =>
        if malformed then "bad:malformed_value_accepted" else
        let pT : P Target := do
          let kind ← nat; let r ← opt nat
          match kind, r with
          | 0, r => pure (.peptideN r) | 1, r => pure (.peptideC r) | 2, r => pure (.proteinN r)
          | 3, r => pure (.proteinC r) | 4, some r => pure (.residue r) | _, _ => failure
        match run (do
            let a ← list (do let t ← pT; let m ← nat; pure (t, m))
            let b ← list (do let t ← pT; let ms ← list nat; pure (t, ms))
            pure (a, b)) rest with
        | none => "bad:reply_unreadable"
        | some (gotS, gotV) =>
          let extraS := gotS.filter fun g => !wantS.contains g
          let extraV := gotV.filter fun g => !wantV.contains g
          if extraS.any (fun g => rejectedS.contains g.2) || extraV.any (fun g => g.2.any rejectedV.contains) then
            "bad:invalid_key_accepted"
          else if !extraS.isEmpty || !extraV.isEmpty then "bad:mod_map_entry_unexpected"
          else if wantS.any (fun w => !gotS.contains w) || wantV.any (fun w => !gotV.contains w) then "bad:mod_map_entry_missing"
          else if gotS.length != wantS.length || gotV.length != wantV.length then "bad:mod_map_entry_repeated"
          else "ok"
      | _ => "bad:reply_unreadable"
    pure (exact model (" ".intercalate impl) spec)
  | "pepdisplay" => do
    let (pos, seq, _max, _vars, _statics) ← run (do
      let pos ← position; let seq ← bytes; let max ← nat; let v ← varMods; let s ← staticMods
      pure (pos, seq.map (·.toNat), max, v, s)) args
    match impl with
    | "ok" :: rest =>
      match run (do
          let tab ← list (do let b ← nat; let t ← bytes; pure (b, t.map (·.toNat)))
          let rows ← list (do let w ← wireForm; let d ← bytes; pure (w, d.map (·.toNat)))
          pure (tab, rows)) rest with
      | none => pure { model := "unreadable", agree := false, spec := "bad:reply_unreadable" }
      | some (tab, rows) =>
        let fmt (m : Float32) : List Nat := (tab.lookup m.toBits.toNat).getD [63]
        let pepOf (w : WireForm) : Peptide Float32 :=
          { position := pos, sequence := seq, mods := w.mods.map f32b, nterm := w.nterm.map f32b,
            cterm := w.cterm.map f32b, mono := f32b w.mono }
        let model := "ok " ++ outList (fun bt => s!"{bt.1} {hex (bt.2.map Nat.toUInt8)}") tab ++ " " ++
          outList (fun (wd : WireForm × List Nat) =>
            " ".intercalate ((wireToks wd.1).map toString) ++ " " ++ hex ((display fmt (pepOf wd.1)).map Nat.toUInt8)) rows
        -- spec: the premises of `display_determines` hold for the real float text on the masses shown,
        -- and its conclusion: different forms never share a display string
        let texts := tab.map (·.2)
        let spec :=
          if !(tryFrom H2Of tableF pos seq).isSome then "bad:invalid_sequence_accepted"
          else if texts.any (·.contains 93) then "bad:float_text_contains_bracket"
          else if !nodupB texts then "bad:float_text_not_injective"
          else if rows.any (fun a => rows.any fun b => a.2 == b.2 &&
              !(a.1.nterm == b.1.nterm && a.1.cterm == b.1.cterm && a.1.mods.length == b.1.mods.length &&
                (a.1.mods.zip b.1.mods).all fun xy => f32b xy.1 == f32b xy.2))
            then "bad:display_collision"
          else "ok"
        pure (exact model (" ".intercalate impl) spec)
    | ["err:invalid"] =>
      let ok := (tryFrom H2Of tableF pos seq).isNone
      pure { model := if ok then "err:invalid" else "ok", agree := ok, spec := if ok then "ok" else "bad:valid_sequence_rejected" }
    | _ => pure { model := "unreadable", agree := false, spec := "bad:reply_unreadable" }
  | "dbmulti" => do
    let (b, prots, max, vars, statics) ← run (do
      let b ← pBuilder5; let prots ← list bytes; let max ← nat
      let v ← varMods; let s ← staticMods
      pure (b, prots, max, v, s)) args
    let varsV : List (Target × Nat) := validateVar vars
    let staticsV : List (Target × Nat) := validate statics
    let varsF := varsV.map fun tm => (tm.1, f32b tm.2)
    let staticsF := staticsV.map fun tm => (tm.1, f32b tm.2)
    let max := if max == 0 then 1 else max
    let ninf : Float32 := f32b 4286578688
    let pinf : Float32 := f32b 2139095040
    let same (a c : Peptide Float32) : Bool := a.sequence == c.sequence && formToks a == formToks c
    let entryToks (e : Entry Float32) : List Nat :=
      pepToks e.pep ++ [posRank e.pep.position, e.prots.length] ++ e.prots
    let model : String :=
      match b.toParams with
      | none => "panic"
      | some par =>
        match database H2Of tableF same par prots varsF staticsF max ninf pinf with
        | none => "panic"
        | some es =>
          let rows := (es.map fun e => (entryToks e, e)).mergeSort fun x y => lexLe x.1 y.1
          "ok " ++ " ".intercalate (toString rows.length :: rows.map fun r =>
            hex (r.2.pep.sequence.map Nat.toUInt8) ++ " " ++
            " ".intercalate ((formToks r.2.pep ++ [posRank r.2.pep.position, r.2.prots.length] ++ r.2.prots).map toString))
    let spec : String :=
      match impl, b.toParams with
      | "ok" :: rest, some par =>
        match run (list (do
            let sw ← wirePep; let _pos ← nat; let ps ← list nat; pure (sw.1, sw.2, ps))) rest with
        | none => "bad:reply_unreadable"
        | some rows =>
          let occs := occsOf par prots
          let tk (r : List Nat × WireForm × List Nat) : List Nat := r.1.length :: r.1 ++ wireToks r.2.1
          if !nodupB (rows.map tk) then "bad:form_listed_twice" else
          match ratMods varsV, ratMods staticsV, allSome (rows.map fun r => r.2.1.toRat) with
          | some varsQ, some staticsQ, some forms =>
            if varsQ.any (·.2 == 0) || staticsQ.any (·.2 == 0) then "na" else
            if occs.any (fun o => !staticsDisjoint o.seq o.pos staticsV) then "na" else
            let obs : List ObsEntry := (rows.zip forms).map fun rf => { seq := rf.1.1, form := rf.2.1, prots := rf.1.2.2 }
            let v := multiVerdict occs varsQ staticsQ max obs
            if v != "ok" then v else
            if (rows.zip forms).any (fun rf =>
                decide (absRat (rf.2.2 - refMass rf.1.1 rf.2.1) > massAllowance rf.1.1 rf.2.1)) then "bad:mass_formula"
            else "ok"
          | _, _, _ => "na"
      | ["panic"], _ => "na"
      | _, _ => "bad:reply_unreadable"
    pure (exact model (" ".intercalate impl) spec)
  | "dbdigest" => do
    let (b, prot, max, lo, hi, vars, statics) ← run (do
      let b ← pBuilder5; let prot ← bytes; let max ← nat; let lo ← nat; let hi ← nat
      let v ← varMods; let s ← staticMods
      pure (b, prot, max, lo, hi, v, s)) args
    let varsV : List (Target × Nat) := validateVar vars
    let staticsV : List (Target × Nat) := validate statics
    let varsF := varsV.map fun tm => (tm.1, f32b tm.2)
    let staticsF := staticsV.map fun tm => (tm.1, f32b tm.2)
    let max := if max == 0 then 1 else max
    let ninf : Float32 := f32b 4286578688
    let pinf : Float32 := f32b 2139095040
    -- the peptides of the protein, with their positions: C05's model of `EnzymeParameters::digest`
    let digests : Option (List (List Nat × Position)) :=
      (b.toParams).map fun par => (Sage.C05.digest par prot).map fun d => (d.seq.map (·.toNat), posOf5 d.pos)
    let formsOf (ds : List (List Nat × Position)) (lo hi : Float32) : List (Peptide Float32) :=
      ds.flatMap fun d => dbForms H2Of tableF d.2 d.1 varsF staticsF max lo hi
    let model : String :=
      match digests with
      | none => "panic"                 -- an `assert!` of `Enzyme::new`
      | some ds => "ok " ++ renderPeps (formsOf ds (f32b lo) (f32b hi)) ++ " " ++ renderPeps (formsOf ds ninf pinf)
    let spec : String :=
      match impl, digests with
      | "ok" :: rest, some ds =>
        match run (do let a ← list wirePep; let b ← list wirePep; pure (a, b)) rest with
        | none => "bad:reply_unreadable"
        | some (kept, all) =>
          let inRange (w : List Nat × WireForm) : Bool :=
            decide (f32b lo ≤ f32b w.2.mono) && decide (f32b w.2.mono ≤ f32b hi)
          let tk (w : List Nat × WireForm) : List Nat := w.1.length :: w.1 ++ wireToks w.2
          if (all.filter inRange).map tk != kept.map tk then "bad:range_filter" else
          if !nodupB (all.map tk) then "bad:form_listed_twice" else
          match ratMods varsV, ratMods staticsV with
          | some varsQ, some staticsQ =>
            if varsQ.any (·.2 == 0) || staticsQ.any (·.2 == 0) then "na" else
            if ds.any (fun d => !staticsDisjoint d.1 d.2 staticsV) then "na" else
            -- every observed peptide is a peptide of the digestion
            if all.any (fun w => !(ds.any fun d => d.1 == w.1)) then "bad:peptide_not_in_digest" else
            -- per digested peptide: its observed forms are exactly the reference enumeration (as a set),
            -- with the position the digestion gave it; masses by the formula
            let verdicts := ds.map fun d =>
              match allSome ((all.filter fun w => w.1 == d.1).map fun w => w.2.toRat) with
              | none => "na"
              | some got =>
                if !(d.1.all fun c => Sage.Gen.VALID_AA.contains c) then
                  (if got.isEmpty then "ok" else "bad:invalid_sequence_accepted")
                else refineKeyVerdict (formsVerdict d.1 d.2 varsQ staticsQ max got false)
                  (rejectedOnlyMasses vars statics) (got.map (·.1))
            match verdicts.find? (fun v => v.startsWith "bad") with
            | some v => v
            | none => if verdicts.all (· == "ok") then "ok" else "na"
          | _, _ => "na"
      | ["panic"], none => "na"
      | _, _ => "bad:reply_unreadable"
    pure (exact model (" ".intercalate impl) spec)
  | _ => none

end Sage.C06
