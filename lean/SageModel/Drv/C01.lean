import SageModel.Proto
import SageModel.Model.C01
import SageModel.Model.C01Pipeline
import SageModel.Model.C18
import SageModel.Drv.C02
import SageModel.Drv.C06
import SageModel.Drv.C10
import SageModel.Drv.C16
import SageModel.Drv.C17
import SageModel.Drv.C18

/-! Driver op for C01.

`e2e <cfg…> <fasta…> <files…> <planted…> [optional trailing groups … <parquet 0|1>] |
 ok <tsv rows…> <pin rows…> <fragment rows…> <tmt rows…> <lfq table> [pq (ok <parquet tables…> | <failure class>)]`
(formats: header of harness/src/ops/c01.rs)

Two independent judgements per run:

* `spec` — the executable specification `RowOK` and the cross-row / cross-file clauses (Model/C01.lean), evaluated on
  the rows the real program wrote (unchanged);
* `agree` — the rows of `results.sage.tsv` against the rows of the COMPOSED MODEL `pipeline`
  (Model/C01Pipeline.lean: C05 FASTA reader → C08 database (C05 digest, C06 forms, decoys) → C09 ions → C03 index;
  C17 MGF reader → C10 processing → C02 search (C03 lookup, C04 scoring) → C04 feature fields), run at
  `Float32`/`Float`. Rows are matched by (filename, scannr, rank). Compared exactly (bit patterns / text): proteins,
  num_proteins, label, expmass, calcmass, charge, peptide_len, missed_cleavages, semi_enzymatic, isotope_error,
  precursor_ppm, fragment_ppm, matched_peaks, longest_b, longest_y, scored_candidates, ms2_intensity,
  matched_intensity_pct; `hyperscore` within 4 ulp (libm `ln`), `delta_next`/`delta_best` within
  1e-12·max(1,|hs|+|delta|); the peptide column through its PARSED structure (`parsePeptide`: sequence, and every
  modification value must denote the model's f32, `denotesF32`). Statistical columns, rt columns and psm ids are
  not compared. A spectrum whose model run passes through a near-tie of hyperscores (≤ 8 ulp, not bit-identical:
  the two libms may order them differently) or whose deisotoped peak list has a sort-key tie (`sort_unstable_by`)
  is skipped when it differs, and counted (`ties=`).
  Model reply: `rows=<model rows> compared=<rows compared> ties=<spectra skipped>`, or `diff:<column>@file:scan#rank`,
  or `model-na:<reason>` (`agree := true`, nothing compared) for runs outside what is modelled / too large. -/
namespace Sage.C01
open Sage.Proto

def pF32R : P Rat := do
  let b ← nat
  pure (f32val b)

def pTol : P Tol := do
  let k ← nat
  let lo ← pF32R
  let hi ← pF32R
  pure { kind := k, lo := lo, hi := hi }

def pCfg : P Cfg := do
  let cleave ← bytes
  let restrict ← opt nat
  let cterm ← bool
  let semi ← bool
  let mc ← nat
  let minLen ← nat
  let maxLen ← nat
  let minMass ← pF32R
  let maxMass ← pF32R
  let statics ← list (do let k ← bytes; let m ← nat; pure (k, m))
  let vars ← list (do let k ← bytes; let ms ← list nat; pure (k, ms))
  let maxVar ← nat
  let decoyTag ← bytes
  let genDecoys ← bool
  let ptol ← pTol
  let ftol ← pTol
  let isoLo ← int
  let isoHi ← int
  let zLo ← nat
  let zHi ← nat
  let reportPsms ← nat
  let chimera ← bool
  let minPeaks ← nat
  let maxPeaks ← nat
  let minMatched ← nat
  let maxFragCharge ← opt nat
  let deisotope ← bool
  let annotate ← bool
  let pin ← bool
  let predictRt ← bool
  let batch ← nat
  let bucket ← nat
  let minIonIndex ← nat
  let tmt ← nat
  let overrideCharge ← bool
  pure { cleave, restrict := restrict.map (·.toUInt8), cterm, semi, mc, minLen, maxLen, minMass, maxMass, statics, vars,
         maxVar, decoyTag, genDecoys, ptol, ftol, isoLo, isoHi, zLo, zHi, reportPsms, chimera, minPeaks, maxPeaks,
         minMatched, maxFragCharge, deisotope, annotate, pin, predictRt, batch, bucket, minIonIndex, tmt, overrideCharge, prefilter := false, prefilterChunk := 0 }

def pSpectrum : P Spectrum := do
  let title ← bytes
  let pepmz ← nat
  let charge ← opt nat
  let rt ← nat
  let peaks ← list (do let a ← nat; let b ← nat; pure (a, b))
  pure { title, pepmz, charge, rt, peaks }

def pRun : P Run := do
  let cfg ← pCfg
  let fasta ← list (do let a ← bytes; let s ← bytes; pure (a, s))
  let files ← list (list pSpectrum)
  let planted ← list (do let f ← nat; let t ← bytes; let p ← bytes; pure ({ file := f, title := t, peptide := p } : Planted))
  -- optional trailing tokens (absent in older request lines): prefilter flag and chunk size
  let rest ← get
  let (prefilter, prefilterChunk) ← match rest with
    | [] => pure (false, 0)
    | _ => do let a ← bool; let b ← nat; pure (a, b)
  let cfg := { cfg with prefilter, prefilterChunk }
  -- second optional group: LFQ / TMT settings, file formats with their extra (MS1 / MS3) spectra, LFQ claims
  let rest ← get
  match rest with
  | [] => pure { cfg, fasta, files, planted }
  | _ => do
    let lfq ← bool; let lfqPeakScoring ← nat; let lfqIntegration ← nat
    let sa ← nat; let ppm ← pF32R; let lfqCombine ← bool
    let tmtLevel ← nat; let tmtSn ← bool
    let fmts ← list (do
      let format ← nat; let style ← nat; let inj ← list nat
      let extras ← list (do
        let level ← nat; let title ← bytes; let rt ← nat
        let ref ← opt (do let r ← bytes; let mz ← nat; pure (r, mz))
        let inj ← nat; let noise ← opt nat
        let peaks ← list (do let a ← nat; let b ← nat; pure (a, b))
        pure ({ level, title, rt, ref, inj, noise, peaks } : Extra))
      pure ({ format, style, inj, extras } : FileFmt))
    let lfqPlanted ← list (do let f ← nat; let p ← bytes; let e ← bool; pure (f, p, e))
    -- third optional trailing token (absent in older request lines): the `--parquet` second run was requested
    let rest ← get
    let parquet ← match rest with
      | [] => pure false
      | _ => bool
    pure { cfg := { cfg with lfq, lfqPeakScoring, lfqIntegration, lfqSpectralAngle := f64val sa, lfqPpm := ppm, lfqCombine,
                             tmtLevel, tmtSn },
           fasta, files, planted, fmts, lfqPlanted, parquet }

def pRow : P Row := do
  let psmId ← nat; let peptide ← bytes; let proteins ← bytes; let numProteins ← nat
  let filename ← bytes; let scannr ← bytes; let rank ← nat; let label ← int
  let expmass ← nat; let calcmass ← nat; let charge ← nat; let peptideLen ← nat
  let missedCleavages ← nat; let semiEnzymatic ← nat; let isotopeError ← nat; let precursorPpm ← nat
  let fragmentPpm ← nat; let hyperscore ← nat; let deltaNext ← nat; let deltaBest ← nat; let rt ← nat
  let matchedPeaks ← nat; let longestB ← nat; let longestY ← nat; let scoredCandidates ← nat; let poisson ← nat
  let discriminant ← nat; let posteriorError ← nat; let spectrumQ ← nat; let peptideQ ← nat
  let proteinQ ← nat; let ms2Intensity ← nat; let matchedIntensityPct ← nat
  pure { psmId, peptide, proteins, numProteins, filename, scannr, rank, label, expmass, calcmass, charge, peptideLen,
         missedCleavages, semiEnzymatic, isotopeError, precursorPpm, fragmentPpm, hyperscore, deltaNext, deltaBest, rt,
         matchedPeaks, longestB, longestY, scoredCandidates, poisson, discriminant, posteriorError, spectrumQ, peptideQ,
         proteinQ, ms2Intensity, matchedIntensityPct }

def pPin : P PinRow := do
  let specId ← nat; let label ← int; let scanNr ← bytes; let expMass ← nat; let calcMass ← nat; let fileName ← bytes
  let rank ← nat; let z2 ← nat; let z3 ← nat; let z4 ← nat; let z5 ← nat; let z6 ← nat; let zOther ← nat
  let peptideLen ← nat; let missedCleavages ← nat; let peptide ← bytes; let proteins ← bytes
  pure { specId, label, scanNr, expMass, calcMass, fileName, rank, z2, z3, z4, z5, z6, zOther, peptideLen,
         missedCleavages, peptide, proteins }

def pFrag : P FragRow := do
  let psmId ← nat; let kind ← bytes; let ordinal ← int; let charge ← int
  let mzCalc ← nat; let mzExp ← nat; let intensity ← nat
  pure { psmId, kind, ordinal, charge, mzCalc, mzExp, intensity }

def pTmtRow : P TmtRow := do
  let filename ← bytes; let scannr ← bytes; let inj ← nat; let values ← list nat
  pure { filename, scannr, inj, values }

def pLfqRow : P LfqRow := do
  let peptide ← bytes; let charge ← int; let proteins ← bytes; let q ← nat; let score ← nat; let angle ← nat
  let values ← list nat
  pure { peptide, charge, proteins, q, score, angle, values }

def pLfq : P (Option LfqTable) := opt (do
  let fileCols ← list bytes
  let rows ← list pLfqRow
  pure ({ fileCols, rows } : LfqTable))

def pTsvExtra : P TsvExtra := do
  let alignedRt ← nat; let predictedRt ← nat; let deltaRtModel ← nat; let ionMobility ← nat
  let predictedMobility ← nat; let deltaMobility ← nat; let longestYPct ← nat
  pure { alignedRt, predictedRt, deltaRtModel, ionMobility, predictedMobility, deltaMobility, longestYPct }

def pPqRow : P PqRow := do
  let psmId ← int; let filename ← bytes; let scannr ← bytes; let peptide ← bytes; let stripped ← bytes
  let proteins ← bytes; let numProteins ← int; let rank ← int; let isDecoy ← bool
  let expmass ← nat; let calcmass ← nat; let charge ← int; let peptideLen ← int; let missedCleavages ← int
  let semiEnzymatic ← bool; let ms2Intensity ← nat; let isotopeError ← nat; let precursorPpm ← nat
  let fragmentPpm ← nat; let hyperscore ← nat; let deltaNext ← nat; let deltaBest ← nat; let rt ← nat
  let alignedRt ← nat; let predictedRt ← nat; let deltaRtModel ← nat; let ionMobility ← nat
  let predictedMobility ← nat; let deltaMobility ← nat; let matchedPeaks ← int; let longestB ← int
  let longestY ← int; let longestYPct ← nat; let matchedIntensityPct ← nat; let scoredCandidates ← int
  let poisson ← nat; let discriminant ← nat; let posteriorError ← nat; let spectrumQ ← nat; let peptideQ ← nat
  let proteinQ ← nat
  let reporters ← opt (list (opt nat))
  pure { psmId, filename, scannr, peptide, stripped, proteins, numProteins, rank, isDecoy, expmass, calcmass, charge,
         peptideLen, missedCleavages, semiEnzymatic, ms2Intensity, isotopeError, precursorPpm, fragmentPpm, hyperscore,
         deltaNext, deltaBest, rt, alignedRt, predictedRt, deltaRtModel, ionMobility, predictedMobility, deltaMobility,
         matchedPeaks, longestB, longestY, longestYPct, matchedIntensityPct, scoredCandidates, poisson, discriminant,
         posteriorError, spectrumQ, peptideQ, proteinQ, reporters }

def pPqFrag : P PqFragRow := do
  let psmId ← int; let kind ← bytes; let ordinal ← int; let charge ← int
  let mzCalc ← nat; let mzExp ← nat; let intensity ← nat
  pure { psmId, kind, ordinal, charge, mzCalc, mzExp, intensity }

def pPqLfq : P PqLfqRow := do
  let peptide ← bytes; let stripped ← bytes; let charge ← opt int; let proteins ← bytes; let isDecoy ← bool
  let q ← nat; let filename ← bytes; let intensity ← nat
  pure { peptide, stripped, charge, proteins, isDecoy, q, filename, intensity }

/-- the optional trailing group `pq (ok <tables> | <failure class>)` -/
def pPq : P PqReply := do
  let rest ← get
  match rest with
  | [] => pure .absent
  | _ => do
    let m ← tok
    if m != "pq" then failure else
    let st ← tok
    if st != "ok" then pure (.failed st) else
    let extras ← list pTsvExtra
    let rows ← list pPqRow
    let frags ← opt (list pPqFrag)
    let lfq ← opt (list pPqLfq)
    let tsvToo ← bool
    pure (.tables { extras, rows, frags, lfq, tsvToo })

def firstSome {α} (l : List α) (f : α → Option String) : Option String := l.findSome? f

/-- the whole reply: TSV / pin / fragment / TMT / LFQ tables and the optional parquet group -/
def pReply : P (List Row × List PinRow × List FragRow × List TmtRow × Option LfqTable × PqReply) := do
  let r ← list pRow; let p ← list pPin; let f ← list pFrag; let t ← list pTmtRow; let l ← pLfq; let q ← pPq
  pure (r, p, f, t, l, q)

def verdict (run : Run) (impl : List String) : String :=
  match impl with
  | "ok" :: rest =>
    match runPrefix pReply rest with
    | some ((rows, pins, frags, tmts, lfq, pq), []) =>
      match firstSome rows (fun r => (rowViolation run r).map (fun c => c ++ "@" ++ strOfBytes r.filename ++ ":" ++ strOfBytes r.scannr ++ "#" ++ toString r.rank)) with
      | some c => "bad:row_" ++ c
      | none =>
        match (tableViolation run rows).orElse (fun _ => spectrumQViolation rows) with
        | some c => "bad:" ++ c
        | none =>
          match (if run.cfg.pin then pinViolation rows pins else none) with
          | some c => "bad:" ++ c
          | none =>
            match (if run.cfg.annotate then fragViolation run rows frags else none) with
            | some c => "bad:" ++ c
            | none =>
              match (if run.cfg.tmt != 0 then (tmtViolation run tmts).orElse fun _ => tmtJoinViolation run rows tmts else none) with
              | some c => "bad:" ++ c
              | none =>
                match lfqViolation run rows lfq with
                | some c => "bad:" ++ c
                | none =>
                  -- the parquet tables of the second run against the (now known to be consistent) TSV tables;
                  -- evaluated BEFORE the planted-peptide clause so that a run hitting the recorded rank-1
                  -- finding still has its parquet output compared
                  match parquetViolation run rows frags tmts lfq pq with
                  | some c => "bad:" ++ c
                  | none =>
                    match plantedViolation run rows with
                    | some c => "bad:" ++ c
                    | none => "ok"
    | _ => "bad:unparsable_reply"
  | ["panic"] => "bad:program_panicked"
  | [e] => "bad:program_failed_" ++ e
  | _ => "bad:unparsable_reply"

/-! ## the composed model at `Float32` / `Float` -/

abbrev F := Float32

def fb (b : Nat) : F := Float32.ofBits b.toUInt32

/-- the float-valued settings, read as `Float32` (the spec side reads them as exact rationals) -/
structure CfgF where
  minMass : F
  maxMass : F
  ptol : C03.Tol F
  ftol : C03.Tol F

def pTolF : P (Option (C03.Tol F)) := do
  let k ← nat
  let lo ← f32
  let hi ← f32
  pure (match k with | 0 => some (.ppm lo hi) | 1 => some (.da lo hi) | _ => none)

/-- second pass over the configuration tokens -/
def pCfgF : P (Option CfgF) := do
  let _ ← bytes; let _ ← opt nat; let _ ← bool; let _ ← bool; let _ ← nat; let _ ← nat; let _ ← nat
  let minMass ← f32; let maxMass ← f32
  let _ ← list (do let _ ← bytes; let _ ← nat; pure ())
  let _ ← list (do let _ ← bytes; let _ ← list nat; pure ())
  let _ ← nat; let _ ← bytes; let _ ← bool
  let ptol ← pTolF; let ftol ← pTolF
  pure (do let p ← ptol; let f ← ftol; pure { minMass, maxMass, ptol := p, ftol := f })

def arithF : Arith F Float := { E := C02.E32, K := C09.constsF, tle := C02.tle64 }

def asciiKey (k : List UInt8) : Option (List Nat) := if k.all (· < 128) then some (k.map (·.toNat)) else none

def allSomeL {γ : Type} : List (Option γ) → Option (List γ)
  | [] => some []
  | none :: _ => none
  | some x :: xs => (allSomeL xs).map (x :: ·)

def plexOf (n : Nat) : Option (C18.Plex Nat) :=
  match n with
  | 6 => some .tmt6 | 10 => some .tmt10 | 11 => some .tmt11 | 16 => some .tmt16 | 18 => some .tmt18 | _ => none

/-- `min_deisotope_mz.unwrap_or(0.0)` of `read_processed_spectra` (TMT at MS2 level: heaviest reporter × (1 + 20e-6)) -/
def minDeisoMzOf (tmt level : Nat) : Option F :=
  if tmt == 0 then some (Float32.ofNat 0) else
  match plexOf tmt with
  | none => none
  | some plex =>
    let labels := (C18.reporterMasses C18.tablesBits plex).map fb
    some ((C18.minDeisotopeMz labels level (C18.c1F + C18.c2F)).getD (Float32.ofNat 0))

/-- the configuration of the composed model; `Except` carries the `model-na` reason -/
def mkPCfg (c : Cfg) (cf : CfgF) : Except String (PCfg F) := do
  -- the chunked pre-filter build restricts the final database to peptides hit in a first pass: the candidate
  -- counters (scored_candidates, poisson) then differ from the plain build, which is what the model composes
  if c.prefilter then throw "prefilter"
  let par ← match ({ mc := some c.mc, minLen := some c.minLen, maxLen := some c.maxLen, cleaveAt := some c.cleave,
                     restrict := c.restrict, cTerminal := some c.cterm, semi := some c.semi } : C05.Builder).toParams with
    | some p => pure p
    | none => throw "enzyme-rejected"
  let sk ← match allSomeL (c.statics.map fun (k, m) => (asciiKey k).map fun k' => (k', m)) with
    | some l => pure l | none => throw "non-ascii-mod-key"
  let vk ← match allSomeL (c.vars.map fun (k, ms) => (asciiKey k).map fun k' => (k', ms)) with
    | some l => pure l | none => throw "non-ascii-mod-key"
  let minDeiso ← match minDeisoMzOf c.tmt c.tmtLevel with | some m => pure m | none => throw "unknown-tmt-plex"
  if c.zLo ≥ 64 || c.zHi ≥ 64 || c.isoLo < -8 || c.isoHi > 8 || c.isoLo > c.isoHi then throw "charge-or-isotope-range" else
  if (match c.maxFragCharge with | some m => decide (m ≥ 64) | none => false) then throw "max-fragment-charge" else
  pure
    { db := { par := par, tag := c.decoyTag, gen := c.genDecoys, h2o := C06.H2Of, table := C06.tableF,
              vars := (C06.validateVar vk).map fun tm => (tm.1, fb tm.2),
              statics := (C06.validate sk).map fun tm => (tm.1, fb tm.2),
              maxVar := if c.maxVar == 0 then 1 else c.maxVar, lo := cf.minMass, hi := cf.maxMass }
      kinds := [.b, .y]            -- `ion_kinds` default; the harness never sets it
      minIonIndex := c.minIonIndex
      bucket := c.bucket
      search := { ptol := cf.ptol, ftol := cf.ftol, minMatched := c.minMatched, isoLo := c.isoLo, isoHi := c.isoHi,
                  zLo := c.zLo, zHi := c.zHi, overrideCharge := c.overrideCharge, mfc := c.maxFragCharge,
                  chimera := c.chimera, reportPsms := c.reportPsms, wideWindow := false,
                  defaultIsoWin := .da (-2.4 : F) (2.4 : F) }
      proc := { takeTopN := c.maxPeaks, deisotope := c.deisotope, minDeisoMz := minDeiso }
      minPeaks := c.minPeaks }

def specLines (f : List Spectrum) : List (C17.Line F) :=
  mgfLines (f.map fun s => (strOfBytes s.title, fb s.pepmz, s.charge, fb s.rt, s.peaks.map fun p => (fb p.1, fb p.2)))

/-! ### mzML input: the C16 reader model in front of the same pipeline

The harness's mzML rendering (`mzml_text` in harness/src/ops/c01.rs) is mirrored as schema-shaped elements
(`C16.SpecEl`: cvParams, scan list, precursor list, binary data arrays; payload bytes = little-endian f32 / f64 of the
values; zlib and base64 are parameters of the C16 model, so a compressed payload is given with its inflation), turned
into SAX events (`SpecEl.events`) and read by `C16.parse`. Decimal attribute text is Rust's shortest round-trip
`Display` of an f32 (digits only for integral values — read as `Val.nat` — otherwise `Val.flt`). -/

def valOf (x : F) : C16.Val C16.B32 :=
  if x.isFinite && x ≥ 0 && x == x.floor && x < 1.0e18 then .nat x.toUInt64.toNat else .flt (C16.B32.of x)

def le32Bytes (x : F) : List UInt8 :=
  let b := x.toBits.toNat
  [(b % 256).toUInt8, (b / 256 % 256).toUInt8, (b / 65536 % 256).toUInt8, (b / 16777216 % 256).toUInt8]

def le64Bytes (x : F) : List UInt8 :=
  let b := x.toFloat.toBits.toNat
  (List.range 8).map fun i => (b / 256 ^ i % 256).toUInt8

def arrEl (vals : List F) (wide zl : Bool) (kind : C16.Cv) : C16.ArrEl C16.B32 :=
  let raw := vals.flatMap (if wide then le64Bytes else le32Bytes)
  { params := [⟨if wide then .f64 else .f32, .garbage, .absent⟩, ⟨if zl then .zlib else .noCompression, .garbage, .absent⟩,
               ⟨kind, .garbage, .absent⟩]
    payload := if raw.isEmpty && !zl then .empty else if zl then .data [120] (some raw) else .data raw none }

def bit (n k : Nat) : Bool := (n / 2 ^ k) % 2 == 1

def specEl (style : Nat) (id : List UInt8) (level : Nat) (rt inj : F)
    (prec : Option (Option (List UInt8) × F × Option Nat)) (noise : Option F) (peaks : List (Nat × Nat)) :
    C16.SpecEl C16.B32 :=
  let time : C16.Param C16.B32 :=
    if bit style 3 then ⟨.scanStart, valOf (rt / 60.0), .minutes⟩ else ⟨.scanStart, valOf rt, .seconds⟩
  { id := strOfBytes id
    params := [⟨.msLevel, .nat level, .absent⟩, ⟨.centroid, .garbage, .absent⟩]
    scans := [[time, ⟨.injectionTime, valOf inj, .absent⟩]]
    precs := match prec with
      | none => []
      | some (ref, mz, z) =>
        [{ ref := ref.map strOfBytes, iso := [],
           ions := [[⟨.selMz, valOf mz, .absent⟩] ++ (match z with | some z => [⟨.selCharge, .nat z, .absent⟩] | none => [])],
           act := [] }]
    arrays := [arrEl (peaks.map fun p => fb p.1) (bit style 0) (bit style 2) .mzArray,
               arrEl (peaks.map fun p => fb p.2) (bit style 1) (bit style 2) .intensityArray] ++
              (match noise with | some n => [arrEl (peaks.map fun _ => n) false (bit style 2) .noiseArray] | none => []) }

/-- the events of one mzML file (MS2 spectra and extras) -/
def mzmlDoc (f : List Spectrum) (fmt : FileFmt) : List (C16.Event C16.B32) :=
  (f.zipIdx.flatMap fun sk =>
    (specEl fmt.style sk.1.title 2 (fb sk.1.rt) (fb (fmt.inj.getD sk.2 0)) (some (none, fb sk.1.pepmz, sk.1.charge)) none
      sk.1.peaks).events) ++
  (fmt.extras.flatMap fun e =>
    (specEl fmt.style e.title e.level (fb e.rt) (fb e.inj) (e.ref.map fun r => (some r.1, fb r.2, none)) (e.noise.map fb)
      e.peaks).events)

/-- the `RawSpectrum` view shared with the MGF reader model -/
def ofMzml (s : C16.Spectrum C16.B32) : C17.Spectrum F :=
  { id := s.id
    precs := s.precursors.map fun p =>
      { mz := p.mz.f, intensity := p.intensity.map (·.f), charge := p.charge,
        window := p.window.map fun w => (C17.WUnit.da, w.1.f, w.2.f) }
    rt := s.startTime.f, tic := s.tic.f, mzs := s.mz.map (·.f), ints := s.intensity.map (·.f) }

/-- the searched (MS2) spectra of input file `fi`, through the reader model of its format; `none` = the mzML reader
    model reports an error (the real program would skip the file with an error) -/
def fileSpectra (run : Run) (fi : Nat) (f : List Spectrum) : Option (List (C17.Spectrum F)) :=
  let fmt := run.fmt fi
  if fmt.format == 0 then some (C17.parseLines (specLines f)) else
  let sn := if run.cfg.tmt != 0 && run.cfg.tmtSn then some run.cfg.tmtLevel else none
  match C16.parse { filter := none, sn := sn } (mzmlDoc f fmt) with
  | .ok sps => some ((sps.filter fun s => s.level == 2).map ofMzml)
  | .error _ => none

/-- a-priori size of the database build (digests × variable-modification placements): the Lean build is
    quadratic in places (target-set lookups), so large configurations are not model-compared -/
def buildCost (pc : PCfg F) (targets : List (C05.Seq × C05.Seq)) : Nat :=
  let ds := C08.fastaDigest pc.db.par pc.db.tag pc.db.gen targets
  let nv := pc.db.vars.length
  ds.foldl (fun acc d =>
    let n := d.seq.length + 2
    -- ≤ Σ_{k ≤ maxVar} C(n·nv, k) placements, bounded crudely
    let sites := if nv == 0 then 0 else min (n * nv) 12
    acc + 1 + (if pc.db.maxVar ≥ 2 then sites * sites / 2 + sites else sites)) 0

def COST_LIMIT : Nat := 60000

/-- cost of building / paging the model's fragment index (the model keeps fragments in a list: a page access is
    linear), in list steps; the harness computes the same number from the real database to tag the run -/
def indexCost (nfrags bucket : Nat) : Nat := nfrags * (nfrags / (max bucket 1) + 1)

def INDEX_LIMIT : Nat := 200000000

def SEARCH_LIMIT : Nat := 8000000

/-! ### comparison of one row -/

def isoErrF (e : Int) : F := C02.E32.mul (C04.ofInt C02.E32 e) C02.E32.neutron

def sameBits (x : F) (bits : Nat) : Bool := x.toBits.toNat == (fb bits).toBits.toNat

def proteinsText (c : Cfg) (e : C08.DbPep F) : List UInt8 :=
  let names := e.proteins.map fun s =>
    (if e.decoy && c.genDecoys then c.decoyTag else []) ++ s.map (·.toUInt8)
  match names with
  | [] => []
  | n :: rest => rest.foldl (fun acc x => acc ++ [59] ++ x) n

def modDenotes (m : F) (q : Option Rat) : Bool :=
  if m == (Float32.ofNat 0) then q.isNone else
  match q with | some v => denotesF32 v m.toBits.toNat | none => false

def optDenotes (m : Option F) (q : Option Rat) : Bool :=
  match m, q with
  | none, none => true
  | some v, some w => denotesF32 w v.toBits.toNat
  | _, _ => false

/-- does the peptide cell denote the model's entry? -/
def peptideAgrees (e : C08.DbPep F) (cell : List UInt8) : Bool :=
  match parsePeptide cell with
  | none => false
  | some p =>
    p.seq.map (·.toNat) == e.core.sequence &&
    p.residues.length == e.core.mods.length &&
    (p.residues.zip e.core.mods).all (fun rm => modDenotes rm.2 rm.1.2) &&
    optDenotes e.core.nterm p.nterm && optDenotes e.core.cterm p.cterm

def f64b (b : Nat) : Float := Float.ofBits b.toUInt64

/-- first column in which the model's row and the implementation's row differ -/
def rowDiff (c : Cfg) (m : ModelRow F Float) (r : Row) : Option String :=
  if !peptideAgrees m.entry r.peptide then some "peptide" else
  if proteinsText c m.entry != r.proteins then some "proteins" else
  if m.entry.proteins.length != r.numProteins then some "num_proteins" else
  if m.label != r.label then some "label" else
  if !sameBits m.expmass r.expmass then some "expmass" else
  if !sameBits m.calcmass r.calcmass then some "calcmass" else
  if m.charge != r.charge then some "charge" else
  if m.peptideLen != r.peptideLen then some "peptide_len" else
  if m.missedCleavages != r.missedCleavages then some "missed_cleavages" else
  if (if m.semiEnzymatic then 1 else 0) != r.semiEnzymatic then some "semi_enzymatic" else
  if !sameBits m.isotopeError r.isotopeError then some "isotope_error" else
  if !sameBits m.precursorPpm r.precursorPpm then some "precursor_ppm" else
  if !sameBits m.fragmentPpm r.fragmentPpm then some "fragment_ppm" else
  if !C02.near4 m.hyperscore (f64b r.hyperscore) then some "hyperscore" else
  if !C02.deltaNear m.deltaNext (f64b r.deltaNext) m.hyperscore then some "delta_next" else
  if !C02.deltaNear m.deltaBest (f64b r.deltaBest) m.hyperscore then some "delta_best" else
  if m.matchedPeaks != r.matchedPeaks then some "matched_peaks" else
  if m.longestB != r.longestB then some "longest_b" else
  if m.longestY != r.longestY then some "longest_y" else
  if m.scoredCandidates != r.scoredCandidates then some "scored_candidates" else
  if !sameBits m.ms2Intensity r.ms2Intensity then some "ms2_intensity" else
  if !sameBits m.matchedIntensityPct r.matchedIntensityPct then some "matched_intensity_pct" else
  none

def fileName (run : Run) (i : Nat) : List UInt8 := fileNameOf run i

/-- is the model's answer for this spectrum not determined up to the stated allowances? (near-tie of hyperscores
    among the candidates that decide the report, or a sort-key tie among deisotoped peaks) -/
def undetermined (pc : PCfg F) (w : World F) (sp : C17.Spectrum F) : Bool :=
  let raw := rawOf sp
  (pc.proc.deisotope &&
    C10.hasKeyTie (C10.deisotope raw.peaks (raw.charge.getD 3) (C10.Num.ofNat 10) pc.proc.minDeisoMz)) ||
  match prepare pc sp with
  | none => false
  | some (peaks, _, prec) =>
    let cfg := pc.search
    let prelim := (C02.initialHits C02.E32 w.idx cfg peaks prec).prelim.toList
    let vec (q : Array (C04.Peak F)) : List (C02.Cand Float) :=
      C02.scoreVector C02.tle64 (C02.scoreCand C02.E32 cfg.ftol cfg.mfc w.info q) cfg.minMatched prelim
    if cfg.chimera then
      let psms := (C02.search C02.E32 C02.tle64 w.idx cfg w.info peaks prec).2
      let rec go : List (C02.Psm Float) → Array (C04.Peak F) → Bool
        | [], q => C02.hasNearTie ((vec q).take 2)
        | p :: ps, q =>
          C02.hasNearTie ((vec q).take 2) || go ps (C02.removeMatched C02.E32 cfg.ftol cfg.mfc w.info q p.pep p.charge)
      go psms peaks.toArray
    else C02.hasNearTie ((vec peaks.toArray).take (cfg.reportPsms + 1))

structure Cmp where
  rows : Nat := 0
  compared : Nat := 0
  ties : Nat := 0
  diff : Option String := none

/-- compare spectrum by spectrum -/
def compareRun (run : Run) (pc : PCfg F) (w : World F) (rows : List Row) : Cmp :=
  let c := run.cfg
  let files := run.files
  let step (acc : Cmp × Nat) (fs : Nat × C17.Spectrum F) : Cmp × Nat :=
    let (cmp, seen) := acc
    if cmp.diff.isSome then acc else
    let (fi, sp) := fs
    let ms := spectrumRows arithF pc w fi sp
    let fname := fileName run fi
    let scan := bytesOfStr sp.id
    let impl := rows.filter fun r => r.filename == fname && r.scannr == scan
    let d : Option String :=
      if impl.length != ms.length then some "row_count" else
      ms.findSome? fun m =>
        match impl.filter (fun r => r.rank == m.rank) with
        | [r] => rowDiff c m r
        | _ => some "rank"
    match d with
    | none => ({ cmp with rows := cmp.rows + ms.length, compared := cmp.compared + ms.length }, seen + impl.length)
    | some col =>
      if undetermined pc w sp then ({ cmp with rows := cmp.rows + ms.length, ties := cmp.ties + 1 }, seen + impl.length)
      else ({ cmp with diff := some (col ++ "@" ++ strOfBytes fname ++ ":" ++ sp.id) }, seen)
  let specs : List (Nat × C17.Spectrum F) :=
    files.zipIdx.flatMap fun fi => ((fileSpectra run fi.2 fi.1).getD []).map fun sp => (fi.2, sp)
  let (cmp, seen) := specs.foldl step ({}, 0)
  if cmp.diff.isSome then cmp else
  -- every implementation row belongs to a spectrum the model searched
  if seen != rows.length then { cmp with diff := some "row_of_unsearched_spectrum" } else cmp

def implRows (impl : List String) : Option (List Row) :=
  match impl with
  | "ok" :: rest => (runPrefix (list pRow) rest).map (·.1)
  | _ => none

/-- model reply and `agree` -/
def modelCompare (run : Run) (args impl : List String) : String × Bool :=
  match (Proto.runPrefix pCfgF args).bind (·.1) with
  | none => ("model-na:tolerance-kind", true)
  | some cf =>
    match mkPCfg run.cfg cf with
    | .error why => ("model-na:" ++ why, true)
    | .ok pc =>
      match C05.parse pc.db.tag pc.db.gen (fastaText run.fasta) with
      | none => ("panic", impl == ["panic"])
      | some targets =>
        if buildCost pc targets > COST_LIMIT then ("model-na:too-large", true) else
        match C08.buildDb pc.db targets with
        | none => ("panic", impl == ["panic"])
        | some db =>
        let nfr := (ionsOf arithF pc db).length
        if indexCost nfr pc.bucket > INDEX_LIMIT then ("model-na:too-large", true) else
        -- searches: a page access of the list-based index is linear in the fragment count
        if (run.files.map (·.length)).sum * nfr > SEARCH_LIMIT then ("model-na:too-large", true) else
        match worldOf arithF pc db with      -- `buildWorld` = `buildDb` then `worldOf`
        | none => ("panic", impl == ["panic"])
        | some w =>
          match implRows impl with
          | none => ("rows-expected", false)
          | some rows =>
            let cmp := compareRun run pc w rows
            match cmp.diff with
            | some d => ("diff:" ++ d, false)
            | none => (s!"rows={cmp.rows} compared={cmp.compared} ties={cmp.ties} cost={buildCost pc targets} peps={w.peps.size} frags={w.idx.frags.length}", true)

def handle (op : String) (args impl : List String) : Option Reply :=
  match op with
  | "e2e" => do
    let run ← Proto.run pRun args
    let (model, agree) := modelCompare run args impl
    -- evidence of non-vacuity of the quantification clauses (informational, part of the model reply text)
    let extra : String :=
      match impl with
      | "ok" :: rest =>
        match runPrefix pReply rest with
        | some ((rows, _, _, tmts, lfq, pq), _) =>
          (if run.cfg.tmt != 0 then s!" tmt_rows={tmts.length}" else "") ++
          (match lfq with
           | some t => s!" lfq_rows={t.rows.length} lfq_claims={run.lfqPlanted.length} lfq_claims_live={lfqClaimsLive run rows}"
           | none => "") ++
          (match pq with
           | .absent => ""
           | .failed c => " pq_failed=" ++ c
           | .tables t =>
             let withRep := (t.rows.filter fun p => p.reporters.isSome).length
             -- PSM rows for whose scan id ANOTHER input file has a tmt.tsv row with other channel values: the rows on
             -- which a reporter join keyed by the scan id alone can be seen to pick the wrong file's intensities
             let colliding := (t.rows.filter fun p =>
               match tmts.find? (fun q => q.filename == p.filename && q.scannr == p.scannr) with
               | some own => tmts.any fun q => q.scannr == p.scannr && q.filename != p.filename && q.values != own.values
               | none => tmts.any fun q => q.scannr == p.scannr && q.filename != p.filename).length
             s!" pq_rows={t.rows.length} pq_reporter_rows={withRep} pq_rows_scan_quantified_differently_in_other_file={colliding}" ++
             (match t.frags with | some f => s!" pq_frag_rows={f.length}" | none => "") ++
             (match t.lfq with | some l => s!" pq_lfq_rows={l.length}" | none => ""))
        | none => ""
      | _ => ""
    pure { model := model ++ extra, agree := agree, spec := verdict run impl }
  | _ => none

end Sage.C01
