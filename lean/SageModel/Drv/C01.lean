import SageModel.Proto
import SageModel.Model.C01

/-! Driver op for C01.

`e2e <cfg…> <fasta…> <files…> <planted…> | ok <tsv rows…> <pin rows…> <fragment rows…>`

There is no model reply to compare with (the model of the whole pipeline is the composition of
the other properties' models); the op evaluates the executable specification `RowOK` and the
cross-row / cross-file clauses on the rows the real program wrote. -/
namespace Sage.C01
open Sage.Proto

def pF32R : P Rat := do
  let b ← nat
  pure (f32val b)

def pTol : P Tol := do
  let k ← nat
  let lo ← pF32R
  let hi ← pF32R
  pure { kind := k, lo := lo, hi := hi }

def pCfg : P Cfg := do
  let cleave ← bytes
  let restrict ← opt nat
  let cterm ← bool
  let semi ← bool
  let mc ← nat
  let minLen ← nat
  let maxLen ← nat
  let minMass ← pF32R
  let maxMass ← pF32R
  let statics ← list (do let k ← bytes; let m ← nat; pure (k, m))
  let vars ← list (do let k ← bytes; let ms ← list nat; pure (k, ms))
  let maxVar ← nat
  let decoyTag ← bytes
  let genDecoys ← bool
  let ptol ← pTol
  let ftol ← pTol
  let isoLo ← int
  let isoHi ← int
  let zLo ← nat
  let zHi ← nat
  let reportPsms ← nat
  let chimera ← bool
  let minPeaks ← nat
  let maxPeaks ← nat
  let minMatched ← nat
  let maxFragCharge ← opt nat
  let deisotope ← bool
  let annotate ← bool
  let pin ← bool
  let predictRt ← bool
  let batch ← nat
  let bucket ← nat
  let minIonIndex ← nat
  let tmt ← nat
  let overrideCharge ← bool
  pure { cleave, restrict := restrict.map (·.toUInt8), cterm, semi, mc, minLen, maxLen, minMass, maxMass, statics, vars,
         maxVar, decoyTag, genDecoys, ptol, ftol, isoLo, isoHi, zLo, zHi, reportPsms, chimera, minPeaks, maxPeaks,
         minMatched, maxFragCharge, deisotope, annotate, pin, predictRt, batch, bucket, minIonIndex, tmt, overrideCharge }

def pSpectrum : P Spectrum := do
  let title ← bytes
  let pepmz ← nat
  let charge ← opt nat
  let rt ← nat
  let peaks ← list (do let a ← nat; let b ← nat; pure (a, b))
  pure { title, pepmz, charge, rt, peaks }

def pRun : P Run := do
  let cfg ← pCfg
  let fasta ← list (do let a ← bytes; let s ← bytes; pure (a, s))
  let files ← list (list pSpectrum)
  let planted ← list (do let f ← nat; let t ← bytes; let p ← bytes; pure ({ file := f, title := t, peptide := p } : Planted))
  pure { cfg, fasta, files, planted }

def pRow : P Row := do
  let psmId ← nat; let peptide ← bytes; let proteins ← bytes; let numProteins ← nat
  let filename ← bytes; let scannr ← bytes; let rank ← nat; let label ← int
  let expmass ← nat; let calcmass ← nat; let charge ← nat; let peptideLen ← nat
  let missedCleavages ← nat; let semiEnzymatic ← nat; let isotopeError ← nat; let precursorPpm ← nat
  let fragmentPpm ← nat; let hyperscore ← nat; let deltaNext ← nat; let deltaBest ← nat; let rt ← nat
  let matchedPeaks ← nat; let longestB ← nat; let longestY ← nat; let scoredCandidates ← nat; let poisson ← nat
  let discriminant ← nat; let posteriorError ← nat; let spectrumQ ← nat; let peptideQ ← nat
  let proteinQ ← nat; let ms2Intensity ← nat; let matchedIntensityPct ← nat
  pure { psmId, peptide, proteins, numProteins, filename, scannr, rank, label, expmass, calcmass, charge, peptideLen,
         missedCleavages, semiEnzymatic, isotopeError, precursorPpm, fragmentPpm, hyperscore, deltaNext, deltaBest, rt,
         matchedPeaks, longestB, longestY, scoredCandidates, poisson, discriminant, posteriorError, spectrumQ, peptideQ,
         proteinQ, ms2Intensity, matchedIntensityPct }

def pPin : P PinRow := do
  let specId ← nat; let label ← int; let scanNr ← bytes; let expMass ← nat; let calcMass ← nat; let fileName ← bytes
  let rank ← nat; let z2 ← nat; let z3 ← nat; let z4 ← nat; let z5 ← nat; let z6 ← nat; let zOther ← nat
  let peptideLen ← nat; let missedCleavages ← nat; let peptide ← bytes; let proteins ← bytes
  pure { specId, label, scanNr, expMass, calcMass, fileName, rank, z2, z3, z4, z5, z6, zOther, peptideLen,
         missedCleavages, peptide, proteins }

def pFrag : P FragRow := do
  let psmId ← nat; let kind ← bytes; let ordinal ← int; let charge ← int
  let mzCalc ← nat; let mzExp ← nat; let intensity ← nat
  pure { psmId, kind, ordinal, charge, mzCalc, mzExp, intensity }

def pTmtRow : P TmtRow := do
  let filename ← bytes; let scannr ← bytes; let values ← list nat
  pure { filename, scannr, values }

def firstSome {α} (l : List α) (f : α → Option String) : Option String := l.findSome? f

def verdict (run : Run) (impl : List String) : String :=
  match impl with
  | "ok" :: rest =>
    match runPrefix (do let r ← list pRow; let p ← list pPin; let f ← list pFrag; let t ← list pTmtRow; pure (r, p, f, t)) rest with
    | some ((rows, pins, frags, tmts), []) =>
      match firstSome rows (fun r => (rowViolation run r).map (fun c => c ++ "@" ++ strOfBytes r.filename ++ ":" ++ strOfBytes r.scannr ++ "#" ++ toString r.rank)) with
      | some c => "bad:row_" ++ c
      | none =>
        match (tableViolation run rows).orElse (fun _ => spectrumQViolation rows) with
        | some c => "bad:" ++ c
        | none =>
          match (if run.cfg.pin then pinViolation rows pins else none) with
          | some c => "bad:" ++ c
          | none =>
            match (if run.cfg.annotate then fragViolation rows frags else none) with
            | some c => "bad:" ++ c
            | none =>
              match plantedViolation run rows with
              | some c => "bad:" ++ c
              | none =>
                match (if run.cfg.tmt != 0 then tmtViolation run tmts else none) with
                | some c => "bad:" ++ c
                | none => "ok"
    | _ => "bad:unparsable_reply"
  | ["panic"] => "bad:program_panicked"
  | [e] => "bad:program_failed_" ++ e
  | _ => "bad:unparsable_reply"

def handle (op : String) (args impl : List String) : Option Reply :=
  match op with
  | "e2e" => do
    let run ← Proto.run pRun args
    pure { model := "spec-only", agree := true, spec := verdict run impl }
  | _ => none

end Sage.C01
