import SageModel.Proto
import SageModel.Model.C09

/-! Driver ops for C09.

```
pep      := h:seq [n u32 mod…] opt(u32 nterm) opt(u32 cterm) u32(monoisotopic)
ions pep                                        | [k u32…]×6 (a b c x y z)            | panic
ionidx [k kind…] min_ion_index bucket [p pep…]  | [f (pep_ix u32)…] sorted by (pep_ix, bits) | panic
ionconst tol_micro_da                           | u32×4   -(C+O), NH3, C+O-NH3+N+H, -NH3
ionidxb style opt(min_ion_index) opt([k kind…]) opt(bucket_size) [t threads…] [p pep…]
        | min_ion_index [k kind…] bucket_size  [f (pep_ix u32)…]  (t−1)×( 1 | 0 [f (pep_ix u32)…] ) order_ok  | panic
```

`ionidxb` goes through the configuration path of sage-cli: the harness writes the optional settings as
JSON text (`style` picks the rendering: absent key / explicit `null` / key order), deserialises it into
`sage_cli::input::Input`, calls `Input::build()` (→ `Builder::make_parameters`) and runs
`build_from_peptides` inside an explicit rayon pool of each listed size. The reply echoes the
resolved `Parameters` fields, gives the fragment list of the first pool size, and for every further
pool size `1` (identical) or `0` + its list. The spec checks, per peptide index, that the multiset of
masses stored under that index is the ion-series definition for THAT peptide of the request.

```
```

`agree` is exact token equality everywhere (only `+ −` and negation are involved; the model performs
them in the order of the Rust code at `Float32`).

`spec` is evaluated on the IMPLEMENTATION's reply, in exact rational arithmetic on the exact values
of the floats, with the rounding allowance `(4n+8)·2⁻²⁴·S` (`n` = sequence length, `S` = sum of the
absolute values of everything that enters a series + 64): a bound on the accumulated rounding of at
most `4n+8` f32 operations whose results are bounded by `S`, not a tuned tolerance. The a/c/x/z offsets
are compared with hand-written reference masses of CO / NH3 (not with the regenerated constants),
all within 1e-4 Da (plus the rounding allowance).
-/
namespace Sage.C09
open Sage.Proto

structure RawPep where
  seq : List UInt8
  mods : List Nat
  nterm : Option Nat
  cterm : Option Nat
  mass : Nat

def pRaw : P RawPep := do
  let seq ← bytes
  let mods ← list nat
  let nterm ← opt nat
  let cterm ← opt nat
  let mass ← nat
  pure { seq, mods, nterm, cterm, mass }

def tableF : List Float32 := Sage.Gen.MONOISOTOPIC_bits.map f32OfBits
def zeroF : Float32 := Float32.ofNat 0

def RawPep.toF (r : RawPep) : Pep Float32 :=
  { residues := r.seq.map (fun b => monoOf tableF zeroF b.toNat)
    mods := r.mods.map f32OfBits
    nterm := (r.nterm.map f32OfBits).getD zeroF      -- `unwrap_or_default()`
    cterm := (r.cterm.map f32OfBits).getD zeroF
    mass := f32OfBits r.mass }

def allSome {α} : List (Option α) → Option (List α)
  | [] => some []
  | none :: _ => none
  | some x :: xs => (allSome xs).map (x :: ·)

/-- exact rational reading of the same peptide; `none` if a value is not finite -/
def RawPep.toQ (r : RawPep) : Option (Pep Rat) := do
  let residues ← allSome (r.seq.map (fun b => ratOfF32Bits (monoOf Sage.Gen.MONOISOTOPIC_bits 0 b.toNat)))
  let mods ← allSome (r.mods.map ratOfF32Bits)
  let nterm ← match r.nterm with | none => some 0 | some b => ratOfF32Bits b
  let cterm ← match r.cterm with | none => some 0 | some b => ratOfF32Bits b
  let mass ← ratOfF32Bits r.mass
  pure { residues, mods, nterm, cterm, mass }

def sumQ (l : List Rat) : Rat := l.foldl (· + ·) 0

/-- `[0, x₀, x₀+x₁, …]` -/
def prefixQ (l : List Rat) : List Rat :=
  (l.foldl (fun (acc : List Rat × Rat) x => ((acc.2 + x) :: acc.1, acc.2 + x)) ([0], 0)).1.reverse

/-- residue + modification masses, position by position (a missing trailing modification reads as 0;
    only used where the real code does not read it) -/
def pairsQ (p : Pep Rat) : List Rat :=
  (List.range p.residues.length).map (fun i => p.residues.getD i 0 + p.mods.getD i 0)

def allowance (p : Pep Rat) : Rat :=
  let s := absQ p.nterm + absQ p.cterm + absQ p.mass + sumQ (p.residues.map absQ) + sumQ (p.mods.map absQ) + 64
  ((4 * p.residues.length + 8 : Nat) : Rat) * s / 16777216

def H2O_ref : Rat := 18010565 / 1000000

def close (x y tol : Rat) : Bool := decide (absQ (x - y) ≤ tol)

def renderSeries (ls : List (List Float32)) : String :=
  " ".intercalate (ls.map (outList outF32))

/-- first index in `0..n` at which `f` fails -/
def firstBad (n : Nat) (f : Nat → Bool) : Option Nat := (List.range n).find? (fun i => !f i)

def inDomain (r : RawPep) : Bool := r.seq.length ≥ 1 && r.mods.length + 1 ≥ r.seq.length

/-- the executable spec for one peptide, on the six series the implementation returned (bit patterns) -/
def specIons (r : RawPep) (impl : List (List Nat)) : String :=
  let n := r.seq.length
  match impl with
  | [sa, sb, sc, sx, sy, sz] =>
    if [sa, sb, sc, sx, sy, sz].any (fun s => s.length != n - 1) then "bad:series_length" else
    match r.toQ, allSome ([sa, sb, sc, sx, sy, sz].map (fun s => allSome (s.map ratOfF32Bits))) with
    | some p, some [qa, qb, qc, qx, qy, qz] =>
      let al := allowance p
      let pre := prefixQ (pairsQ p)          -- pre[i] = Σ_{j<i} (res_j + mod_j)
      let total := pre.getD n 0
      let at' (l : List Rat) (i : Nat) : Rat := l.getD i 0
      -- b_i (iteration index i ↔ ordinal i+1) = nterm + first i+1 residues
      match firstBad (n - 1) (fun i => close (at' qb i) (p.nterm + at' pre (i + 1)) al) with
      | some i => s!"bad:b_def@{i}"
      | none =>
      match firstBad (n - 1) (fun i => close (at' qb i + at' qy i) p.mass (2 * al)) with
      | some i => s!"bad:complement@{i}"
      | none =>
      -- y_def only when the mass is consistent (WellFormed) and every modification is present
      let wf := r.mods.length ≥ n && close p.mass (H2O_ref + total + p.nterm + p.cterm) (al + 1/10000)
      match (if wf then firstBad (n - 1) (fun i =>
                close (at' qy i) (H2O_ref + p.cterm + (total - at' pre (i + 1))) (2 * al + 1/10000)) else none) with
      | some i => s!"bad:y_def@{i}"
      | none =>
      match firstBad (n - 1) (fun i => close (at' qa i) (at' qb i - CO_ref) (2 * al + 1/10000)) with
      | some i => s!"bad:offset_a@{i}"
      | none =>
      match firstBad (n - 1) (fun i => close (at' qc i) (at' qb i + NH3_ref) (2 * al + 1/10000)) with
      | some i => s!"bad:offset_c@{i}"
      | none =>
      match firstBad (n - 1) (fun i => close (at' qx i) (at' qy i + XOFF_ref) (2 * al + 1/10000)) with
      | some i => s!"bad:offset_x@{i}"
      | none =>
      match firstBad (n - 1) (fun i => close (at' qz i) (at' qy i - NH3_ref) (2 * al + 1/10000)) with
      | some i => s!"bad:offset_z@{i}"
      | none => "ok"
    | _, _ => "na"     -- a non-finite value somewhere: the arithmetic clauses do not apply
  | _ => "bad:shape"

def pSix : P (List (List Nat)) := listN (list nat) 6

def lePair (a b : Nat × Nat) : Bool := a.1 < b.1 || (a.1 == b.1 && a.2 ≤ b.2)

def renderFrags (l : List (Nat × Nat)) : String :=
  " ".intercalate (toString l.length :: l.map (fun f => s!"{f.1} {f.2}"))

def bitsOf (l : List (Nat × Float32)) : List (Nat × Nat) := l.map (fun f => (f.1, f.2.toBits.toNat))

def leNat (a b : Nat) : Bool := decide (a ≤ b)

/-- sorted multiset of mass bit patterns the definition puts under ONE peptide (by-ordinal selection,
    computed from the request's peptide at `Float32`) -/
def wantBits (kinds : List Kind) (minIdx : Nat) (r : RawPep) : List Nat :=
  ((specFragments constsF kinds minIdx [r.toF]).map (fun f => f.2.toBits.toNat)).mergeSort leNat

def blankRaw : RawPep := ⟨[], [], none, none, 0⟩

/-- the stored masses grouped by peptide index (one pass; indices ≥ np are dropped, they are reported
    separately) -/
def groupByPep (np : Nat) (impl : List (Nat × Nat)) : Array (List Nat) :=
  impl.foldl (fun (acc : Array (List Nat)) f => if f.1 < acc.size then acc.modify f.1 (f.2 :: ·) else acc)
    (Array.replicate np [])

def sameForm (a b : RawPep) : Bool :=
  a.seq == b.seq && a.mods == b.mods && a.nterm == b.nterm && a.cterm == b.cterm && a.mass == b.mass

/-- per peptide index: compare what is stored under it with the definition for that peptide and name
    the recognisable failure shapes: the ions of an isomer (same sequence, same mass, other modification
    vector); an ion of another peptide; the first ions of every series missing / present as if
    `min_ion_index` had another value -/
def perPeptide (kinds : List Kind) (minIdx : Nat) (raws : List RawPep) (groups : Array (List Nat))
    (wants : Array (List Nat)) : Option String :=
  let np := raws.length
  let rawsA := raws.toArray
  (List.range np).findSome? (fun i =>
    let r := rawsA.getD i blankRaw
    let got := groups.getD i []
    let want := wants.getD i []
    if got == want then none else
    -- nearest neighbours first (the list is usually in database order), then everybody
    let cands := ((List.range 8).flatMap (fun d => [i - (d + 1), i + d + 1])).filter (fun j => j < np && j != i)
    match cands.find? (fun j =>
        let rj := rawsA.getD j blankRaw
        rj.seq == r.seq && rj.mass == r.mass && !sameForm rj r && got == wants.getD j []) with
    | some j => some s!"bad:isomer_ions_shared@pep{i}=pep{j}"
    | none =>
    match (List.range np).find? (fun j =>
        let rj := rawsA.getD j blankRaw
        j != i && rj.seq == r.seq && rj.mass == r.mass && !sameForm rj r && got == wants.getD j []) with
    | some j => some s!"bad:isomer_ions_shared@pep{i}=pep{j}"
    | none =>
    let foreign := got.filter (fun m => !want.contains m)
    match (List.range np).find? (fun j => j != i && foreign.any (fun m => (wants.getD j []).contains m)) with
    | some j => some s!"bad:ion_under_wrong_peptide@pep{i}<-pep{j}"
    | none =>
      let n := r.seq.length
      match ((List.range (n + 1)).filter (fun m => decide (minIdx < m))).find? (fun m => got == wantBits kinds m r) with
      | some m => some s!"bad:first_ions_missing@pep{i}:min_ion_index_{minIdx}_acts_as_{m}"
      | none =>
        match (List.range minIdx).find? (fun m => got == wantBits kinds m r) with
        | some m => some s!"bad:first_ions_not_removed@pep{i}:min_ion_index_{minIdx}_acts_as_{m}"
        | none => none)

/-- the executable spec of the index content on the implementation's fragment list -/
def specIdx (kinds : List Kind) (minIdx : Nat) (raws : List RawPep) (impl : List (Nat × Nat)) : String :=
  let np := raws.length
  -- 1. every fragment is tagged with an existing peptide
  if impl.any (fun f => f.1 ≥ np) then "bad:peptide_index_out_of_range" else
  let groups := (groupByPep np impl).map (fun l => l.mergeSort leNat)
  let wants := (raws.map (wantBits kinds minIdx)).toArray
  -- fast path for long lists: every index holds, bit for bit, the definition for its own peptide
  -- (lists of up to 64 peptides always go through the exact-arithmetic clauses as well)
  if np > 64 && groups == wants then "ok" else
  -- 2. per peptide index, bit-exact against the definition for THAT peptide: recognisable shapes first
  match perPeptide kinds minIdx raws groups wants with
  | some s => s
  | none =>
  -- 3. per peptide: as many fragments as there are (kind, ordinal) pairs with min_ion_index < ordinal < n
  let rawsA := raws.toArray
  let countBad := (List.range np).find? (fun i =>
    let n := (rawsA.getD i blankRaw).seq.length
    (groups.getD i []).length != kinds.length * (n - 1 - minIdx))
  match countBad with
  | some i => s!"bad:count@pep{i}"
  | none =>
  -- 4./5. in exact arithmetic: nothing but the defined ions, and all of them
  let arith : Option String := (List.range np).findSome? (fun i =>
    let r := rawsA.getD i blankRaw
    if np > 64 && groups.getD i [] == wants.getD i [] then none else
    let mine := (groups.getD i []).map ratOfF32Bits
    match r.toQ, allSome mine with
    | some p, some ms =>
      let n := r.seq.length
      let al := 2 * allowance p + 1/1000
      let wanted : List Rat := kinds.flatMap (fun kind =>
        ((List.range n).filter (fun o => decide (minIdx < o))).map (fun o => ionDef constsQ kind p o))
      if ms.any (fun m => !wanted.any (fun w => close m w al)) then some s!"bad:nothing_else@pep{i}"
      else if wanted.any (fun w => !ms.any (fun m => close m w al)) then some s!"bad:all_present@pep{i}"
      else none
    | _, _ => none)
  match arith with
  | some s => s
  | none =>
  -- 6. bit-exact, per peptide index: the multiset is the by-ordinal selection from that peptide's series
  match (List.range np).find? (fun i => groups.getD i [] != wants.getD i []) with
  | some i => s!"bad:content@pep{i}"
  | none => "ok"

def pIdxReply : P (List (Nat × Nat)) := list (do let i ← nat; let m ← nat; pure (i, m))

def constPep : RawPep := { seq := [97, 97], mods := [0, 0], nterm := none, cterm := none, mass := 0 }

def handle (op : String) (args impl : List String) : Option Reply :=
  match op with
  | "ions" => do
    let r ← run pRaw args
    let p := r.toF
    let model : String :=
      if panics p then "panic"
      else renderSeries (Kind.all.map (fun kind => ions constsF kind p))
    let spec : String :=
      if !inDomain r then "na"                                     -- outside the property's quantifier
      else if impl == ["panic"] then "bad:panic_in_domain"
      else match run pSix impl with
        | none => "bad:shape"
        | some six => specIons r six
    pure (exact model (" ".intercalate impl) spec)
  | "ionconst" => do
    let tol ← run nat args
    let p := constPep.toF
    let first (kind : Kind) : Float32 := (ions constsF kind p).headD zeroF
    let model := " ".intercalate ([Kind.a, Kind.c, Kind.x, Kind.z].map (fun k => outF32 (first k)))
    let t : Rat := (tol : Rat) / 1000000
    let spec : String :=
      match (run (listN nat 4) impl).bind (fun l => allSome (l.map ratOfF32Bits)) with
      | some [a, c, x, z] =>
        if !close (-a) CO_ref t then "bad:co_reference"
        else if !close c NH3_ref t then "bad:nh3_reference"
        else if !close (-z) NH3_ref t then "bad:nh3_reference_z"
        else if !close x XOFF_ref t then "bad:xoff_reference"
        else "ok"
      | _ => "bad:shape"
    pure (exact model (" ".intercalate impl) spec)
  | "ionidx" => do
    let (kindNs, minIdx, _bucket, raws) ← run (do
      let k ← list nat; let m ← nat; let b ← nat; let ps ← list pRaw; pure (k, m, b, ps)) args
    let kinds ← allSome (kindNs.map Kind.ofNat?)
    let peps := raws.map RawPep.toF
    let model : String :=
      match buildFragments? constsF kinds minIdx peps with
      | none => "panic"
      | some fr => renderFrags ((bitsOf fr).mergeSort lePair)
    let spec : String :=
      if !(kinds.isEmpty || raws.all inDomain) then "na"
      else if impl == ["panic"] then "bad:panic_in_domain"
      else match run pIdxReply impl with
        | none => "bad:shape"
        | some fr => specIdx kinds minIdx raws fr
    pure (exact model (" ".intercalate impl) spec)
  | "ionidxb" => do
    let (_style, minO, kindsO, bucketO, threads, raws) ← run (do
      let st ← nat; let m ← opt nat; let k ← opt (list nat); let b ← opt nat
      let ts ← list nat; let ps ← list pRaw; pure (st, m, k, b, ts, ps)) args
    let kindsO' ← match kindsO with
      | none => some none
      | some ks => (allSome (ks.map Kind.ofNat?)).map some
    if threads.isEmpty then none
    let bld : Builder := { minIonIndex := minO, ionKinds := kindsO', bucketSize := bucketO }
    let prm := bld.makeParameters
    let peps := raws.map RawPep.toF
    let head := s!"{prm.minIonIndex} " ++ outList (fun k => toString (Kind.all.idxOf k)) prm.ionKinds ++ s!" {prm.bucketSize}"
    let model : String :=
      match buildFromBuilder? constsF bld peps with
      | none => "panic"
      | some fr =>
        " ".intercalate (head :: renderFrags ((bitsOf fr).mergeSort lePair) :: (threads.drop 1).map (fun _ => "1") ++ ["1"])
    let pBlocks : P (Nat × List Nat × Nat × List (Nat × List (Nat × Nat)) × Nat) := do
      let m ← nat; let ks ← list nat; let b ← nat
      let first ← pIdxReply
      let rest ← listN (do
        let same ← nat
        if same == 1 then pure first else pIdxReply) (threads.length - 1)
      let ord ← nat
      pure (m, ks, b, (threads.zip (first :: rest)), ord)
    let spec : String :=
      if !(prm.ionKinds.isEmpty || raws.all inDomain) then "na"
      else if impl == ["panic"] then "bad:panic_in_domain"
      else match run pBlocks impl with
        | none => "bad:shape"
        | some (m, ks, b, blocks, ord) =>
          let first := (blocks.headD (0, [])).2
          let dep := blocks.any (fun tb => tb.2 != first)
          let depS := if dep then ":thread_dependent" else ""
          -- the content is judged against the CONFIGURED settings (request), pool size by pool size
          let distinct := blocks.foldl (fun (acc : List (Nat × List (Nat × Nat))) tb =>
              if acc.any (fun a => a.2 == tb.2) then acc else acc ++ [tb]) []
          match distinct.findSome? (fun tb =>
              let v := specIdx prm.ionKinds prm.minIonIndex raws tb.2
              if v == "ok" then none else some s!"{v}:threads{tb.1}") with
          | some v => v ++ depS
          | none =>
            if dep then "bad:thread_dependent"
            else if m != prm.minIonIndex then
              (if minO.isSome then s!"bad:min_ion_index_not_as_configured:{m}" else s!"bad:min_ion_index_default:{m}")
            else if ks != prm.ionKinds.map (fun k => Kind.all.idxOf k) then
              (if kindsO.isSome then "bad:ion_kinds_not_as_configured" else "bad:ion_kinds_default")
            else if b != prm.bucketSize then s!"bad:bucket_size:{b}"
            -- layout bit computed by the harness: buckets ascending in m/z, each sorted by peptide index, min_value right
            else if ord != 1 then "bad:index_order"
            else "ok"
    pure (exact model (" ".intercalate impl) spec)
  | _ => none

end Sage.C09
