import SageModel.Proto
import SageModel.Model.C11

/-! Driver ops for C11.

Request body (both ops), see `harness/src/ops/c11.rs`:

  <op> h:fasta mc minlen maxlen decoys bucket report chimera minmatched isolo isohi zlo zhi
       annotate wide deiso minpeaks ptol ftol [F [S (u32 z u32 [n (u32 u32)…])…]…] [C (a b)…] reps seed

* `search`: (a b) = (threads, jitter); the reply has `1 + C·reps` runs, the first being the sequential
  reference.
* `batch`: (a b) = (batch_size, threads); the reply has `1 + C·reps` runs, the first being the
  unbatched sequential reference (all spectra of all files in input order, no Runner), or is `panic`
  when some batch size is 0.

Reply:  K then per run  a b dOrd dSet [n (key rank psm_id file file_id)…]

The driver cannot score spectra; what the model predicts is the *relation* between the runs:

* (`par_flat_map_any_split`, `reduce_any_tree`) every run has the digests and the (key, rank) sequence
  of the first run;
* (`batching_irrelevant`) `file_id` of every row is what `batchFiles` assigns to its file for that
  run's batch size — the driver evaluates `batchFiles` itself;
* (`ids_unique_from`, `ids_range`, `ids_program_order`) the `(key, psm_id)` pairs of run `k` are
  exactly what the counter machine hands out on the observed schedule (tasks sorted by id) started
  at `base + (number of PSMs of the earlier runs)`, `base` being the smallest id of the first run
  (the state of the process-global counter when the op started is not an input of the model), and
  inside a task ids grow with rank.  This presupposes that nothing else increments `PSM_COUNTER`
  while the op runs (`serial: true` in the harness).

* `downstream`: (a b) = (threads, unused); reply `K` then per run `threads lda_ok [n (u32 disc, u32 pep)…]`;
  spec: every run agrees with the first within `closeF32` (≤ 4 f32 ulps; exact-arithmetic sums are
  order-free: `par_sum_any_tree`); agree: bit-identical, because no parallel float reduction is left
  on the `score_psms` path since /repo 2c91348.

* (`accumulate_any_split`, `reduce_any_tree`) `batch` only — each run is followed by
  `[F #MS1 per file_id…] mOrd mSet nQuant qOrd qSet`: the MS1 scans kept per file are the input's (`z = 255` scans of
  the request), with the reference's digests (spec: `bad:ms1_scans_lost`, `bad:ms1_thread_dependent`;
  the ordered digest is part of `agree` only); the TMT rows are those of the reference
  (`bad:quant_thread_dependent`; order in `agree`).

`agree` is the conjunction of these; the model column shows `K nPSM base` and the first run's digests.
`spec` evaluates the property's clauses on the implementation's reply alone.
-/
namespace Sage.C11
open Sage.Proto

structure Run where
  a : Nat
  b : Nat
  dOrd : Nat
  dSet : Nat
  rows : List (Nat × Nat × Nat × Nat × Nat)     -- key rank id file file_id
  /-- `batch` only: MS1 side of the `SageResults` — #MS1 scans per file_id, ordered digest, multiset digest -/
  ms1 : Option (List Nat × Nat × Nat) := none
  /-- `batch` only: TMT side — number of quant rows, ordered digest, multiset digest -/
  quant : Option (Nat × Nat × Nat) := none
deriving Repr

def Run.obs (r : Run) : Obs :=
  { dOrd := r.dOrd, dSet := r.dSet, rows := r.rows.map (fun (k, rk, id, _, _) => (k, rk, id)) }

def pRun (withMs1 : Bool) : P Run := do
  let a ← nat; let b ← nat; let dOrd ← nat; let dSet ← nat
  let rows ← list (do
    let k ← nat; let rk ← nat; let id ← nat; let f ← nat; let fid ← nat
    pure (k, rk, id, f, fid))
  if withMs1 then
    let counts ← list nat
    let mOrd ← nat; let mSet ← nat
    let nq ← nat; let qOrd ← nat; let qSet ← nat
    pure { a, b, dOrd, dSet, rows, ms1 := some (counts, mOrd, mSet), quant := some (nq, qOrd, qSet) }
  else
    pure { a, b, dOrd, dSet, rows }

structure Request where
  nfiles : Nat
  nspectra : Nat
  /-- number of MS1 scans (`z = 255`) of every input file, in file order -/
  ms1Counts : List Nat
  configs : List (Nat × Nat)
  reps : Nat

def pRequest : P Request := do
  let _fasta ← tok
  let _cfg ← listN int 18
  let files ← list (list (do
    let _ ← nat; let z ← nat; let _ ← nat
    let _ ← list (do let _ ← nat; let _ ← nat; pure ())
    pure z))
  let configs ← list (do let a ← nat; let b ← nat; pure (a, b))
  let reps ← nat
  let _seed ← nat
  pure { nfiles := files.length, nspectra := (files.map List.length).sum,
         ms1Counts := files.map (fun f => (f.filter (· == 255)).length), configs, reps }

/-- the model's `file_id` of every file position for a batch size (`none` = the `chunks(0)` panic) -/
def fileIds (bs nfiles : Nat) : Option (List Nat) :=
  batchFiles? (fun g (_ : Nat) => g) bs (List.range nfiles)

/-- ids grow with rank inside a task (consecutive rows of the same key) -/
def programOrder : List (Nat × Nat × Nat) → Bool
  | (k, _, id) :: (k', rk', id') :: rest =>
    (k != k' || decide (id < id')) && programOrder ((k', rk', id') :: rest)
  | _ => true

/-- checks of one run against the model; `bs` = the batch size in force for the run -/
def runAgrees (ref : Run) (base : Nat) (bs : Nat) (nfiles : Nat) (r : Run) : Bool :=
  let o := r.obs
  r.dOrd == ref.dOrd && r.dSet == ref.dSet && o.keys == ref.obs.keys &&
  explainedByCounter base (r.rows.map (fun (k, _, id, _, _) => (k, id))) &&
  programOrder o.rows &&
  (match fileIds bs nfiles with
   | none => false
   | some ids => r.rows.all (fun (_, _, _, f, fid) => ids[f]? == some fid))

def minId (r : Run) : Nat :=
  match r.obs.ids with
  | [] => 0
  | x :: xs => xs.foldl min x

/-- bases of the runs: run `k` starts where run `k-1` stopped -/
def bases (base : Nat) : List Run → List Nat
  | [] => []
  | r :: rs => base :: bases (base + r.rows.length) rs

def specOf (req : Request) (runs : List Run) : String :=
  -- every PSM belongs to a spectrum / file of the input
  if runs.any (fun r => r.rows.any (fun (k, _, _, f, _) => decide (k ≥ req.nspectra) || decide (f ≥ req.nfiles)))
  then "bad:foreign_psm"
  -- file_id must be the global position of the file whatever the batching
  else if runs.any (fun r => r.rows.any (fun (_, _, _, f, fid) => f != fid)) then "bad:file_id"
  else
  let s := specSearch (runs.map Run.obs)
  if s != "ok" then s else
  -- the MS1 scans that reach LFQ: per file exactly the input's, whatever the pool / batch size
  match runs with
  | [] => "ok"
  | ref :: _ =>
    if runs.any (fun r => match r.ms1 with | some (c, _, _) => c != req.ms1Counts | none => false)
    then "bad:ms1_scans_lost"
    else if runs.any (fun r => match r.ms1, ref.ms1 with
                               | some (_, _, mSet), some (_, _, mSet0) => mSet != mSet0
                               | _, _ => false)
    then "bad:ms1_thread_dependent"
    -- the TMT rows: the same multiset as the unbatched sequential reference
    else if runs.any (fun r => match r.quant, ref.quant with
                               | some (n, _, qSet), some (n0, _, qSet0) => n != n0 || qSet != qSet0
                               | _, _ => false)
    then "bad:quant_thread_dependent"
    else "ok"

/-! ### `downstream` -/

structure DRun where
  threads : Nat
  ldaOk : Bool
  vals : List (Nat × Nat)      -- (discriminant_score bits, posterior_error bits), f32
deriving Repr

def pDRun : P DRun := do
  let threads ← nat; let ldaOk ← bool
  let vals ← list (do let a ← nat; let b ← nat; pure (a, b))
  pure { threads, ldaOk, vals }

/-- the property's "within floating-point summation error", as a stated bound on the f32 outputs:
    identical bits (covers NaN = NaN, ±∞), or both finite and at most 4 f32 ulps apart.
    Rationale: the outputs are f64 results rounded to f32; reordering an f64 sum of n ≤ 10⁶ terms of
    one sign moves it by ≤ n·2⁻⁵³ relative, far below one f32 ulp, so 4 ulps leaves room for a few
    such reductions in sequence but not for any amplification (which the property does not exempt). -/
def closeF32 (a b : Nat) : Bool :=
  a == b ||
  match ratOfF32Bits a, ratOfF32Bits b with
  | some _, some _ => decide (ulpDistF32 (Float32.ofBits a.toUInt32) (Float32.ofBits b.toUInt32) ≤ 4)
  | _, _ => false

def handleDownstream (args impl : List String) : Option Reply := do
  let req ← run pRequest args
  if impl == ["panic"] then pure { model := "no-panic", agree := false, spec := "na" } else
  match run (list pDRun) impl with
  | none => pure { model := "unparsable-impl-reply", agree := false, spec := "na" }
  | some [] => pure { model := "0", agree := req.configs.length * req.reps == 0, spec := "na" }
  | some (ref :: rest) =>
    let shapeOk := (ref :: rest).length == req.configs.length * req.reps &&
      (ref :: rest).map (·.threads) == req.configs.flatMap (fun c => List.replicate req.reps c.1)
    let spec :=
      if rest.any (fun r => r.ldaOk != ref.ldaOk) then "bad:downstream_lda_outcome"
      else if rest.any (fun r => r.vals.length != ref.vals.length) then "bad:downstream_length"
      else if rest.any (fun r => (r.vals.zip ref.vals).any (fun ((a, b), (a', b')) => !closeF32 a a' || !closeF32 b b'))
      then "bad:downstream_drift"
      else "ok"
    let exact := rest.all (fun r => r.vals == ref.vals)
    pure { model := s!"{(ref :: rest).length} {ref.vals.length} {outBool ref.ldaOk} bit-identical={outBool exact}",
           -- the model of the code as it is NOW (/repo 2c91348): no parallel float reduction is left on the
           -- score_psms path (every sum is a sequential fold, every par_iter an element-wise map with an
           -- ordered collect), so the runs must be bit-identical
           agree := shapeOk && spec == "ok" && exact, spec }

/-! ### `alignpools` -/

structure ARun where
  threads : Nat
  align : List (Nat × Nat × Nat)     -- (max_rt, slope, intercept) bits per file
  aligned : List Nat                 -- aligned_rt bits per PSM
deriving Repr, BEq

def pARun : P ARun := do
  let threads ← nat
  let align ← list (do let a ← nat; let b ← nat; let c ← nat; pure (a, b, c))
  let aligned ← list nat
  pure { threads, align, aligned }

/-- `alignpools nfiles [n (file pep label u32 q u32 rt)…] [C threads…] reps`: the property's clause is a spec
    over the reply list — every pool's (alignments, aligned_rt) equals the first (1-thread) pool's, bit for bit. -/
def handleAlignPools (args impl : List String) : Option Reply := do
  let (nfiles, n, pools, reps) ← run (do
    let nfiles ← nat
    let rows ← list (do let _ ← nat; let _ ← nat; let _ ← int; let _ ← nat; let _ ← nat; pure ())
    let pools ← list nat
    let reps ← nat
    pure (nfiles, rows.length, pools, reps)) args
  if impl == ["panic"] then pure { model := "no-panic", agree := false, spec := "bad:unexpected_panic" } else
  match run (list pARun) impl with
  | none => pure { model := "unparsable-impl-reply", agree := false, spec := "na" }
  | some runs =>
    let shapeOk := runs.map (·.threads) == pools.flatMap (fun t => List.replicate reps t) &&
      runs.all (fun r => r.align.length == nfiles && r.aligned.length == n)
    let spec :=
      if !allEqualFirst (runs.map (fun r => r.align.map (·.1))) then "bad:max_rt_thread_dependent"
      else if !allEqualFirst (runs.map (fun r => (r.align, r.aligned))) then "bad:align_thread_dependent"
      else "ok"
    pure { model := s!"{runs.length} {nfiles} {n} all-equal-to-pool-1", agree := shapeOk && spec == "ok", spec }

def handle (op : String) (args impl : List String) : Option Reply :=
  if op == "alignpools" then handleAlignPools args impl else
  if op == "downstream" then handleDownstream args impl else
  if op != "search" && op != "batch" then none else do
    let isBatch := op == "batch"
    let req ← run pRequest args
    let expectedRuns := 1 + req.configs.length * req.reps
    -- batch size of each run, in reply order
    let bss : List Nat :=
      if isBatch then 1 :: req.configs.flatMap (fun (bs, _) => List.replicate req.reps bs)
      else List.replicate expectedRuns 1
    let modelPanics := isBatch && bss.any (· == 0)
    if impl == ["panic"] then
      -- `chunks(0)` is the only modelled panic
      -- a panic on an input the sequential reference handles is a result that depends on the pipeline
      pure { model := if modelPanics then "panic" else "no-panic", agree := modelPanics,
             spec := if modelPanics then "na" else "bad:unexpected_panic" }
    else
    match run (list (pRun isBatch)) impl with
    | none => pure { model := "unparsable-impl-reply", agree := false, spec := "na" }
    | some runs =>
      let spec := specOf req runs
      match runs with
      | [] => pure { model := "0", agree := !modelPanics && expectedRuns == 0, spec := "na" }
      | ref :: _ =>
        let base := minId ref
        let n := ref.rows.length
        let bs0 := bases (if n == 0 then 0 else base) runs
        let triples := (runs.zip bs0).zip bss
        let shapeOk := runs.length == expectedRuns && !modelPanics &&
          (runs.map (fun r => (r.a, r.b))) == (0, 0) :: req.configs.flatMap (fun c => List.replicate req.reps c)
        let ok := shapeOk && triples.all (fun ((r, b), bs) =>
          -- with no PSM at all there is no id to anchor the counter on
          if n == 0 then r.rows.isEmpty && r.dOrd == ref.dOrd && r.dSet == ref.dSet
          else runAgrees ref b bs req.nfiles r) &&
          -- MS1 side: the accumulator / SageResults machines concatenate in input order (`accumulate_any_split`,
          -- `reduce_any_tree`): same ordered digest as the sequential reference, counts = the input's
          runs.all (fun r => match r.ms1, ref.ms1 with
            | some (c, mOrd, mSet), some (_, mOrd0, mSet0) => c == req.ms1Counts && mOrd == mOrd0 && mSet == mSet0
            | none, none => true
            | _, _ => false) &&
          runs.all (fun r => r.quant == ref.quant)
        let model := s!"{expectedRuns} {n} {base} {ref.dOrd} {ref.dSet}"
        pure { model, agree := ok, spec }

end Sage.C11
