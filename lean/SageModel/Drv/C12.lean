import SageModel.Proto
import SageModel.Model.C12

/-! Driver ops for C12.

`specq [n label…] junk | [n u32…] passing`   labels: 1 = decoy, 0 = target; `junk` seeds the stale
values of all other PSM fields on the Rust side and is ignored here: the result depends on the labels only.
-/
namespace Sage.C12
open Sage.Proto

/-- the single IEEE rounding `decoy as f32 / target as f32` of an exact ratio `num/den`
    (exact while num, den < 2²⁴: both casts are exact and IEEE division is correctly rounded) -/
def toF32 (q : Rat) : Float32 := Float32.ofNat q.num.toNat / Float32.ofNat q.den

def handle (op : String) (args impl : List String) : Option Reply :=
  match op with
  | "specq" => do
    let (labels, _junk) ← run (do let l ← list bool; let j ← nat; pure (l, j)) args
    let (qs, passing) := spectrumQ labels
    let model := outList (fun q => outF32 (toF32 q)) qs ++ " " ++ toString passing
    -- spec evaluated on the implementation's reply
    let spec : String :=
      match run (do let q ← list nat; let p ← nat; pure (q, p)) impl with
      | none => "na"
      | some (iq, ip) =>
        if iq.length != labels.length then "bad:length" else
        -- the O(n²) definition itself for n ≤ 48; beyond that its proven equal (`q_eq_spec`), the model
        let want : Nat → Rat := if labels.length ≤ 48 then qSpec labels else fun i => qs.getD i 0
        let bad := (List.range labels.length).filter (fun i =>
          iq[i]? != some (toF32 (want i)).toBits.toNat)
        if !bad.isEmpty then s!"bad:q_ne_definition@{bad.head!}" else
        let cnt := (iq.filter (fun b => decide (Float32.ofBits b.toUInt32 ≤ (0.01 : Float32)))).length
        if cnt != ip then "bad:passing_count" else "ok"
    pure (exact model (" ".intercalate impl) spec)
  | _ => none

end Sage.C12
