import SageModel.Proto
import SageModel.Model.C12
import SageModel.Model.C12Rle

/-! Driver ops for C12.

`specq    [n label…] junk | [n u32…] passing frame`   labels: 1 = decoy, 0 = target; `junk` seeds the stale
values of all other PSM fields on the Rust side and is ignored here: the result depends on the labels
only (`q_label_only`), and only `spectrum_q` is written (`psm_frame`; the reply's `frame` bit).

`specqlab [n (label stale_q rank)…] | [n u32…] passing frame`   raw `Feature.label` values and explicit stale
`spectrum_q` / rank: the record-level model `spectrumQPsm` runs on exactly these records.

`specqrle [k (label runlen)…] junk | [m (u32 runlen)…] passing frame`   run-length encoded list; the
model works on the runs (`qRle`, proven equal to the list model on the expansion: `qRle_eq`), with
the code's `as f32` conversion of the two tallies (`r24`) — this op follows the real function through
lists of more than 2²⁴ PSMs.

What the property demands above 2²⁴: q = min over the cut-offs at or below the PSM of
(decoys+1)/targets **from the exact counts**, capped at 1 (`qRle id`, = `qSpec` on the expansion by
`qRle_exact` + `q_eq_spec`). The implementation returns an f32; the unchanged code converts both
tallies with `as f32` (round to nearest even, exact up to 2²⁴) and divides once. Each conversion that
can round moves the quotient by a relative ≤ 2⁻²⁴ (`r24_close`, `ratio_r24_close`), i.e. by at most
one step of the f32 grid after the final rounding; so the spec accepts a q-value iff it is within
`tol` f32 steps of the correctly rounded exact value, where
`tol = [decoys + 1 > 2²⁴] + [targets > 2²⁴]` — 0 for every list whose tallies stay ≤ 2²⁴ (bit-exact),
at most 2 otherwise. The model/implementation comparison (`agree`) is always exact.
-/
namespace Sage.C12
open Sage.Proto

/-- the single IEEE rounding `decoy as f32 / target as f32` of an exact ratio `num/den` of two
    f32-representable naturals (the reduced numerator and denominator are then representable too:
    both casts are exact and IEEE division is correctly rounded) -/
def toF32 (q : Rat) : Float32 := Float32.ofNat q.num.toNat / Float32.ofNat q.den

/-- correctly rounded (nearest, ties to even) f32 bit pattern of a positive rational, by integer
    arithmetic only; `none` outside the normal range. Independent of `Float32`: the spec side uses
    this, the model side `toF32`. -/
def rnF32 (q : Rat) : Option Nat :=
  if q.num ≤ 0 then none else
  let a := q.num.toNat
  let b := q.den
  let e0 : Int := (a.log2 : Int) - (b.log2 : Int)     -- a/b ∈ (2^(e0-1), 2^(e0+1))
  let ge : Bool := if e0 ≥ 0 then decide (b * 2 ^ e0.toNat ≤ a) else decide (b ≤ a * 2 ^ (-e0).toNat)
  let e : Int := if ge then e0 else e0 - 1            -- 2^e ≤ a/b < 2^(e+1)
  let sh : Int := 23 - e
  let nd : Nat × Nat := if sh ≥ 0 then (a * 2 ^ sh.toNat, b) else (a, b * 2 ^ (-sh).toNat)
  let m0 := nd.1 / nd.2
  let rem := nd.1 % nd.2
  let m := if 2 * rem < nd.2 then m0 else if nd.2 < 2 * rem then m0 + 1 else m0 + m0 % 2
  let me : Nat × Int := if m == 2 ^ 24 then (2 ^ 23, e + 1) else (m, e)
  let be := me.2 + 127
  if be < 1 ∨ be > 254 then none else some (be.toNat * 2 ^ 23 + (me.1 - 2 ^ 23))

def f32le001 (bits : Nat) : Bool := decide (Float32.ofBits bits.toUInt32 ≤ (0.01 : Float32))

/-- merge adjacent runs with equal values, drop empty runs (the harness sends maximal runs) -/
def mergeRuns (l : List (Nat × Nat)) : List (Nat × Nat) :=
  (l.foldl (fun acc p =>
    if p.2 == 0 then acc else
    match acc with
    | (b, k) :: tl => if b == p.1 then (b, k + p.2) :: tl else p :: acc
    | [] => [p]) []).reverse

def outRuns (l : List (Nat × Nat)) : String :=
  " ".intercalate (toString l.length :: l.map (fun p => s!"{p.1} {p.2}"))

def absDiff (a b : Nat) : Nat := if a ≤ b then b - a else a - b

/-- walk two run lists in lockstep; `none` = every PSM's value is within `tol` f32 steps, else the
    first offending position (`some n` with `n` = total length if the lengths differ) -/
def alignRuns (tol : Nat) : Nat → Nat → List (Nat × Nat) → List (Nat × Nat) → Option Nat
  | 0, pos, _, _ => some pos
  | _ + 1, _, [], [] => none
  | fuel + 1, pos, (_, 0) :: a, b => alignRuns tol fuel pos a b
  | fuel + 1, pos, a, (_, 0) :: b => alignRuns tol fuel pos a b
  | fuel + 1, pos, (x, ka) :: a, (y, kb) :: b =>
    if absDiff x y > tol then some pos else
    let k := min ka kb
    alignRuns tol fuel (pos + k) ((x, ka - k) :: a) ((y, kb - k) :: b)
  | _ + 1, pos, _, _ => some pos

def two24 : Nat := 2 ^ 24

/-- spec verdict for a plain list of impl q bit patterns -/
def specList (labels : List Bool) (iq : List Nat) (ip : Nat) (modelQs : List Rat) : String :=
  if iq.length != labels.length then "bad:length" else
  -- the O(n²) definition itself for n ≤ 48; beyond that its proven equal (`q_eq_spec`), the model
  let want : Nat → Rat := if labels.length ≤ 48 then qSpec labels else fun i => modelQs.getD i 0
  let bad := (List.range labels.length).filter (fun i => iq[i]? != rnF32 (want i))
  if !bad.isEmpty then s!"bad:q_ne_definition@{bad.head!}" else
  let cnt := (iq.filter f32le001).length
  if cnt != ip then "bad:passing_count" else "ok"

def handle (op : String) (args impl : List String) : Option Reply :=
  match op with
  | "specq" => do
    let (labels, _junk) ← run (do let l ← list bool; let j ← nat; pure (l, j)) args
    let (qs, passing) := spectrumQ labels
    let model := outList (fun q => outF32 (toF32 q)) qs ++ " " ++ toString passing ++ " 1"
    -- spec evaluated on the implementation's reply
    let spec : String :=
      match run (do let q ← list nat; let p ← nat; let f ← nat; pure (q, p, f)) impl with
      | none => if impl == ["panic"] then "bad:panic" else "na"
      | some (iq, ip, _) => specList labels iq ip qs
    pure (exact model (" ".intercalate impl) spec)
  | "specqlab" => do
    let recs ← run (list (do let l ← int; let q ← nat; let r ← nat; pure (l, q, r))) args
    let ps : List (Psm Nat) := recs.map (fun (l, q, r) => { label := l, spectrumQ := ratOfF32Bits q, rest := r })
    let (out, passing) := spectrumQPsm id ps
    let model := outList (fun p => match p.spectrumQ with | some q => outF32 (toF32 q) | none => "2139095040") out
      ++ " " ++ toString passing ++ " " ++ outBool (out.map (fun p => (p.label, p.rest)) == ps.map (fun p => (p.label, p.rest)))
    let legal := recs.all (fun (l, _, _) => l == 1 || l == -1)
    let spec : String :=
      if !legal then "na" else
      match run (do let q ← list nat; let p ← nat; let f ← nat; pure (q, p, f)) impl with
      | none => if impl == ["panic"] then "bad:panic" else "na"
      | some (iq, ip, _) => specList (ps.map isDecoy) iq ip (spectrumQ (ps.map isDecoy)).1
    pure (exact model (" ".intercalate impl) spec)
  | "specqrle" => do
    let (runs, _junk) ← run (do let l ← list (do let b ← bool; let k ← nat; pure (b, k)); let j ← nat; pure (l, j)) args
    let total := (runs.map (·.2)).sum
    -- the model of the code: tallies converted with `as f32` (r24), one division, backward minimum
    let pieces := (qRleAux r24 1 0 runs).1
    let mruns := mergeRuns (pieces.map (fun p => ((toF32 p.1).toBits.toNat, p.2)))
    let passing := ((mruns.filter (fun p => f32le001 p.1)).map (·.2)).sum
    let model := outRuns mruns ++ " " ++ toString passing ++ " 1"
    let spec : String :=
      match run (do let q ← list (do let b ← nat; let k ← nat; pure (b, k)); let p ← nat; let f ← nat; pure (q, p, f)) impl with
      | none => if impl == ["panic"] then "bad:panic" else "na"
      | some (iruns, ip, _) =>
        if (iruns.map (·.2)).sum != total then "bad:length" else
        let nDec := ((runs.filter (·.1)).map (·.2)).sum
        let nTar := total - nDec
        let tol := (if nDec + 1 > two24 then 1 else 0) + (if nTar > two24 then 1 else 0)
        -- the property's definition from the exact counts: the O(n²) definition on the expansion for
        -- total ≤ 48, else the RLE model with exact counters (`qRle_exact`, `q_eq_spec`)
        let want : List (Rat × Nat) :=
          if total ≤ 48 then (List.range total).map (fun i => (qSpec (expand runs) i, 1)) else (qRleAux id 1 0 runs).1
        let wbits := want.map (fun p => ((rnF32 p.1).getD 0, p.2))
        match alignRuns tol (2 * (wbits.length + iruns.length) + 4) 0 wbits iruns with
        | some pos => s!"bad:q_ne_definition@{pos}"
        | none =>
          let cnt := ((iruns.filter (fun p => f32le001 p.1)).map (·.2)).sum
          if cnt != ip then "bad:passing_count" else "ok"
    pure (exact model (" ".intercalate impl) spec)
  | _ => none

end Sage.C12
