import SageModel.Proto
import SageModel.Model.C17

/-! Driver ops for C17.

`mgf    fid h:text [k (h:token 0|1 u32)…] [m codepoint…] | ok [n spectrum…] | err | err:utf8 | panic`
`mgfraw` — same format (the generator differs: mutated / hand-made bytes, possibly invalid UTF-8).
`mgffile fid style h:text [table] [codepoints] | file <reply> direct <reply>` — the file route (`read_spectra`).

The model (`parseText`) runs on the decoded text at `ν := Float32`; `str::parse::<f32>` is the token
table of the request (the driver never parses decimal text), `char::is_numeric` is "ASCII digit or
listed code point". All float operations of the reader (`/ 60.0`, `abs`, unary minus, the running sum)
are the native IEEE ones, so the comparison is exact on bit patterns (NaNs canonicalised on both
sides: `Float32.toBits` canonicalises, the harness prints the canonical quiet NaN).

Spec verdict: the executable spec `specSpectra` (block-wise denotation, `Model/C17.lean`) is evaluated
on the classified lines and compared field by field with the IMPLEMENTATION's reply. Only what the
property text talks about is part of the verdict (number of spectra, MS level 2, title, precursor
m/z / intensity / charge / isolation window, RT in minutes, peak list, no panic); file id, TIC,
representation, injection time, mobility are compared with the model only (`agree`).
-/
namespace Sage.C17
open Sage.Proto

instance : NumOps Float32 where
  zero := 0.0
  one := 1.0
  sum0 := -0.0          -- `impl Sum for f32` folds from -0.0
  add := (· + ·)
  div60 := fun x => x / 60.0
  abs := Float32.abs
  neg := fun x => -x

/-- implementation-side / model-side record of one precursor, floats as bit patterns -/
structure IPrec where
  mz : Nat
  inten : Option Nat
  charge : Option Nat
  window : Option (String × Nat × Nat)
  sref : Bool
  iim : Option Nat
deriving BEq, Repr

structure ISpec where
  fid : Nat
  level : Nat
  id : List UInt8
  precs : List IPrec
  repr : String
  rt : Nat
  iit : Nat
  tic : Nat
  mzs : List Nat
  ints : List Nat
  mob : Bool
deriving BEq, Repr

def bitsOf (x : Float32) : Nat := x.toBits.toNat   -- NaN canonical

def toI (fid : Nat) (s : Spectrum Float32) : ISpec :=
  { fid := fid, level := 2, id := s.id.toUTF8.toList,
    precs := s.precs.map fun p =>
      { mz := bitsOf p.mz, inten := p.intensity.map bitsOf, charge := p.charge,
        window := p.window.map fun (u, lo, hi) => ((match u with | .da => "da" | .ppm => "ppm"), bitsOf lo, bitsOf hi),
        sref := false, iim := none },
    repr := "c", rt := bitsOf s.rt, iit := bitsOf 0.0, tic := bitsOf s.tic,
    mzs := s.mzs.map bitsOf, ints := s.ints.map bitsOf, mob := false }

def renderPrec (p : IPrec) : String :=
  " ".intercalate [toString p.mz, outOpt toString p.inten, outOpt toString p.charge,
    (match p.window with
     | none => "0"
     | some (u, lo, hi) => s!"1 {u} {lo} {hi}"),
    outBool p.sref, outOpt toString p.iim]

def renderSpec (s : ISpec) : String :=
  " ".intercalate [toString s.fid, toString s.level, hex s.id, outList renderPrec s.precs, s.repr,
    toString s.rt, toString s.iit, toString s.tic, outList toString s.mzs, outList toString s.ints, outBool s.mob]

def pPrec : P IPrec := do
  let mz ← nat
  let inten ← opt nat
  let charge ← opt nat
  let hasW ← nat
  let window ← (if hasW == 0 then pure none else do
    let u ← tok
    let lo ← nat
    let hi ← nat
    pure (some (u, lo, hi)))
  let sref ← bool
  let iim ← opt nat
  pure { mz, inten, charge, window, sref, iim }

def pSpec : P ISpec := do
  let fid ← nat
  let level ← nat
  let id ← bytes
  let precs ← list pPrec
  let repr ← tok
  let rt ← nat
  let iit ← nat
  let tic ← nat
  let mzs ← list nat
  let ints ← list nat
  let mob ← bool
  pure { fid, level, id, precs, repr, rt, iit, tic, mzs, ints, mob }

/-- first clause of the property that spectrum `i` of the implementation's reply breaks -/
def cmpSpec (i : Nat) (want got : ISpec) : Option String :=
  if got.level != 2 then some s!"bad:ms_level@{i}"
  else if got.id != want.id then some s!"bad:title@{i}"
  else if got.precs.length != want.precs.length then some s!"bad:precursor_count@{i}"
  else if got.precs.map (·.charge) != want.precs.map (·.charge) then some s!"bad:charge@{i}"
  else if got.precs.map (·.window) != want.precs.map (·.window) then some s!"bad:window@{i}"
  else if got.precs.map (·.mz) != want.precs.map (·.mz) then some s!"bad:pepmass_mz@{i}"
  else if got.precs.map (·.inten) != want.precs.map (·.inten) then some s!"bad:pepmass_intensity@{i}"
  else if got.rt != want.rt then some s!"bad:rt_minutes@{i}"
  else if got.mzs != want.mzs then some s!"bad:peak_mz@{i}"
  else if got.ints != want.ints then some s!"bad:peak_intensity@{i}"
  else none

def cmpAll : Nat → List ISpec → List ISpec → String
  | _, [], [] => "ok"
  | i, [], _ :: _ => s!"bad:extra_spectrum@{i}"
  | i, _ :: _, [] => s!"bad:missing_spectrum@{i}"
  | i, w :: ws, g :: gs =>
    match cmpSpec i w g with
    | some v => v
    | none => cmpAll (i + 1) ws gs

def lookup (tbl : List (String × Option Float32)) (dflt : Option Float32) (t : String) : Option Float32 :=
  match tbl.find? (fun e => e.1 == t) with
  | some e => e.2
  | none => dflt

def renderReply (fid : Nat) (l : List (Spectrum Float32)) : String :=
  "ok " ++ outList (fun s => renderSpec (toI fid s)) l

/-- everything the driver derives from the request's document: the model's reply, and the spec
verdict as a function of the implementation's reply tokens -/
def evalDoc (fid : Nat) (raw : List UInt8) (tblRaw : List (List UInt8 × Option Nat)) (nums : List Nat) :
    Option (String × (List String → String)) :=
  match String.fromUTF8? (ByteArray.mk raw.toArray) with
  | none =>
    -- `read_to_string` fails before the reader is called
    some ("err:utf8", fun impl =>
      if impl == ["panic"] then "bad:panic" else if impl == ["err:utf8"] then "ok" else "bad:accepted_invalid_utf8")
  | some text => do
    let tbl ← tblRaw.mapM fun (t, v) => do
      let s ← String.fromUTF8? (ByteArray.mk t.toArray)
      pure (s, v.map fun b => Float32.ofBits b.toUInt32)
    let isNum : Char → Bool := fun c => c.isDigit || nums.contains c.toNat
    let chars := text.toList
    let doc := classifyText (lookup tbl none) isNum chars
    -- guard: every token the model asked for must be in the table
    let doc' := classifyText (lookup tbl (some (Float32.ofBits 0x3fc00000))) isNum chars
    let model := renderReply fid (parseLines doc)
    if renderReply fid (parseLines doc') != model || doc.length != doc'.length then
      pure ("token-table-incomplete", fun _ => "na")
    else
    let want := (specSpectra doc).map (toI fid)
    pure (model, fun impl =>
      match impl with
      | ["panic"] => "bad:panic"
      | ["err"] => if malformed doc then "ok" else "bad:error_on_wellformed_document"
      | "ok" :: rest =>
        (match run (list pSpec) rest with
         | none => "na"
         | some got => cmpAll 0 want got)
      | _ => "bad:unexpected_reply_class")

def pRequest : P (Nat × List UInt8 × List (List UInt8 × Option Nat) × List Nat) := do
  let fid ← nat
  let raw ← bytes
  let tbl ← list (do let t ← bytes; let v ← opt nat; pure (t, v))
  let nums ← list nat
  pure (fid, raw, tbl, nums)

def handleMgf (args impl : List String) : Option Reply := do
  let (fid, raw, tblRaw, nums) ← run pRequest args
  let (model, spec) ← evalDoc fid raw tblRaw nums
  if model == "token-table-incomplete" then pure { model := model, agree := false, spec := "na" } else
  pure (exact model (" ".intercalate impl) (spec impl))

/-- `mgffile fid style …` — the document went through a file named by `style` (`.mgf`, `.MGF`, `.mgf.gz`,
`.MGF.GZ`, `.mgf.Gz`; gzip-compressed where the name says so) and `sage_cloudpath::util::read_spectra`.
Impl reply: `file <reply of the file route> direct <reply of MgfReader::parse on the same text>`.
Spec: the file route returns what the direct parse returns (`bad:file_route_differs`; `bad:file_id` when the
only difference is the file id, or when a spectrum does not carry the request's file id), never panics, and
the direct part satisfies the ordinary spec. -/
def handleFile (args impl : List String) : Option Reply := do
  let ((fid, raw, tblRaw, nums), _style) ← run (do
    let fid ← nat
    let style ← nat
    let raw ← bytes
    let tbl ← list (do let t ← bytes; let v ← opt nat; pure (t, v))
    let nums ← list nat
    pure ((fid, raw, tbl, nums), style)) args
  let (model, spec) ← evalDoc fid raw tblRaw nums
  if model == "token-table-incomplete" then pure { model := model, agree := false, spec := "na" } else
  let model2 := s!"file {model} direct {model}"
  let implS := " ".intercalate impl
  let verdict : String :=
    match impl with
    | "file" :: rest =>
      let filePart := rest.takeWhile (· != "direct")
      let directPart := (rest.dropWhile (· != "direct")).drop 1
      if filePart == ["panic"] then "bad:panic"
      else if filePart != directPart then
        (match filePart, directPart with
         | "ok" :: f, "ok" :: d =>
           (match run (list pSpec) f, run (list pSpec) d with
            | some fs, some ds =>
              if fs.map (fun x => { x with fid := 0 }) == ds.map (fun x => { x with fid := 0 }) then "bad:file_id"
              else "bad:file_route_differs"
            | _, _ => "bad:file_route_differs")
         | _, _ => "bad:file_route_differs")
      else
        (match filePart with
         | "ok" :: f =>
           (match run (list pSpec) f with
            | some fs => if fs.all (·.fid == fid) then spec directPart else "bad:file_id"
            | none => "na")
         | _ => spec directPart)
    | ["panic"] => "bad:panic"
    | _ => "bad:unexpected_reply_class"
  pure (exact model2 implS verdict)

/-! ### `mgfbig`: large files through the file route, described by a small request

`mgfbig fid style crlf nblocks pad a b [pepmass tokens] [header lines] [templates] [table] [codepoints]`
The text (see `harness/src/ops/c17.rs`) is header lines, `#` + pad×`x`, then per block `BEGIN IONS`, the lines of
template `((i*a+b) % 1000003) % m` with U+0001 ↦ decimal `i` and U+0002 ↦ pepmass token `i % k`, `END IONS`, an
empty line; every line ended by LF or CRLF. The driver does not materialise the megabytes of text: every line is
free of `\n` and does not end in `\r` (checked), so by `classifyText_join` / `rustLines_join_crlf`
(`Props/C17.lean`, `Lemmas/C17Text.lean`) the reader sees exactly `lines.map (classify ∘ trim)`, which is what is
built here (lines without placeholder are classified once per template). Model and spec run in O(lines).
Replies carry one short record per spectrum (file id, title, charges, first isolation window, FNV-1a-64 of the
canonical spectrum text) and a total digest. -/

def fnv (s : String) : Nat :=
  (s.toUTF8.foldl (fun (h : UInt64) b => (h ^^^ b.toUInt64) * 0x100000001b3) 0xcbf29ce484222325).toNat

structure BRec where
  fid : Nat
  id : List UInt8
  charges : List (Option Nat)
  win : Option (String × Nat × Nat)
  digest : Nat
deriving BEq, Repr

def toRec (s : ISpec) : BRec :=
  { fid := s.fid, id := s.id, charges := s.precs.map (·.charge), win := s.precs.head?.bind (·.window),
    digest := fnv (renderSpec s) }

def renderRec (r : BRec) : String :=
  " ".intercalate [toString r.fid, hex r.id, outList (outOpt toString) r.charges,
    (match r.win with
     | none => "0"
     | some (u, lo, hi) => s!"1 {u} {lo} {hi}"), toString r.digest]

def totalDigest (rs : List BRec) : Nat := fnv (" ".intercalate (rs.map fun r => toString r.digest))

def pRec : P BRec := do
  let fid ← nat
  let id ← bytes
  let charges ← list (opt nat)
  let hasW ← nat
  let win ← (if hasW == 0 then pure none else do
    let u ← tok
    let lo ← nat
    let hi ← nat
    pure (some (u, lo, hi)))
  let digest ← nat
  pure { fid, id, charges, win, digest }

def bigReplyPart (rs : List BRec) (withRecs : Bool) : String :=
  let head := s!"ok {rs.length} {totalDigest rs}"
  if withRecs && !rs.isEmpty then head ++ " " ++ " ".intercalate (rs.map renderRec) else head

/-- first clause broken by the file route's records; `directOk` = the direct parse's total digest is the expected one -/
def cmpBig (fid : Nat) (directOk : Bool) : Nat → List BRec → List BRec → String
  | _, [], [] => "ok"
  | i, [], _ :: _ => s!"bad:extra_spectrum@{i}"
  | i, _ :: _, [] => s!"bad:missing_spectrum@{i}"
  | i, w :: ws, g :: gs =>
    if g.fid != fid then s!"bad:file_id@{i}"
    else if g.id != w.id then s!"bad:title@{i}"
    else if g.charges.length != w.charges.length then s!"bad:precursor_count@{i}"
    else if g.charges != w.charges then s!"bad:charge@{i}"
    else if g.win != w.win then s!"bad:window@{i}"
    else if g.digest != w.digest then (if directOk then s!"bad:file_route_differs@{i}" else s!"bad:spectrum_differs@{i}")
    else cmpBig fid directOk (i + 1) ws gs

def substLine (i : Nat) (pep : Array (List Char)) (l : List Char) : List Char :=
  l.flatMap fun c =>
    if c.toNat == 1 then (toString i).toList
    else if c.toNat == 2 then (if pep.size == 0 then [] else pep[i % pep.size]!)
    else [c]

def isDynamic (l : List Char) : Bool := l.any fun c => c.toNat == 1 || c.toNat == 2

def handleBig (args impl : List String) : Option Reply := do
  let (fid, _style, _crlf, nblocks, pad, a, b, pepRaw, hdrRaw, tplRaw, tblRaw, nums) ← run (do
    let fid ← nat
    let style ← nat
    let crlf ← bool
    let nblocks ← nat
    let pad ← nat
    let a ← nat
    let b ← nat
    let pep ← list bytes
    let hdr ← list bytes
    let tpl ← list (list bytes)
    let tbl ← list (do let t ← bytes; let v ← opt nat; pure (t, v))
    let nums ← list nat
    pure (fid, style, crlf, nblocks, pad, a, b, pep, hdr, tpl, tbl, nums)) args
  let dec : List UInt8 → Option (List Char) := fun bs => (String.fromUTF8? (ByteArray.mk bs.toArray)).map (·.toList)
  let pep ← pepRaw.mapM dec
  let hdr ← hdrRaw.mapM dec
  let tpl ← tplRaw.mapM (·.mapM dec)
  let tbl ← tblRaw.mapM fun (t, v) => do
    let s ← String.fromUTF8? (ByteArray.mk t.toArray)
    pure (s, v.map fun b => Float32.ofBits b.toUInt32)
  -- the lines must be writable as they are (hypotheses of `classifyText_join` / `rustLines_join_crlf`)
  let clean : List Char → Bool := fun l => !l.contains '\n' && l.getLast? != some '\r'
  if !((pep ++ hdr ++ tpl.flatten).all clean) then none else
  let isNum : Char → Bool := fun c => c.isDigit || nums.contains c.toNat
  let pepA := pep.toArray
  let build (pf : String → Option Float32) (n : Nat) (padLen : Nat) : List (Line Float32) :=
    let cl : List Char → Line Float32 := fun l => classify pf isNum (trim l)
    let tplC : Array (List (Sum (Line Float32) (List Char))) :=
      (tpl.map fun t => t.map fun l => if isDynamic l then Sum.inr l else Sum.inl (cl l)).toArray
    let lBegin := cl "BEGIN IONS".toList
    let lEnd := cl "END IONS".toList
    let lBlank := cl []
    let block (i : Nat) (tail : List (Line Float32)) : List (Line Float32) :=
      let body : List (Line Float32) :=
        if tplC.size == 0 then [] else
          (tplC[((i * a + b) % 1000003) % tplC.size]!).map fun x =>
            match x with
            | .inl l => l
            | .inr raw => cl (substLine i pepA raw)
      lBegin :: (body ++ lEnd :: lBlank :: tail)
    let blocks := Nat.fold n (fun k _ acc => block (n - 1 - k) acc) []
    hdr.map cl ++ cl ('#' :: List.replicate padLen 'x') :: blocks
  -- guard: the token table covers every template line with every pepmass token
  let k := max pep.length 1
  let sampleOk :=
    (List.range (max tpl.length 1)).all fun t => (List.range k).all fun j =>
      let one (pf : String → Option Float32) : String :=
        let cl : List Char → Line Float32 := fun l => classify pf isNum (trim l)
        renderReply fid (parseLines (hdr.map cl ++ .beginIons :: ((tpl.getD t []).map fun l => cl (substLine j pepA l)) ++ [.endIons]))
      one (lookup tbl none) == one (lookup tbl (some (Float32.ofBits 0x3fc00000)))
  if !sampleOk then pure { model := "token-table-incomplete", agree := false, spec := "na" } else
  let doc := build (lookup tbl none) nblocks pad
  let modelRecs := (parseLines doc).map fun s => toRec (toI fid s)
  let wantRecs := (specSpectra doc).map fun s => toRec (toI fid s)
  let model := s!"file {bigReplyPart modelRecs true} direct {bigReplyPart modelRecs false}"
  let implS := " ".intercalate impl
  let verdict : String :=
    match impl with
    | "file" :: rest =>
      let filePart := rest.takeWhile (· != "direct")
      let directPart := (rest.dropWhile (· != "direct")).drop 1
      let directOk := directPart == ["ok", toString wantRecs.length, toString (totalDigest wantRecs)]
      (match filePart with
       | ["panic"] => "bad:panic"
       | "ok" :: r =>
         (match run (do let n ← nat; let _ ← nat; listN pRec n) r with
          | none => "na"
          | some got =>
            let v := cmpBig fid directOk 0 wantRecs got
            if v != "ok" then v
            else if directPart == ["panic"] then "bad:panic"
            else if !directOk then "bad:direct_parse_differs"
            else "ok")
       | _ => "bad:file_route_error_on_wellformed_document")
    | ["panic"] => "bad:panic"
    | _ => "bad:unexpected_reply_class"
  pure (exact model implS verdict)

def handle (op : String) (args impl : List String) : Option Reply :=
  match op with
  | "mgf" => some ((handleMgf args impl).getD badRequest)
  | "mgfraw" => some ((handleMgf args impl).getD badRequest)
  | "mgffile" => some ((handleFile args impl).getD badRequest)
  | "mgfbig" => some ((handleBig args impl).getD badRequest)
  | _ => none

end Sage.C17
