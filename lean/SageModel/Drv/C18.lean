import SageModel.Proto

/-! Driver ops for C18 (stub: no ops yet). -/
namespace Sage.C18
open Sage.Proto

def handle (op : String) (args impl : List String) : Option Reply :=
  match op with
  | _ => none

end Sage.C18
