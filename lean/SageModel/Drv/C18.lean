import SageModel.Proto
import SageModel.Generated.Consts
import SageModel.Model.Select
import SageModel.Model.C18
import SageModel.Model.C10

/-! Driver ops for C18.

```
tmt <plex> ppmLo ppmHi level [n spectrum…] | [n row…]          rows sorted as text on both sides; pools 1/2/16 (see handleTmt)
tmtpool [k threads…] <plex> ppmLo ppmHi level [n spectrum…] | k × [n row…]   one row set per rayon pool size
    plex     = t6 | t10 | t11 | t16 | t18 | u [n f32…]
    spectrum = level id(hex) file_id inj(f32) [n (0 | 1 ref(hex))…] [n (mass(f32) intensity(f32))…]
    row      = key(hex) file_id inj(f32) [n f32…]
selpeak <p|c|d> lo hi center (0 | 1 offset) [n (mass intensity)…] | 0 | 1 mass intensity
tmtconsts | 5 × [n f32…] PROTON (0 | 1 ppmLo ppmHi) (0 | 1 c1 c2 level (last|max))
tmtproc <plex> level rawLevel deisotope maxPeaks (0 | 1 charge) [n (mz intensity)…] | [n row…]
tmtrun <plex> level sn deisotope maxPeaks batch [nfiles [n rspec…]…] | [n row…]     (the real Runner::batch_files)
    rspec = level id(hex) inj [n (mz (0|1 charge) (0|1 ref(hex)))…] [n (mz int)…] [m noise…]
tmtguard <plex> level | (0 | 1 min_deisotope_mz) [n upper-edge…]
```

All comparisons are exact (`Proto.exact`): the model performs the same f32 operations in the same
order as the code; no transcendental function or parallel float reduction is involved.
-/
namespace Sage.C18
open Sage.Proto Sage.Select

def f32OfBits (b : Nat) : Float32 := Float32.ofBits b.toUInt32

def protonF : Float32 := f32OfBits Sage.Gen.PROTON_bits

def tablesF : Tables Float32 :=
  ⟨tablesBits.tmt6.map f32OfBits, tablesBits.tmt11.map f32OfBits, tablesBits.tmt18.map f32OfBits⟩

/-- plex with labels as bit patterns -/
def plexP : P (Plex Nat) := do
  let t ← tok
  match t with
  | "t6" => pure .tmt6
  | "t10" => pure .tmt10
  | "t11" => pure .tmt11
  | "t16" => pure .tmt16
  | "t18" => pure .tmt18
  | "u" => do
    let l ← list nat
    pure (.user l)
  | _ => failure

def spectrumP : P (Spectrum Nat) := do
  let level ← nat
  let id ← str
  let fileId ← nat
  let inj ← nat
  let precursors ← list (opt str)
  let peaks ← list (do let m ← nat; let i ← nat; pure (⟨m, i⟩ : Peak Nat))
  pure { level, id, fileId, injTime := inj, precursors, peaks }

def rowP : P (Row Nat) := do
  let key ← str
  let fileId ← nat
  let inj ← nat
  let peaks ← list nat
  pure { specId := key, fileId, injTime := inj, peaks }

def Spectrum.mapNum {α β} (f : α → β) (s : Spectrum α) : Spectrum β :=
  { level := s.level, id := s.id, fileId := s.fileId, injTime := f s.injTime, precursors := s.precursors,
    peaks := s.peaks.map fun p => ⟨f p.mass, f p.intensity⟩ }

def renderRow (r : Row Float32) : String :=
  " ".intercalate [hex (bytesOfStr r.specId), toString r.fileId, outF32 r.injTime, outList outF32 r.peaks]

def renderRows (rows : List (Row Float32)) : String :=
  let lines := (rows.map renderRow).mergeSort (fun a b => decide (a ≤ b))
  " ".intercalate (toString lines.length :: lines)

/-- all-or-nothing conversion of bit patterns to exact rationals -/
def ratsOf (l : List Nat) : Option (List Rat) := l.mapM ratOfF32Bits

def spectrumQ (s : Spectrum Nat) : Option (Spectrum Rat) := do
  let inj := (ratOfF32Bits s.injTime).getD 0   -- copied through; compared as bits below
  let peaks ← s.peaks.mapM fun p => do
    let m ← ratOfF32Bits p.mass
    let i ← ratOfF32Bits p.intensity
    if i < 0 then none else pure (⟨m, i⟩ : Peak Rat)
  pure { level := s.level, id := s.id, fileId := s.fileId, injTime := inj, precursors := s.precursors, peaks }

def rowQ (r : Row Nat) : Option (Row Rat) := do
  let peaks ← ratsOf r.peaks
  pure { specId := r.specId, fileId := r.fileId, injTime := (ratOfF32Bits r.injTime).getD 0, peaks }

def labelsBits (p : Plex Nat) : List Nat := reporterMasses tablesBits p

/-- the executable spec of `quantify` on one set of implementation rows (exact rationals, m/z space) -/
def tmtSpecOn (plex : Plex Nat) (lo hi level : Nat) (spectra : List (Spectrum Nat)) (irows : List (Row Nat)) : String :=
  let nExpected := if level == 1 then 0 else (spectra.filter (fun s => s.level == level)).length
  if irows.length != nExpected then "bad:row_count" else
  -- pass-through fields, compared as bit patterns: key, file id, injection time
  let keyOk (s : Spectrum Nat) (r : Row Nat) : Bool :=
    r.specId == (if level == 2 then s.id else firstRef s) && r.fileId == s.fileId && r.injTime == s.injTime
  let atLevel := if level == 1 then [] else spectra.filter (fun s => s.level == level)
  if !matchRows keyOk atLevel irows then "bad:row_key" else
  if irows.any (fun r => r.peaks.length != (labelsBits plex).length) then "bad:channel_count" else
  match ratsOf (labelsBits plex), ratOfF32Bits lo, ratOfF32Bits hi, spectra.mapM spectrumQ, irows.mapM rowQ with
  | some labelsQ, some loQ, some hiQ, some spectraQ, some rowsQ =>
    if specOk Sage.Gen.PROTON loQ hiQ (guardOf Sage.Gen.PROTON) spectraQ labelsQ level rowsQ then "ok"
    else "bad:channel_value"
  | _, _, _, _, _ => "na"   -- NaN/∞/negative intensities: outside the property's domain

/-- `tmt`: the harness runs `quantify` in rayon pools of 1, 2 and 16 threads; the reply is the pool-1 row set when
    all agree, `threaddep <threads> <rows>` (the first differing set) otherwise. The model has no notion of threads:
    every pool must give the definition's rows. -/
def handleTmt (args impl : List String) : Option Reply := do
  let (plex, lo, hi, level, spectra) ← run (do
    let p ← plexP; let lo ← nat; let hi ← nat; let lv ← nat; let s ← list spectrumP
    pure (p, lo, hi, lv, s)) args
  let labels := (labelsBits plex).map f32OfBits
  let rows := quantify protonF (spectra.map (Spectrum.mapNum f32OfBits)) labels
    (.ppm (f32OfBits lo) (f32OfBits hi)) level
  let model := renderRows rows
  let spec : String :=
    match impl with
    | "threaddep" :: _ :: rest =>
      -- some pool disagrees with pool 1: say which clause the differing set breaks, else that it depends on threads
      match run (list rowP) rest with
      | none => "bad:thread_dependent"
      | some irows =>
        let v := tmtSpecOn plex lo hi level spectra irows
        if v.startsWith "bad" then v else "bad:thread_dependent"
    | _ =>
      match run (list rowP) impl with
      | none => if impl == ["panic"] then "bad:panic" else "na"
      | some irows => tmtSpecOn plex lo hi level spectra irows
  pure (exact model (" ".intercalate impl) spec)

/-- all row sets of a `tmtpool` reply: `k` times `[n row…]` -/
def rowSetsP : Nat → P (List (List (Row Nat)))
  | 0 => pure []
  | k + 1 => do
    let x ← list rowP
    let xs ← rowSetsP k
    pure (x :: xs)

/-- `tmtpool [k threads…] <tmt arguments>`: `quantify` inside an explicit rayon pool of each listed size; the reply is
    one row set per pool. Spec: EVERY pool's rows are the definition's rows (first failing clause, e.g.
    `bad:channel_value` when a value leaks from another spectrum handled by the same rayon job); if every set passes
    on its own but two sets differ: `bad:thread_dependent`. -/
def handlePool (args impl : List String) : Option Reply := do
  let (pools, plex, lo, hi, level, spectra) ← run (do
    let ps ← list nat
    let p ← plexP; let lo ← nat; let hi ← nat; let lv ← nat; let s ← list spectrumP
    pure (ps, p, lo, hi, lv, s)) args
  let labels := (labelsBits plex).map f32OfBits
  let rows := quantify protonF (spectra.map (Spectrum.mapNum f32OfBits)) labels
    (.ppm (f32OfBits lo) (f32OfBits hi)) level
  let one := renderRows rows
  let model := " ".intercalate (pools.map fun _ => one)
  let spec : String :=
    match run (rowSetsP pools.length) impl with
    | none => if impl == ["panic"] then "bad:panic" else "na"
    | some sets =>
      let verdicts := sets.map (tmtSpecOn plex lo hi level spectra)
      match verdicts.find? (·.startsWith "bad") with
      | some v => v
      | none =>
        let rendered := sets.map fun rs => rs.map fun r => (r.specId, r.fileId, r.injTime, r.peaks)
        match rendered with
        | [] => "ok"
        | r0 :: rest => if rest.all (· == r0) then (if verdicts.all (· == "ok") then "ok" else "na") else "bad:thread_dependent"
  pure (exact model (" ".intercalate impl) spec)

def tolP : P (Tol Float32) := do
  let k ← tok
  let lo ← f32
  let hi ← f32
  match k with
  | "p" => pure (.ppm lo hi)
  | "c" => pure (.pct lo hi)
  | "d" => pure (.da lo hi)
  | _ => failure

instance : BEq Float32 := ⟨fun a b => a.toBits == b.toBits⟩

def handleSel (args impl : List String) : Option Reply := do
  let (tol, center, offset, peaks) ← run (do
    let t ← tolP; let c ← f32; let o ← opt f32
    let ps ← list (do let m ← f32; let i ← f32; pure (⟨m, i⟩ : Peak Float32))
    pure (t, c, o, ps)) args
  let r := select peaks center tol offset
  let model := match r with
    | none => "0"
    | some p => s!"1 {outF32 p.mass} {outF32 p.intensity}"
  let spec : String :=
    match run (opt (do let m ← f32; let i ← f32; pure (⟨m, i⟩ : Peak Float32))) impl with
    | none => if impl == ["panic"] then "bad:panic" else "na"
    | some ir =>
      -- NaN anywhere or a negative intensity: outside the property's domain (the model must still agree)
      if peaks.any (fun p => p.intensity.isNaN || p.mass.isNaN || p.intensity < 0) then "na" else
      let w := window center tol offset
      if selectOk peaks w.1 w.2 ir then "ok" else "bad:select_definition"
  pure (exact model (" ".intercalate impl) spec)

/-- the constants of runner.rs as the model states them (tied by `tmtconsts`) -/
def c1F : Float32 := Float32.ofNat 1
def c2F : Float32 := Float32.ofScientific 20 true 6
def ppmLoF : Float32 := (Float32.ofNat 20).neg
def ppmHiF : Float32 := Float32.ofNat 20

def handleConsts (args impl : List String) : Option Reply := do
  if !args.isEmpty then failure
  let plexes : List (Plex Nat) := [.tmt6, .tmt10, .tmt11, .tmt16, .tmt18]
  let tabs := " ".intercalate (plexes.map fun p => outList toString (labelsBits p))
  -- the constants of runner.rs the theorems are stated for: Ppm(-20, 20); 1.0 + 20E-6; level 2
  let model := s!"{tabs} {Sage.Gen.PROTON_bits} 1 {outF32 ppmLoF} {outF32 ppmHiF} 1 {outF32 c1F} {outF32 c2F} 2 max"
  let r := exact model (" ".intercalate impl)
  -- the rational constant of the theorems is the f32 value of `1.0 + 20E-6`
  let factorOk := ratOfF32Bits (c1F + c2F).toBits.toNat == some guardFactorQ
  -- and the tables of tmt.rs are the published reporter masses (independent reference)
  let refOk := tablesMatchReference tablesQ
  pure { r with spec := if r.agree && factorOk && refOk then "ok" else "bad:constants" }

def handleGuard (args impl : List String) : Option Reply := do
  let (plex, level) ← run (do let p ← plexP; let lv ← nat; pure (p, lv)) args
  let labels := (labelsBits plex).map f32OfBits
  let m := minDeisotopeMz labels level (c1F + c2F)
  let edges := labels.map fun l => ((Tol.ppm ppmLoF ppmHiF).bounds l).2
  let model := outOpt outF32 m ++ " " ++ outList outF32 edges
  let spec : String :=
    if level != 2 then "na" else
    match run (do let m ← opt nat; let e ← list nat; pure (m, e)) impl with
    | none => if impl == ["panic"] then "bad:panic" else "na"
    | some (im, _) =>
      match ratsOf (labelsBits plex) with
      | none => "na"
      | some labelsQ =>
        if labelsQ.isEmpty then "na" else
        if !labelsQ.any (fun l => decide (0 < l)) then "na" else   -- the theorem needs a positive mass
        match im with
        | none => "bad:no_min_deisotope_mz"
        | some mb =>
          match ratOfF32Bits mb with
          | none => "na"
          | some mq =>
            -- exact definition of the upper edges vs. the implementation's float, slack = the guard band
            if protectedOk 20 labelsQ (some mq) (guardOf 0) then "ok" else "bad:reporter_region_unprotected"
  pure (exact model (" ".intercalate impl) spec)

/-- adjacent-pair check of an m/z array (the deisotoper presupposes ascending m/z) -/
def ascendingF : List Float32 → Bool
  | a :: b :: rest => decide (a ≤ b) && ascendingF (b :: rest)
  | _ => true

/-- `tmtproc`: the runner's pipeline on one raw spectrum.
    Model = `minDeisotopeMz` (this file's tie of the runner expression) → C10's model of
    `SpectrumProcessor::process` → `quantify`, all at `Float32`, compared exactly.
    Spec (on the implementation's reply, exact rationals, m/z space, RAW peaks): a row exists iff the raw
    spectrum's level is the quantification level (≠ 1); every channel value is the maximum raw intensity in
    the channel's ±20 ppm window, 0 if none — i.e. neither deisotoping nor the rest of the preprocessing
    changed a reporter value (`bad:reporter_changed_by_deisotoping`). `na` when `maxPeaks` is smaller than the
    number of raw peaks (a reporter peak may legitimately fall to the top-N cut). -/
def handleProc (args impl : List String) : Option Reply := do
  let (plex, level, rawLevel, deiso, maxPeaks, charge, peaks) ← run (do
    let p ← plexP; let lv ← nat; let rl ← nat; let d ← bool; let k ← nat; let z ← opt nat
    let ps ← list (do let m ← nat; let i ← nat; pure (m, i))
    pure (p, lv, rl, d, k, z, ps)) args
  let labels := (labelsBits plex).map f32OfBits
  let minMz : Float32 := (minDeisotopeMz labels level (c1F + c2F)).getD (Float32.ofNat 0)
  let cfg : Sage.C10.Cfg Float32 := { takeTopN := maxPeaks, deisotope := deiso, minDeisoMz := minMz }
  let raw : Sage.C10.Raw Float32 :=
    { level := rawLevel, centroid := true, charge := charge,
      peaks := peaks.map fun (m, i) => (f32OfBits m, f32OfBits i) }
  let model : String :=
    match Sage.C10.process cfg raw with
    | none => "panic"
    | some (ps, _) =>
      let s : Spectrum Float32 :=
        { level := rawLevel, id := "s", fileId := 0, injTime := Float32.ofNat 0, precursors := [some "p"],
          peaks := ps.map fun p => ⟨p.mass, p.intensity⟩ }
      renderRows (quantify protonF [s] labels (.ppm ppmLoF ppmHiF) level)
  let spec : String :=
    match run (list rowP) impl with
    | none => if impl == ["panic"] then "bad:panic" else "na"
    | some irows =>
      let expectRow := level != 1 && rawLevel == level
      if irows.length != (if expectRow then 1 else 0) then "bad:row_count" else
      if !expectRow then "ok" else
      if irows.any (fun r => r.specId != (if level == 2 then "s" else "p") || r.fileId != 0) then "bad:row_key" else
      if irows.any (fun r => r.peaks.length != (labelsBits plex).length) then "bad:channel_count" else
      if maxPeaks < peaks.length then "na" else
      -- the raw list is used AS GIVEN (any order, duplicates): the definition is order-independent. Only where the
      -- deisotoper runs (MS2, deisotoping on) is an ascending m/z array presupposed
      if rawLevel == 2 && deiso && !ascendingF (peaks.map fun (m, _) => f32OfBits m) then "na" else
      let rawQ : Option (List (Peak Rat)) := peaks.mapM fun (m, i) => do
        let mq ← ratOfF32Bits m
        let iq ← ratOfF32Bits i
        if iq < 0 then none else pure (⟨mq - Sage.Gen.PROTON, iq⟩ : Peak Rat)   -- so that mass + PROTON = raw m/z exactly
      match ratsOf (labelsBits plex), rawQ, irows.mapM rowQ with
      | some labelsQ, some rawQ, some rowsQ =>
        if rowsQ.all (fun r => channelsOk Sage.Gen.PROTON (-20) 20 (guardOf Sage.Gen.PROTON) rawQ labelsQ r.peaks)
        then "ok"
        else if rawLevel == 2 && deiso then "bad:reporter_changed_by_deisotoping"
        else "bad:reporter_ne_raw_max"   -- the deisotoper did not even run (MS3, or deisotoping off): conversion / sort / top-N
      | _, _, _ => "na"
  pure (exact model (" ".intercalate impl) spec)

def rprecP : P (RawPrec Nat) := do
  let mz ← nat
  let z ← opt nat
  let r ← opt str
  pure { mz, charge := z, sref := r }

def rspecP : P (RawSpec Nat) := do
  let level ← nat
  let id ← str
  let inj ← nat
  let precs ← list rprecP
  let peaks ← list (do let m ← nat; let i ← nat; pure (m, i))
  let noise ← list nat
  pure { level, id, inj, precs, peaks, noise }

def RawSpec.toF (s : RawSpec Nat) : RawSpec Float32 :=
  { level := s.level, id := s.id, inj := f32OfBits s.inj,
    precs := s.precs.map fun p => { mz := f32OfBits p.mz, charge := p.charge, sref := p.sref },
    peaks := s.peaks.map fun (m, i) => (f32OfBits m, f32OfBits i), noise := s.noise.map f32OfBits }

/-- `tmtrun`: the REAL runner (`Runner::batch_files` over mzML files written by the harness).
    Model = `runnerQuant` at `Float32` (S/N division, precursor filter, C10's `process`, `quantify`), compared exactly.
    Spec on the implementation's rows, from the REQUEST alone (no processing model involved):
    * one row per spectrum whose ms level equals the quantification level (none when that level is 1; spectra of
      other levels — MS1, MS2 when quantifying at MS3, MS3 when quantifying at MS2 — give no row, wherever they
      stand in the file);
    * key = the spectrum's own id at level 2, else the `spectrumRef` of its first `<precursor>` with a non-zero
      selected-ion m/z — copied verbatim (XML-unescaped; no look-up of the referenced scan: it may come later
      in the file, be absent, or be shared by several MS3 scans) — and the empty string when there is no such
      precursor or it has no `spectrumRef` (as coded); file id = position of the file; injection time copied;
    * every channel value = the maximum raw intensity (divided by the noise value, in f32, when S/N is on and the
      spectrum carries a noise array) over the raw peaks within ±20 ppm of the channel m/z, 0 if none
      (exact rationals; guard band as in `tmt`); `na` if some spectrum at the level has more peaks than `maxPeaks`. -/
def handleRun (args impl : List String) : Option Reply := do
  let (plex, level, sn, deiso, maxPeaks, _batch, files) ← run (do
    let p ← plexP; let lv ← nat; let sn ← bool; let d ← bool; let k ← nat; let b ← nat
    let fs ← list (list rspecP)
    pure (p, lv, sn, d, k, b, fs)) args
  let labels := (labelsBits plex).map f32OfBits
  let filesF := files.map (·.map RawSpec.toF)
  let model : String :=
    match runnerQuant protonF labels (.ppm ppmLoF ppmHiF) (c1F + c2F) level sn deiso maxPeaks filesF with
    | none => "panic"
    | some rows => renderRows rows
  let spec : String :=
    if impl.head? == some "threaddep" then "bad:thread_dependent" else   -- pools of 1 and 3 threads disagree
    match run (list rowP) impl with
    | none => if impl == ["panic"] then "bad:panic" else "na"
    | some irows =>
      -- what the reader hands on (S/N division is one correctly rounded f32 operation per peak: applied here)
      let snOpt : Option Nat := if sn then some level else none
      let atLevel : List (Nat × RawSpec Float32) :=
        if level == 1 then [] else
        (indexed 0 filesF).flatMap fun (fi, f) => ((f.map (readSpec snOpt)).filter (fun s => s.level == level)).map (fi, ·)
      if irows.length != atLevel.length then "bad:row_count" else
      let keyOf (s : RawSpec Float32) : String :=
        if level == 2 then s.id else
        match s.precs with
        | [] => ""
        | p :: _ => p.sref.getD ""
      let keyOk (x : Nat × RawSpec Float32) (r : Row Nat) : Bool :=
        r.specId == keyOf x.2 && r.fileId == x.1 && r.injTime == x.2.inj.toBits.toNat
      if !matchRows keyOk atLevel irows then "bad:row_key" else
      if irows.any (fun r => r.peaks.length != (labelsBits plex).length) then "bad:channel_count" else
      if atLevel.any (fun x => x.2.peaks.length > maxPeaks) then "na" else
      -- raw lists are used AS GIVEN (any order); ascending m/z is presupposed only where the deisotoper runs
      if level == 2 && deiso && atLevel.any (fun x => !ascendingF (x.2.peaks.map (·.1))) then "na" else
      let specQ (x : Nat × RawSpec Float32) : Option (Spectrum Rat) := do
        let peaks ← x.2.peaks.mapM fun (m, i) => do
          let mq ← ratOfF32Bits m.toBits.toNat
          let iq ← ratOfF32Bits i.toBits.toNat
          if iq < 0 then none else pure (⟨mq - Sage.Gen.PROTON, iq⟩ : Peak Rat)
        pure { level := level, id := keyOf x.2, fileId := x.1, injTime := (ratOfF32Bits x.2.inj.toBits.toNat).getD 0,
               precursors := [some (keyOf x.2)], peaks }
      match ratsOf (labelsBits plex), atLevel.mapM specQ, irows.mapM rowQ with
      | some labelsQ, some spectraQ, some rowsQ =>
        if matchRows (rowOk Sage.Gen.PROTON (-20) 20 (guardOf Sage.Gen.PROTON) labelsQ level) spectraQ rowsQ
        then "ok" else "bad:reporter_ne_raw_max"
      | _, _, _ => "na"
  pure (exact model (" ".intercalate impl) spec)

def handle (op : String) (args impl : List String) : Option Reply :=
  match op with
  | "tmt" => handleTmt args impl
  | "selpeak" => handleSel args impl
  | "tmtconsts" => handleConsts args impl
  | "tmtguard" => handleGuard args impl
  | "tmtproc" => handleProc args impl
  | "tmtpool" => handlePool args impl
  | "tmtrun" => handleRun args impl
  | _ => none

end Sage.C18
