import SageModel.Proto
import SageModel.Model.C14

/-! Driver ops for C14.

`kde [n (u64 score, decoy)…] bins u64(bw factor) mono [m u64 sweep…] | [m u64 pep…]`

The model runs at `Float` (IEEE f64, native `exp`/`pow`/`sqrt`, SEQUENTIAL kernel sum).

**agree** — the implementation's value at every sweep point is compared with the model's within
`(K·2⁻⁵² + tailAmp)·max(|lower|,|upper|)` (the two model bins the point interpolates between), `K = 4·n + 32`,
`tailAmp = 746·16·2⁻⁵³` (Gaussian-tail amplification of a last-bit difference in `pow`/the bandwidth, see `tailAmp`),
plus an absolute `1e-290` for the subnormal range. Why a bound and not equality (since /repo 2c91348 `Kde::pdf` sums
sequentially like the model; the bound is kept because `exp`/`pow` may still differ, and it covers the
older code): `Kde::pdf` summed
`n` kernel values in a rayon tree whose shape depends on the pool (each re-association changes
the sum by ≤ (n−1) half-ulps, relative, all terms being ≥ 0), and `exp`/`pow` come from the
system libm on the Rust side and from Lean's bundled glibc here (≤ 1 ulp each). The Bayes ratio
`d/(t+d)` of positive quantities at most doubles the relative error; the envelope (`max`) and the
interpolation (a convex combination, evaluated with absolute rounding error ~ ulp of the larger
bin) do not amplify it relative to the larger of the two bins.

**spec** — evaluated on the IMPLEMENTATION's numbers (the reply starts with its values at its
own grid points):
* `nan`/`range`  every value is a number in `[0,1]` (EXACT comparison, no allowance);
* `negative_pep_rounding` no value is below 0, however slightly (its `log10`, what `score_psms`
                 reports, would be NaN) — the defect repaired in /repo 09cd064 (weight clamped);
* `grid_antitone` (monotonic mode) grid values never increase with the bin index;
* `grid_bayes`   grid value `i` = running maximum from the top of the textbook Bayes ratio of
                 Gaussian KDEs (`specDensity`, `specBandwidth`, `specBayes`, `specEnvelope`)
                 recomputed here, within the bound above (including `tailAmp`: the textbook formula's
                 bandwidth may differ from the code's by an ulp, amplified by `z²` in the tails);
* `interp`       every other sweep point: the value equals the linear interpolation between the
                 implementation's own two neighbouring grid values (hence lies between them);
* `sweep_antitone` (monotonic mode) along the sorted sweep the value never increases.
`grid_antitone`, `grid_bayes`, `interp`, `sweep_antitone` use a stated rounding allowance (not a tuned tolerance):
`16·2⁻⁵³·M + D·16·2⁻⁵³·(|s|+|min|+|max|)/step` with `M` the largest neighbouring grid value (the larger of
the implementation's and the recomputed one) and `D` the sum of the jumps of the three bins around the point — the second term is the conditioning of
the interpolation weight `(s − (i·step + min))/step` when `|min| ≫ step`.

Inputs outside the property's precondition are flagged with their own clause when (and only
when) the implementation's output breaks the spec: a class with fewer than two distinct scores
(`bad:nan_zero_variance_class`), and — with the envelope off — a grid point farther than 30
bandwidths from every sample (`bad:nan_density_underflow`).
-/
namespace Sage.C14
open Sage.Proto

def floatFns : Fns Float :=
  { exp := Float.exp, sqrt := Float.sqrt, powf := Float.pow,
    pi := Float.ofBits 0x400921FB54442D18 }   -- std::f64::consts::PI

structure Req where
  scores : List Float
  decoys : List Bool
  nbins : Nat
  adj : Float
  mono : Bool
  sweep : Array Float

def parseReq : P Req := do
  let pairs ← list (do let s ← f64; let d ← bool; pure (s, d))
  let nbins ← nat
  let adj ← f64
  let mono ← bool
  let sweep ← list f64
  pure { scores := pairs.map (·.1), decoys := pairs.map (·.2), nbins, adj, mono, sweep := sweep.toArray }

def u : Float := Float.ofBits 0x3CA0000000000000   -- 2⁻⁵³

/-- Gaussian-tail amplification, part of every comparison of a Bayes ratio with a RECOMPUTED one.
    A kernel value is `exp(a)`, `a = -((x-xi)/h)²/2`; a relative perturbation `ε` of `a` changes it by the
    relative amount `|a|·ε`, and `exp` returns 0 below `a ≈ -745.13`, so for every non-zero kernel value
    `|a| ≤ 746`. Between two algebraically equal ways of writing the density `ε` is a few `2⁻⁵³`: the three
    roundings of `a`, and — squared, hence doubled — the one or two ulps by which the bandwidths differ
    (the textbook `4/(3n)` against the code's `(4/3)/n`; `pow` of two libms). With numerator and
    denominator of the ratio both affected: `746·16·2⁻⁵³ ≈ 1.3e-12` relative. (False alarm of 2026-10:
    seed 123, a `kdepool` case, non-monotonic, grid point 32 bandwidths below the decoys: the two
    bandwidths differed by one ulp, the ratios by 4.5e-13 relative, the old allowance was 8.1e-14.) -/
def tailAmp : Float := 746 * 16 * u

/-- number of distinct bit patterns, capped at 2 (all callers ask `< 2` / `≥ 2`); linear time -/
def distinctCount (l : List Float) : Nat :=
  match l with
  | [] => 0
  | x :: xs => if xs.all (fun y => y.toBits == x.toBits) then 1 else 2

def absF (x : Float) : Float := x.abs

/-- get with default 0 -/
def at0 (a : Array Float) (i : Nat) : Float := a.getD i 0

/-- the spec-side grid: textbook formulas, naive running maximum for small grids -/
def specGrid (r : Req) (minS step : Float) : Array Float :=
  let F := floatFns
  let d := classOf true r.scores r.decoys
  let t := classOf false r.scores r.decoys
  let π : Float := ofNat d.length / ofNat r.scores.length
  let hd := specBandwidth F d r.adj
  let ht := specBandwidth F t r.adj
  let raw := (List.range r.nbins).map fun i =>
    let x := minS + ofNat i * step
    specBayes π (specDensity F d hd x) (specDensity F t ht x)
  if !r.mono then raw.toArray
  else if r.nbins ≤ 128 then (specEnvelope raw).toArray
  else
    -- beyond 128 bins the O(n²) definition is replaced by its proven equal (`envelope_spec`)
    match envelope raw with
    | some e => e.toArray
    | none => #[]

/-- is some sample of some class within 30 bandwidths of every grid point? -/
def denseOk (r : Req) (grid : Array Float) : Bool :=
  let F := floatFns
  let d := classOf true r.scores r.decoys
  let t := classOf false r.scores r.decoys
  let hd := specBandwidth F d r.adj
  let ht := specBandwidth F t r.adj
  grid.all fun g =>
    d.any (fun x => absF (x - g) ≤ 30 * hd) || t.any (fun x => absF (x - g) ≤ 30 * ht)

def fmtIdx (s : String) (i : Nat) : String := s ++ "@" ++ toString i

/-- structural spec on the implementation's values `v` (one per sweep point; the first `nbins`
    sweep points are the grid points). Returns `none` when everything holds. -/
def specCheck (r : Req) (minS maxS step : Float) (v : Array Float) : Option String := Id.run do
  let n := r.nbins
  let G := v.extract 0 n
  -- the textbook grid recomputed here (independent of the implementation's reply)
  let S := specGrid r minS step
  if S.size != n then return some "grid_bayes_size"
  -- magnitudes for the rounding allowance: the implementation's swept grid value AND the recomputed one.
  -- (At a grid point where the code's own `floor` lands one bin low, the swept value is
  -- `lower + (upper-lower)·1`, whose absolute error is an ulp of `lower`; when the PEP drops by more than
  -- 2^53 per bin that is all of `upper`, so the swept value alone would understate the magnitude.)
  let mag (i : Nat) : Float := let a := absF (at0 G i); let b := absF (at0 S i); if a < b then b else a
  let jump (i : Nat) : Float :=
    let a := absF (at0 G (i+1) - at0 G i); let b := absF (at0 S (i+1) - at0 S i); if a < b then b else a
  let tolAt (j : Nat) (s : Float) : Float :=
    let M := [mag (j-1), mag j, mag (j+1), mag (j+2)].foldl (fun a b => if a < b then b else a) 0
    let D := (if j ≥ 1 then jump (j-1) else 0) + jump j + (if j + 2 < n then jump (j+1) else 0)
    16 * u * M + D * (16 * u * (absF s + absF minS + absF maxS) / step)
  let binOf (s : Float) : Nat :=
    let j0 := Nat.min (n - 1) (floorNat ((s - minS) / step))
    if j0 + 1 < n then j0 else n - 2
  -- range: a number in [0,1], exact comparison (since the interpolation weight is clamped to [0,1],
  -- monotone IEEE rounding keeps `lower + (upper-lower)·w` inside [0,1] for bins in [0,1]); a negative
  -- value gets its own clause: its log10, which is what `score_psms` reports, is NaN
  for k in [0:v.size] do
    let x := at0 v k
    if x.isNaN then return some (fmtIdx "nan" k)
    if x < 0 then return some (fmtIdx "negative_pep_rounding" k)
    if !(x ≤ 1) then return some (fmtIdx "range" k)
  let cond := 16 * u * (absF minS + absF maxS) / step
  if r.mono then
    for i in [0:n-1] do
      if !(at0 G (i+1) ≤ at0 G i + tolAt i maxS) then return some (fmtIdx "grid_antitone" i)
  -- grid values are the running maximum of the textbook Bayes ratio
  let K : Float := ofNat (4 * r.scores.length + 32)
  for i in [0:n] do
    let m := [at0 S (i-1), at0 S i].foldl (fun a b => if a < absF b then absF b else a) 0
    let tol := (K * 2 * u + tailAmp + cond) * m + 1e-290
    if !(absF (at0 G i - at0 S i) ≤ tol) then return some (fmtIdx "grid_bayes" i)
  -- interpolation between the implementation's own grid values
  for k in [n:v.size] do
    let s := at0 r.sweep k
    let j := binOf s
    let gj := ofNat j * step + minS
    -- inside the range the value is the linear interpolation; outside it is the end grid value
    -- (weight clamped to [0,1]: `interp_range_all`)
    let t0 := (s - gj) / step
    let t := if t0 < 0 then 0 else if t0 > 1 then 1 else t0
    let lo := at0 G j
    let hi := at0 G (j+1)
    let P := lo + (hi - lo) * t
    let tol := tolAt j (if s < minS then minS else if s > maxS then maxS else s)
    let x := at0 v k
    if !(absF (x - P) ≤ tol) then return some (fmtIdx "interp" k)
    let mn := if lo ≤ hi then lo else hi
    let mx := if lo ≤ hi then hi else lo
    if !(mn - tol ≤ x && x ≤ mx + tol) then return some (fmtIdx "between" k)
  -- antitone along the sorted sweep
  if r.mono then
    let idx := (Array.range v.size).qsort (fun a b => at0 r.sweep a < at0 r.sweep b)
    for q in [0:idx.size - 1] do
      let a := idx.getD q 0
      let b := idx.getD (q+1) 0
      let s := at0 r.sweep a
      let j0 := Nat.min (n - 1) (floorNat ((s - minS) / step))
      let sc := if s < minS then minS else if s > maxS then maxS else s
      if !(at0 v b ≤ at0 v a + tolAt j0 sc) then return some (fmtIdx "sweep_antitone" b)
  return none

def handleKde (args impl : List String) : Option Reply := do
  let r ← run parseReq args
  let F := floatFns
  let est := build F r.scores r.decoys r.nbins r.adj r.mono
  let modelVals : Option (Array Float) := do
    let e ← est
    r.sweep.mapM (fun s => posteriorError e s)
  let model : String :=
    match modelVals with
    | some vs => outList outF64 vs.toList
    | none => "panic"
  let implVals : Option (Array Float) := (run (list f64) impl).map (·.toArray)
  -- agreement within the stated bound
  let agree : Bool :=
    match modelVals, implVals, est with
    | some mv, some iv, some e =>
      let K : Float := ofNat (4 * r.scores.length + 32)
      let bins := e.bins.toArray
      mv.size == iv.size &&
      (List.range mv.size).all fun k =>
        let a := at0 mv k
        let b := at0 iv k
        if a.isNaN || b.isNaN then a.isNaN && b.isNaN else
        let lo := binLo e (at0 r.sweep k)
        let hi := binHi e lo
        let L := absF (at0 bins lo)
        let U := absF (at0 bins hi)
        let m := if L < U then U else L
        absF (a - b) ≤ (K * 2 * u + tailAmp) * m + 1e-290
    | none, _, _ => impl == ["panic"]
    | _, _, _ => false
  -- spec on the implementation's reply
  let d := classOf true r.scores r.decoys
  let t := classOf false r.scores r.decoys
  let spec : String :=
    match implVals with
    | none => if impl == ["panic"] then (if r.nbins == 0 || r.scores.isEmpty then "na" else "bad:panic") else "na"
    | some iv =>
      if iv.size != r.sweep.size then "bad:length" else
      match foldExt fmin r.scores, foldExt fmax r.scores with
      | some minS, some maxS =>
        if r.nbins < 2 || d.isEmpty || t.isEmpty then "na" else
        let step := (maxS - minS) / ofNat (r.nbins - 1)
        let grid := (Array.range r.nbins).map fun i => ofNat i * step + minS
        -- the structural clauses need the implementation's grid: the first `bins` sweep points
        let gridGiven := r.sweep.size ≥ r.nbins &&
          (List.range r.nbins).all fun i => (at0 r.sweep i).toBits == (at0 grid i).toBits
        let degenerate := distinctCount d < 2 || distinctCount t < 2
        -- outside the precondition: a non-finite score (a degenerate discriminant)
        if r.scores.any (fun x => x.isNaN || x.isInf) then "na" else
        if !gridGiven then
          -- only the range clause can be evaluated (on the finite query points)
          let fin := (List.range iv.size).filter fun k => let q := at0 r.sweep k; !(q.isNaN || q.isInf)
          if fin.all (fun k => 0 ≤ at0 iv k && at0 iv k ≤ 1) then "na"
          else if degenerate && iv.any (·.isNaN) then "bad:nan_zero_variance_class"
          else "bad:range"
        else
          -- non-finite QUERY points are outside the statement (NaN in, NaN out): dropped before the check;
          -- finite query points outside [min,max] stay in: the value there must be the end grid value
          let keep := (List.range iv.size).filter fun k =>
            k < r.nbins || !((at0 r.sweep k).isNaN || (at0 r.sweep k).isInf)
          let r' : Req := { r with sweep := (keep.map (at0 r.sweep)).toArray }
          let iv' : Array Float := (keep.map (at0 iv)).toArray
          match specCheck r' minS maxS step iv' with
          | none => "ok"
          | some clause =>
            if degenerate then
              (if iv.any (·.isNaN) then "bad:nan_zero_variance_class" else "bad:zero_variance_class:" ++ clause)
            else if !r.mono && !denseOk r grid && iv.any (·.isNaN) then "bad:nan_density_underflow"
            else "bad:" ++ clause
      | _, _ => "na"
  pure { model, agree, spec }

/-! ### `psmpep`: the value `score_psms` reports

`psmpep kind u32 u32 [n features…] | fit [n (decoy u32 discriminant u32 posterior_error)…]`

The driver does not redo the LDA (C15). From the IMPLEMENTATION's own discriminant scores and labels
it rebuilds the default estimator (`Builder::default()`: 1000 bins, monotonic, bandwidth factor 1) with
the Float model, evaluates `posterior_error`, and expects `reported`: `log10(pep) as f32`, `-324.0` when
that is infinite (order in the code: `posterior_error(score).log10() as f32`, then the `is_infinite` test).

Why an interval and not equality: `Feature::discriminant_score` is the `f32` rounding of the `f64` score
the code used, for the PSM itself and for every sample the KDE was fitted to. With
`δ = 2⁻²³·max|score|` (two f32 half-ulps of the largest score: one for the evaluation point, one for the
samples / grid origin) the PEP being antitone gives `P(s+δ) ≤ pep ≤ P(s−δ)`; the bandwidths move by a
relative `≤ 2⁻²⁴`, which changes a kernel value `exp(-z²/2)` by the factor `exp(z²·2⁻²⁴)`, `|z| ≤ 39` before
`exp` underflows, i.e. `log10` by `≤ 39²·2⁻²³/ln 10 ≈ 7.9e-5`; the existing f64 allowance of op `kde`
(relative `(4n+32)·2⁻⁵²`) moves `log10` by `r/ln 10 < 1e-11`, and the f32 cast by half an f32 ulp. Allowed:
`log10 P(s+δ) − a ≤ reported ≤ log10 P(s−δ) + a`, `a = 8e-5 + 4·2⁻²³·|log10 P|` (4 f32 ulps). Where the
model PEP is below `1e-290` (kernel values about to underflow, relative accuracy lost) the `-324` floor is
accepted as well and the upper bound is widened by 1. The floor itself is accepted only when `P(s+δ) = 0`
(or `< 1e-290`). A class with fewer than two distinct reported scores is outside the precondition (`na`).
A fit that failed must leave `discriminant_score = 0.0`, `posterior_error = 1.0`
(the values `Scorer` initialises; `score_psms` returns `None` before touching them).
-/

structure PsmRow where
  decoy : Bool
  disc : Float32
  pep : Float32

def parsePsmReply : P (Bool × List PsmRow) := do
  let fit ← bool
  let rows ← list (do let d ← bool; let s ← f32; let p ← f32; pure ({ decoy := d, disc := s, pep := p } : PsmRow))
  pure (fit, rows)

/-- `log10(pep) as f32` with the `-324` floor, on the f64 value (the order `score_psms` uses) -/
def reportedF (pep : Float) : Float32 :=
  reported Float.log10 Float.toFloat32 (fun r => r.isInf) (-324.0 : Float32) pep

def handlePsm (args impl : List String) : Option Reply := do
  let n ← (args[3]?).bind String.toNat?
  if impl == ["panic"] then
    return { model := "-", agree := false, spec := "bad:panic" }
  let (fit, rows) ← run parsePsmReply impl
  if rows.length != n then
    return { model := "-", agree := false, spec := "bad:length" }
  let rowsA := rows.toArray
  if !fit then
    -- `score_psms` returned None: it must not have touched the two fields
    let bad := (List.range n).filter fun k =>
      match rowsA[k]? with
      | some r => r.disc.toBits != 0 || r.pep.toBits != (1.0 : Float32).toBits
      | none => true
    let verdict := match bad with | [] => "ok" | k :: _ => fmtIdx "bad:unfit_modified" k
    return { model := "0 -", agree := bad.isEmpty, spec := verdict }
  let scores := rows.map (·.disc.toFloat)
  let decoys := rows.map (·.decoy)
  -- outside the precondition (and beyond what the f32 scores can tell): a class whose reported
  -- discriminant scores are all equal in f32 — the f64 scores the code used may still differ in their last
  -- bits (bandwidth ~1e-17, spiky but finite densities) or be equal (the zero-variance finding of op `kde`)
  if distinctCount (classOf true scores decoys) < 2 || distinctCount (classOf false scores decoys) < 2 then
    return { model := "-", agree := true, spec := "na" }
  match buildDefault floatFns scores decoys with
  | none => return { model := "-", agree := false, spec := "na" }
  | some e =>
    let smax := scores.foldl (fun a b => if a < absF b then absF b else a) 0
    let δ := smax * (Float.ofBits 0x3E80000000000000)   -- 2⁻²³
    let pe (s : Float) : Float := (posteriorError e s).getD (0/0)
    let ulp4 : Float := 4 * Float.ofBits 0x3E80000000000000
    let check (k : Nat) (r : PsmRow) : Option String :=
      let s := r.disc.toFloat
      let x := r.pep.toFloat
      if x.isNaN || x.isInf then some (fmtIdx "bad:reported_pep_nonfinite" k) else
      let pLo := pe (s + δ)
      let pHi := pe (s - δ)
      let pC := pe s
      if pLo.isNaN || pHi.isNaN || pC.isNaN then some (fmtIdx "bad:reported_pep_model_nan" k) else
      let pLo := if pC < pLo then pC else pLo
      let pHi := if pHi < pC then pC else pHi
      let fringe := pLo < 1e-290
      if x == -324.0 then
        (if pLo == 0 || fringe then none else some (fmtIdx "bad:reported_pep_not_log10" k))
      else
        let lLo := Float.log10 pLo
        let lHi := Float.log10 pHi
        let lo := lLo - (8e-5 + ulp4 * absF lLo)
        let hi := lHi + (8e-5 + ulp4 * absF lHi) + (if pHi < 1e-290 then 1 else 0)
        if (pLo == 0 || lo ≤ x) && x ≤ hi then none else some (fmtIdx "bad:reported_pep_not_log10" k)
    let verdicts := (List.range n).filterMap fun k => (rowsA[k]?).bind (check k)
    let model := "1 " ++ outList (fun (r : PsmRow) => outF32 (reportedF (pe r.disc.toFloat))) rows
    let verdict := match verdicts with | [] => "ok" | v :: _ => v
    -- the model's own value lies inside the interval by construction, so agreement = the interval test
    return { model, agree := verdicts.isEmpty, spec := verdict }

/-! ### `kdeseq`, `kdepool`, `psmpepseq`: no hidden state

`kdeseq [M model…] [S step…] | [Q u64 pep…]` — builds and queries of SEVERAL estimators back to back on one
thread. The model is a pure function (`posteriorError_history_free`), so every answer is compared with
`posteriorError (estimator i) score` (same bound as op `kde`) whatever came before. Spec on the
implementation's answers: (1) the same (sample, settings, score) always gets the bit-identical answer, however
often the estimator is rebuilt or whatever was asked in between; (2) every answer equals THAT estimator's
definition — the textbook grid recomputed here, interpolated with the clamped weight — within the rounding
allowance of op `kde`. A failure of (1), or a failure of (2) by an answer that is another estimator's value
for that score or the previous answer, is `bad:depends_on_previous_estimator@k`; any other failure of (2) is
`bad:answer_ne_definition@k`.

`kdepool <kde request> | 5 ([m u64…])` — the same estimator built and swept in rayon pools of 1, 2, 3, 4, 8
threads: the five replies must be bit-identical (`bad:depends_on_pool_size@p`), and the first is checked like `kde`.

`psmpepseq K (psmpep request)… | K (psmpep reply)…` — `score_psms` called K times in one single-threaded
pool: every reply is checked like `psmpep`; identical PSM tables must give bit-identical replies
(`bad:depends_on_previous_call@k`).
-/

structure SeqModel where
  req : Req
  key : Nat                 -- index of the first model with the same sample and settings
  est : Option (Estimator Float)
  minS : Float
  maxS : Float
  step : Float
  S : Array Float           -- the textbook grid

def parseModel : P (List String → Req) := do
  let pairs ← list (do let s ← f64; let d ← bool; pure (s, d))
  let nbins ← nat
  let adj ← f64
  let mono ← bool
  pure fun _ => { scores := pairs.map (·.1), decoys := pairs.map (·.2), nbins, adj, mono, sweep := #[] }

def sameReq (a b : Req) : Bool :=
  a.scores.map (·.toBits) == b.scores.map (·.toBits) && a.decoys == b.decoys && a.nbins == b.nbins &&
  a.adj.toBits == b.adj.toBits && a.mono == b.mono

/-- the definition's value at `s` (textbook grid `S`, clamped linear interpolation) and its rounding allowance -/
def specValue (m : SeqModel) (s : Float) : Float × Float :=
  let n := m.req.nbins
  let j0 := Nat.min (n - 1) (floorNat ((s - m.minS) / m.step))
  let j := if j0 + 1 < n then j0 else n - 2
  let gj := ofNat j * m.step + m.minS
  let t0 := (s - gj) / m.step
  let t := if t0 < 0 then 0 else if t0 > 1 then 1 else t0
  let lo := at0 m.S j
  let hi := at0 m.S (j+1)
  let sc := if s < m.minS then m.minS else if s > m.maxS then m.maxS else s
  let M := [at0 m.S (j-1), lo, hi, at0 m.S (j+2)].foldl (fun a b => if a < absF b then absF b else a) 0
  let D := absF (lo - at0 m.S (j-1)) + absF (hi - lo) + (if j + 2 < n then absF (at0 m.S (j+2) - hi) else 0)
  let K : Float := ofNat (4 * m.req.scores.length + 32)
  (lo + (hi - lo) * t,
   (K * 2 * u + tailAmp + 16 * u) * M + D * (16 * u * (absF sc + absF m.minS + absF m.maxS) / m.step) + 1e-290)

def handleKdeSeq (args impl : List String) : Option Reply := do
  let (reqs, steps) ← run (do
    let ms ← list parseModel
    let st ← list (do
      let kind ← nat
      let i ← nat
      if kind == 1 then do let s ← f64; pure (i, some s) else pure (i, none))
    pure (ms.map (fun f => f []), st)) args
  let reqsA := reqs.toArray
  let models : Array SeqModel := reqsA.mapIdx fun i r =>
    let key := ((List.range i).find? fun j => sameReq (reqsA.getD j r) r).getD i
    match foldExt fmin r.scores, foldExt fmax r.scores with
    | some minS, some maxS =>
      let step := (maxS - minS) / ofNat (r.nbins - 1)
      { req := r, key, est := build floatFns r.scores r.decoys r.nbins r.adj r.mono, minS, maxS, step,
        S := specGrid r minS step }
    | _, _ => { req := r, key, est := none, minS := 0, maxS := 0, step := 0, S := #[] }
  let queries := steps.filterMap fun (i, s) => s.map fun x => (i, x)
  let modelVals : List (Option Float) := queries.map fun (i, x) =>
    (models[i]?).bind fun m => m.est.bind fun e => posteriorError e x
  let model := outList (fun v => match v with | some x => outF64 x | none => "panic") modelVals
  if impl == ["panic"] then return { model, agree := false, spec := "bad:panic" }
  let iv ← (run (list f64) impl).map (·.toArray)
  if iv.size != queries.length then return { model, agree := false, spec := "bad:length" }
  let qs := queries.toArray
  -- agreement with the (history-free) model, same bound as op `kde`
  let agree := (List.range qs.size).all fun k =>
    match qs[k]?, modelVals[k]? with
    | some (i, x), some (some a) =>
      (match models[i]? with
       | some m =>
         (match m.est with
          | some e =>
            let b := at0 iv k
            if a.isNaN || b.isNaN then a.isNaN && b.isNaN else
            let bins := e.bins.toArray
            let lo := binLo e x
            let L := absF (at0 bins lo)
            let U := absF (at0 bins (binHi e lo))
            let K : Float := ofNat (4 * m.req.scores.length + 32)
            absF (a - b) ≤ (K * 2 * u + tailAmp) * (if L < U then U else L) + 1e-290
          | none => false)
       | none => false)
    | _, _ => false
  -- spec
  let verdict : Option String := Id.run do
    -- (1) purity: first answer seen for (model key, score bits)
    let mut seen : List ((Nat × UInt64) × UInt64) := []
    for k in [0:qs.size] do
      match qs[k]? with
      | none => pure ()
      | some (i, x) =>
        let key := ((models[i]?).map (·.key)).getD i
        let v := at0 iv k
        match seen.lookup (key, x.toBits) with
        | some b => if b != v.toBits then return some (fmtIdx "bad:depends_on_previous_estimator" k)
        | none => seen := ((key, x.toBits), v.toBits) :: seen
    -- (2) every answer is its own estimator's definition
    for k in [0:qs.size] do
      match qs[k]? with
      | none => pure ()
      | some (i, x) =>
        match models[i]? with
        | none => return some (fmtIdx "bad:unknown_model" k)
        | some m =>
          if x.isNaN || x.isInf then pure () else
          let v := at0 iv k
          let (p, tol) := specValue m x
          if v.isNaN then return some (fmtIdx "bad:nan" k)
          if !(0 ≤ v && v ≤ 1) then return some (fmtIdx "bad:range" k)
          if !(absF (v - p) ≤ tol) then
            -- whose value is it?
            let other := (List.range models.size).any fun j =>
              match models[j]? with
              | some mj => mj.key != m.key && (let (pj, tj) := specValue mj x; absF (v - pj) ≤ tj)
              | none => false
            let prev := k > 0 && (at0 iv (k-1)).toBits == v.toBits
            return some (fmtIdx (if other || prev then "bad:depends_on_previous_estimator" else "bad:answer_ne_definition") k)
    return none
  -- outside the precondition (not generated): a degenerate model makes the definition undefined
  let wellFormed := models.all fun m =>
    m.req.nbins ≥ 2 && distinctCount (classOf true m.req.scores m.req.decoys) ≥ 2 &&
    distinctCount (classOf false m.req.scores m.req.decoys) ≥ 2 &&
    !(m.req.scores.any fun x => x.isNaN || x.isInf)
  let spec := if !wellFormed then "na" else match verdict with | none => "ok" | some v => v
  return { model, agree, spec }

def handleKdePool (args impl : List String) : Option Reply := do
  if impl == ["panic"] then return { model := "-", agree := false, spec := "bad:panic" }
  let blocks ← run (list (list nat)) impl
  match blocks with
  | [] => return { model := "-", agree := false, spec := "bad:length" }
  | b0 :: rest =>
    let firstImpl := (toString b0.length) :: b0.map toString
    let r ← handleKde args firstImpl
    let diff := (List.range rest.length).find? fun p => rest[p]? != some b0
    match diff with
    | some p => return { r with agree := false, spec := fmtIdx "bad:depends_on_pool_size" (p + 1) }
    | none => return r

/-- split `K` concatenated psmpep requests / replies -/
def splitPsmArgs : Nat → List String → Option (List (List String))
  | 0, [] => some []
  | 0, _ => none
  | k + 1, toks => do
    let n ← (toks[3]?).bind String.toNat?
    let len := 4 + 22 * n
    if toks.length < len then none else do
      let rest ← splitPsmArgs k (toks.drop len)
      pure (toks.take len :: rest)

def splitPsmReplies : Nat → List String → Option (List (List String))
  | 0, [] => some []
  | 0, _ => none
  | k + 1, toks => do
    let n ← (toks[1]?).bind String.toNat?
    let len := 2 + 3 * n
    if toks.length < len then none else do
      let rest ← splitPsmReplies k (toks.drop len)
      pure (toks.take len :: rest)

def handlePsmSeq (args impl : List String) : Option Reply := do
  let k ← (args.head?).bind String.toNat?
  let reqs ← splitPsmArgs k args.tail
  if impl == ["panic"] then return { model := "-", agree := false, spec := "bad:panic" }
  match splitPsmReplies k impl with
  | none => return { model := "-", agree := false, spec := "bad:length" }
  | some reps =>
    let rs ← (List.zip reqs reps).mapM fun (a, i) => handlePsm a i
    let model := " ".intercalate (rs.map (·.model))
    -- identical tables ⇒ bit-identical replies
    let pairs := List.zip reqs reps
    let impure := (List.range pairs.length).find? fun j =>
      (List.range j).any fun i =>
        match pairs[i]?, pairs[j]? with
        | some (ai, ri), some (aj, rj) => ai == aj && ri != rj
        | _, _ => false
    let firstBad := (List.range rs.length).findSome? fun j =>
      (rs[j]?).bind fun r => if r.spec.startsWith "bad" then some (r.spec ++ "#call" ++ toString j) else none
    let spec := match impure, firstBad with
      | some j, _ => fmtIdx "bad:depends_on_previous_call" j
      | none, some b => b
      | none, none => if rs.all (fun r => r.spec == "na") then "na" else "ok"
    return { model, agree := rs.all (·.agree) && impure.isNone, spec }

def handle (op : String) (args impl : List String) : Option Reply :=
  match op with
  | "kde" => handleKde args impl
  | "psmpep" => handlePsm args impl
  | "kdeseq" => handleKdeSeq args impl
  | "kdepool" => handleKdePool args impl
  | "psmpepseq" => handlePsmSeq args impl
  | _ => none

end Sage.C14
