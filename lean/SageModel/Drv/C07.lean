import SageModel.Proto
import SageModel.Generated.Consts
import SageModel.Model.C05
import SageModel.Model.C06
import SageModel.Model.C07

/-! Driver ops for C07.

```
db7 <tag:hex> <generate_decoys> <opt mc> <opt min_len> <opt max_len> <opt cleave:hex> <opt restrict-byte>
    <opt c_terminal> <opt semi> <max_variable_mods> <f32 lo> <f32 hi>
    <nvar> {<key:hex> <nmass> <f32>*} <nstatic> {<key:hex> <f32>} <fasta text:hex>
   | panic | ok <n> {<entry> <reported:hex>}*n             entries sorted by their text
rev7 <tag:hex> <generate_decoys> <entry>
   | panic | ok <entry of reverse p> <reverse (reverse p) == p> <label p> <label (reverse p)>
             <proteins p:hex> <proteins (reverse p):hex>
<entry> = <seq:hex> <decoy> <mc> <f32 mono> <0|1 f32 nterm> <nmods> <f32>* <0|1 f32 cterm> <nprot> <name:hex>*
```
All comparisons are exact (`Proto.exact`): integers, byte strings, and f32 bit patterns that result
from the same additions in the same order (`Sage.C06` at `Float32`). The database is compared as a
sorted list of entries (its order is C08's subject).

The spec (`Sage.C07.specVerdict`) is evaluated on the IMPLEMENTATION's entries read as bit patterns
(`Pep Nat`): equality of masses / modification slots is equality of bit patterns.
-/
namespace Sage.C07
open Sage.Proto

def codePoints (b : List UInt8) : Option (List Nat) :=
  (String.fromUTF8? (ByteArray.mk b.toArray)).map fun s => s.toList.map Char.toNat

def key : P (List Nat) := do
  let b ← bytes
  match codePoints b with
  | some k => pure k
  | none => failure

def f32b (b : Nat) : Float32 := Float32.ofBits b.toUInt32
def H2Of : Float32 := f32b Sage.Gen.H2O_bits
def tableF : List Float32 := Sage.Gen.MONOISOTOPIC_bits.map f32b

structure Request where
  tag : Bytes
  gen : Bool
  builder : C05.Builder
  max : Nat
  lo : Nat
  hi : Nat
  vars : List (List Nat × List Nat)
  statics : List (List Nat × Nat)
  text : Bytes

def pRequest : P Request := do
  let tag ← bytes
  let gen ← bool
  let mc ← opt nat
  let mn ← opt nat
  let mx ← opt nat
  let cl ← opt bytes
  let sk ← opt nat
  let ct ← opt bool
  let se ← opt bool
  let max ← nat
  let lo ← nat
  let hi ← nat
  let vars ← list (do let k ← key; let ms ← list nat; pure (k, ms))
  let statics ← list (do let k ← key; let m ← nat; pure (k, m))
  let text ← bytes
  pure { tag, gen, builder := ⟨mc, mn, mx, cl, sk.map Nat.toUInt8, ct, se⟩, max, lo, hi, vars, statics, text }

/-- an entry on the wire, values as bit patterns -/
def pEntry : P (Pep Nat) := do
  let seq ← bytes
  let decoy ← bool
  let mc ← nat
  let mono ← nat
  let nterm ← opt nat
  let mods ← list nat
  let cterm ← opt nat
  let proteins ← list bytes
  pure { decoy, sequence := natSeq seq, mods, nterm, cterm, mono, mc, semi := false,
         position := .internal, proteins }

def outEntry (p : Pep Nat) : String :=
  " ".intercalate
    [hex (p.sequence.map Nat.toUInt8), outBool p.decoy, toString p.mc, toString p.mono,
     outOpt toString p.nterm, outList toString p.mods, outOpt toString p.cterm, outList hex p.proteins]

def toBits (p : Pep Float32) : Pep Nat :=
  { decoy := p.decoy, sequence := p.sequence, mods := p.mods.map (·.toBits.toNat),
    nterm := p.nterm.map (·.toBits.toNat), cterm := p.cterm.map (·.toBits.toNat),
    mono := p.mono.toBits.toNat, mc := p.mc, semi := p.semi, position := p.position, proteins := p.proteins }

def ofBits (p : Pep Nat) : Pep Float32 :=
  { decoy := p.decoy, sequence := p.sequence, mods := p.mods.map f32b,
    nterm := p.nterm.map f32b, cterm := p.cterm.map f32b,
    mono := f32b p.mono, mc := p.mc, semi := p.semi, position := p.position, proteins := p.proteins }

def sortStrings (l : List String) : List String := l.mergeSort fun a b => !decide (b < a)

def handle (op : String) (args impl : List String) : Option Reply :=
  match op with
  | "db7" => do
    let r ← run pRequest args
    let implS := " ".intercalate impl
    match r.builder.toParams with
    | none => pure (exact "panic" implS "na")
    | some par =>
      let varsV : List (C06.Target × Nat) := C06.validateVar r.vars
      let staticsV : List (C06.Target × Nat) := C06.validate r.statics
      let cfg : Cfg Float32 :=
        { tag := r.tag, gen := r.gen, par := par,
          vars := varsV.map fun tm => (tm.1, f32b tm.2),
          statics := staticsV.map fun tm => (tm.1, f32b tm.2),
          -- `Builder::make_parameters`: `max_variable_mods.map(|x| x.max(1))`
          max := if r.max == 0 then 1 else r.max,
          lo := f32b r.lo, hi := f32b r.hi, h2o := H2Of, table := tableF }
      let model : String :=
        match buildDb cfg r.text with
        | none => "panic"
        | some db =>
          let recs := db.map fun p => outEntry (toBits p) ++ " " ++ hex (proteinsStr r.tag r.gen p)
          " ".intercalate ("ok" :: toString recs.length :: sortStrings recs)
      -- the spec on the implementation's database
      let spec : String :=
        match impl with
        | "ok" :: rest =>
          match run (list (do let e ← pEntry; let rep ← bytes; pure (e, rep))) rest with
          | none => "bad:reply_unreadable"
          | some ers =>
            -- all records of the file, tagged ones included (`generate_decoys = false` keeps everything)
            match C05.parse r.tag false r.text with
            | none => "na"
            | some recs => specVerdict par r.tag r.gen recs (ers.map (·.1)) (ers.map (·.2))
        | _ => "na"
      pure (exact model implS spec)
  | "rev7" => do
    let (tag, gen, pb) ← run (do let t ← bytes; let g ← bool; let e ← pEntry; pure (t, g, e)) args
    let implS := " ".intercalate impl
    let p := ofBits pb
    let n := p.sequence.length - 1
    -- `pep.modifications[1..n]` is out of range: slice index panic
    if n > 1 && p.mods.length < n then pure (exact "panic" implS "na") else
    let q := reverse p
    let lab (x : Pep Float32) : String := toString (label x)
    let model := " ".intercalate
      ["ok", outEntry (toBits q), outBool (outEntry (toBits (reverse q)) == outEntry pb), lab p, lab q,
       hex (proteinsStr tag gen p), hex (proteinsStr tag gen q)]
    let spec : String :=
      match impl with
      | "ok" :: rest =>
        match run (do let e ← pEntry; let inv ← bool; let l1 ← int; let l2 ← int; let s1 ← bytes; let s2 ← bytes
                      pure (e, inv, l1, l2, s1, s2)) rest with
        | none => "bad:reply_unreadable"
        | some (e, inv, l1, l2, s1, s2) =>
          if pb.mods.length != pb.sequence.length then "na" else
          if e != mirror pb then "bad:reverse_ne_mirror" else
          if !inv then "bad:not_involutive" else
          if l1 != (if pb.decoy then -1 else 1) || l2 != (if pb.decoy then 1 else -1) then "bad:label" else
          if s1 != specNames tag gen pb || s2 != specNames tag gen (mirror pb) then "bad:protein_names" else "ok"
      | _ => "na"
    pure (exact model implS spec)
  | _ => none

end Sage.C07
