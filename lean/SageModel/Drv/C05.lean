import SageModel.Proto
import SageModel.Model.C05

/-! Driver ops for C05.

`digest <opt mc> <opt min_len> <opt max_len> <opt cleave-hex> <opt restrict-byte> <opt c_terminal>
        <opt semi> <seq-hex>`            (`opt x` = `0` or `1 x`: the `EnzymeBuilder` fields)
   reply: `panic` or `n (seq-hex missed_cleavages position semi)…` in the order produced
          (position: 0 Nterm, 1 Cterm, 2 Full, 3 Internal)
`fasta <decoy-tag-hex> <generate_decoys> <text-hex>`
   reply: `panic` or `n (accession-hex sequence-hex)…` in file order

`fastadigest <decoy-tag-hex> <generate_decoys> <text-hex> <7 opt builder fields as in digest> <k> <pool size>…`
   reply: `panic` or `k` followed, per rayon pool size, by `n (accession-hex seq-hex mc position semi decoy)…`
          sorted by the item's text (the multiset of `Fasta::digest`'s output under that pool)

All are compared token for token (`Proto.exact`): everything is integers and byte strings, the
order is the deterministic `Vec` order of the code.
-/
namespace Sage.C05
open Sage.Proto

def posCode : Position → Nat
  | .nterm => 0 | .cterm => 1 | .full => 2 | .internal => 3

def posOfCode : Nat → Option Position
  | 0 => some .nterm | 1 => some .cterm | 2 => some .full | 3 => some .internal | _ => none

def outDigest (d : Digest) : String :=
  s!"{hex d.seq} {d.mc} {posCode d.pos} {outBool d.semi}"

def pDigest : P Digest := do
  let w ← bytes
  let mc ← nat
  let p ← nat
  let semi ← bool
  match posOfCode p with
  | some pos => pure ⟨w, mc, pos, semi⟩
  | none => failure

def pBuilder : P (Builder × Seq) := do
  let mc ← opt nat
  let mn ← opt nat
  let mx ← opt nat
  let cl ← opt bytes
  let sk ← opt nat
  let ct ← opt bool
  let se ← opt bool
  let s ← bytes
  pure (⟨mc, mn, mx, cl, sk.map Nat.toUInt8, ct, se⟩, s)

/-- records as printed -/
def outRec (r : Seq × Seq) : String := s!"{hex r.1} {hex r.2}"

def pRec : P (Seq × Seq) := do
  let a ← bytes
  let b ← bytes
  pure (a, b)

def pBuilderOnly : P Builder := do
  let mc ← opt nat
  let mn ← opt nat
  let mx ← opt nat
  let cl ← opt bytes
  let sk ← opt nat
  let ct ← opt bool
  let se ← opt bool
  pure ⟨mc, mn, mx, cl, sk.map Nat.toUInt8, ct, se⟩

def outItem (it : FItem) : String := s!"{hex it.acc} {outDigest it.d} {outBool it.decoy}"

def pItem : P FItem := do
  let a ← bytes
  let d ← pDigest
  let dec ← bool
  pure ⟨a, d, dec⟩

/-- canonical order: by the rendered text (ASCII, so Lean's and Rust's string orders coincide) -/
def sortItems (l : List FItem) : List String := ((l.map outItem).toArray.qsort (· < ·)).toList

def handle (op : String) (args impl : List String) : Option Reply :=
  match op with
  | "digest" => do
    let (b, s) ← run pBuilder args
    match b.toParams with
    | none => pure (exact "panic" (" ".intercalate impl) "na")
    | some par =>
      match digestP par s with
      | none => pure (exact "panic" (" ".intercalate impl) "na")
      | some out =>
      let model := outList outDigest out
      let spec : String :=
        match run (list pDigest) impl with
        | none => "na"
        | some iout =>
          -- naive O(n²) spec up to 160 residues, comparison with the proved model beyond
          digestVerdict par s out iout
      pure (exact model (" ".intercalate impl) spec)
  | "fasta" => do
    let (tag, gen, text) ← run (do let t ← bytes; let g ← bool; let x ← bytes; pure (t, g, x)) args
    match parse tag gen text with
    | none => pure (exact "panic" (" ".intercalate impl) "na")
    | some recs =>
      let model := outList outRec recs
      let spec : String :=
        match run (list pRec) impl with
        | none => "na"
        | some irecs => fastaVerdict tag gen text irecs
      pure (exact model (" ".intercalate impl) spec)
  | "fastadigest" => do
    let (tag, gen, text, b, pools) ← run (do
      let t ← bytes; let g ← bool; let x ← bytes; let b ← pBuilderOnly; let ps ← list nat
      pure (t, g, x, b, ps)) args
    match b.toParams with
    | none => pure (exact "panic" (" ".intercalate impl) "na")
    | some par =>
      match fastaDigest tag gen par text with
      | none => pure (exact "panic" (" ".intercalate impl) "na")
      | some items =>
        let one := " ".intercalate (toString items.length :: sortItems items)
        let model := " ".intercalate (toString pools.length :: pools.map fun _ => one)
        let spec : String :=
          match run (list (list pItem)) impl with
          | none => "na"
          | some ipools => if ipools.length != pools.length then "bad:pool_count" else fdVerdict tag gen par text ipools
        pure (exact model (" ".intercalate impl) spec)
  | _ => none

end Sage.C05
