import SageModel.Proto
import SageModel.Model.C04
import SageModel.Drv.C09

/-! Driver ops for C04 (arithmetic at `Float32` / `Float`, same operations in the same order as the Rust code).

```
tol      := 0 u32(lo) u32(hi)      (ppm)   |   1 u32(lo) u32(hi)   (Da)
pep      := h:seq [n u32 mod…] opt(u32 nterm) opt(u32 cterm) u32(monoisotopic)        (as in C09)
peak     := u32(mass) u32(intensity)          mass = m/z − PROTON already applied (ProcessedSpectrum<Peak>)

c04select tol u32(center) opt(u32 offset) [n peak…]          |  0 | 1 u32(mass) u32(intensity)

score1 [k kind…] min_ion_index bucket [p pep…]               database (peptides ascending in monoisotopic mass)
       tol(fragment) tol(precursor) opt(max_fragment_charge) min_isotope_err max_isotope_err
       openms annotate min_matched_peaks
       u32(precursor m/z) charge(0 | 1 z | 2 z = annotated + override_precursor_charge) min_precursor_charge max_precursor_charge
       u32(total_ion_current) [n peak…]
   |  [f feature…]   sorted by (peptide index, charge, isotope error)   |  panic
feature  := pep_ix u32(isotope_error) peptide_len charge u32(expmass) u32(calcmass) u32(delta_mass)
            u32(average_ppm) u64(hyperscore) matched_peaks longest_b longest_y u32(longest_y_pct)
            u32(matched_intensity_pct) scored_candidates u64(poisson) u32(ms2_intensity)
            opt([m (kind charge ordinal u32(intensity) u32(mz_calculated) u32(mz_experimental))…])
```

`scoremany report_psms mode(bit 0 = wide_window, bit 1 = chimera) opt(tol isolation_window) <the arguments of score1>`: the same through a Scorer
with the given `report_psms` / `wide_window` (databases of 49..300 peptides inside one precursor window: `trim_hits`
really truncates, only `report_psms` PSMs come back).
In chimera mode (`score_chimera_fast`) the PSM of round i (rank i) is checked against the definition recomputed on the
spectrum LEFT AFTER removing the matched peaks of the PSMs of rounds < i, with that spectrum's TIC (`judgeChimera`).
Every feature carries 4 more tokens after `ms2_intensity`: `rank u64(delta_next) u64(delta_best) missed_cleavages`.

`agree`: every feature the implementation reports is one of the model's candidates (after the model of `trim_hits`)
with the model's values, no candidate twice, `min(report_psms, #candidates)` of them, ranks/deltas consistent
(`relClause`) — WHICH of several equally scored candidates is reported/ranked first is C02's subject.
Token comparison is exact, except for the two fields downstream of libm calls:
* `hyperscore`: ≤ 4 ulp (f64) for `SageHyperScore` (one `ln` of the intensities + Stirling terms; Lean's
  toolchain ships its own libm). For `OpenMSHyperScore` the code calls `f32::ln_1p`, which core Lean does not
  have; the driver computes `log1p` in f64 and rounds once to f32, so the term may differ by an f32 ulp or two:
  relative difference ≤ 1e-6.
* `poisson`: ≤ 16 ulp, or an absolute difference ≤ 1e-12 (three libm calls, and `log10` of a value that may be
  close to 1, where an ulp of the argument is many ulps of the result).
NaNs are canonicalised on both sides (every NaN prints as the default quiet NaN).

`spec` (on the IMPLEMENTATION's reply): every reported feature is recomputed naively (`specMatches` with the
linear-scan window `specSelect`, `specVals`, `specLongest`, `specHyperscore`, `feature`) and compared field by
field — sums are formed in the order of the property's enumeration (kinds, ion index, charge), which is the
code's order, so they are compared bit-exactly; hyperscore/poisson with the allowances above. `longest_b/y` are
checked against `specLongest` (longest block of consecutive matched indices) when at most one configured kind
feeds the terminus' counter, and against `specLongestSeq` (longest contiguous ladder in the concatenation of the
kinds' index sequences, in configuration order) when several kinds share it.
`na`: a negative or NaN intensity / NaN mass in the spectrum (outside the property's domain: intensities ≥ 0).
-/
namespace Sage.C04
open Sage.Proto
open Sage.C09 (Kind RawPep pRaw f32OfBits constsF)
open Sage.C03 (Tol)

def f64Lit (x : Float) : Float := x

/-- `f32::ln_1p` then `as f64`, via an f64 `log1p` (classical `x·log(u)/(u−1)` form) rounded once to f32 -/
def ln1p32 (x : Float32) : Float :=
  let xd := x.toFloat
  let u := 1.0 + xd
  let r := if u == 1.0 then xd else if (u - 1.0).isInf then Float.log u else Float.log u * xd / (u - 1.0)
  r.toFloat32.toFloat

def E32 : Env Float32 Float :=
  { add := (· + ·), sub := (· - ·), mul := (· * ·), div := (· / ·), abs := Float32.abs, neg := fun x => -x,
    ofNat := Float32.ofNat,
    proton := f32OfBits Sage.Gen.PROTON_bits, neutron := f32OfBits Sage.Gen.NEUTRON_bits,
    cast := Float32.toFloat,
    addD := (· + ·), subD := (· - ·), mulD := (· * ·), divD := (· / ·), negD := fun x => -x,
    ofNatD := Float.ofNat, half := 0.5, pi := 3.14159265358979323846264338327950288, tiny := Float.ofBits 1,
    ln := Float.log, exp := Float.exp, log10 := Float.log10, ln1p := ln1p32,
    isFinite := Float.isFinite, isInf := Float.isInf }

/-! ### parsing -/

def pTol : P (Tol Float32) := do
  let k ← nat
  let lo ← f32
  let hi ← f32
  match k with
  | 0 => pure (.ppm lo hi)
  | 1 => pure (.da lo hi)
  | _ => failure

def pPeak : P (Peak Float32) := do
  let m ← f32
  let i ← f32
  pure { mass := m, intensity := i }

/-! ### canonical output -/

def canonF32 (x : Float32) : String := if x.isNaN then "2143289344" else outF32 x
def canonF64 (x : Float) : String := if x.isNaN then "9221120237041090560" else outF64 x

/-- token with the comparison class: `x` exact, `h` hyperscore (sage), `o` hyperscore (OpenMS), `p` poisson -/
abbrev Tk := Char × String

def kindNat : Kind → Nat
  | .a => 0 | .b => 1 | .c => 2 | .x => 3 | .y => 4 | .z => 5

def annToks (a : Ann Float32) : List Tk :=
  [('x', toString (kindNat a.kind)), ('x', toString a.charge), ('x', toString a.ordinal),
   ('x', canonF32 a.intensity), ('x', canonF32 a.mzCalc), ('x', canonF32 a.mzExp)]

def featToks (openms : Bool) (mc : Nat) (f : Feat Float32 Float) : List Tk :=
  [('x', toString f.pep), ('x', canonF32 f.isotopeError), ('x', toString f.peptideLen), ('x', toString f.charge),
   ('x', canonF32 f.expmass), ('x', canonF32 f.calcmass), ('x', canonF32 f.deltaMass), ('x', canonF32 f.averagePpm),
   (if openms then 'o' else 'h', canonF64 f.hyperscore),
   ('x', toString f.matchedPeaks), ('x', toString f.longestB), ('x', toString f.longestY),
   ('x', canonF32 f.longestYPct), ('x', canonF32 f.matchedIntensityPct), ('x', toString f.scoredCandidates),
   ('p', canonF64 f.poisson), ('x', canonF32 f.ms2Intensity),
   -- rank, delta_next, delta_best: checked relationally on the whole reply (`relClause`), not per feature
   ('r', "-"), ('r', "-"), ('r', "-"), ('x', toString mc)] ++
  (match f.ann with
   | none => [('x', "0")]
   | some l => [('x', "1"), ('x', toString l.length)] ++ l.flatMap annToks)

def absF (x : Float) : Float := if x < 0.0 then -x else x

def tokAgree (cls : Char) (m i : String) : Bool :=
  if m == i || cls == 'r' then true else
  match cls, m.toNat?, i.toNat? with
  | 'h', some a, some b =>
    let x := Float.ofBits a.toUInt64; let y := Float.ofBits b.toUInt64
    !x.isNaN && !y.isNaN && ulpDistF64 x y ≤ 4
  | 'o', some a, some b =>
    let x := Float.ofBits a.toUInt64; let y := Float.ofBits b.toUInt64
    x.isFinite && y.isFinite && absF (x - y) ≤ 1.0e-6 * (if absF x < 1.0 then 1.0 else absF x)
  | 'p', some a, some b =>
    let x := Float.ofBits a.toUInt64; let y := Float.ofBits b.toUInt64
    !x.isNaN && !y.isNaN && (ulpDistF64 x y ≤ 16 || absF (x - y) ≤ 1.0e-12)
  | _, _, _ => false

def toksAgree : List Tk → List String → Bool
  | [], [] => true
  | (c, m) :: ms, i :: is => tokAgree c m i && toksAgree ms is
  | _, _ => false

/-- first position at which two token lists disagree -/
def firstDiff : List Tk → List String → Nat → Option Nat
  | [], [], _ => none
  | (c, m) :: ms, i :: is, k => if tokAgree c m i then firstDiff ms is (k + 1) else some k
  | _, _, k => some k

/-! ### the `score1` computation -/

structure Req where
  kinds : List Kind
  minIdx : Nat
  raws : List RawPep
  ftol : Tol Float32
  ptol : Tol Float32
  mfcCfg : Option Nat
  isoLo : Int
  isoHi : Int
  openms : Bool
  annotate : Bool
  minMatched : Nat
  precMz : Float32
  z : Option Nat
  /-- `override_precursor_charge`: search `min..=max` although the charge is annotated -/
  overrideZ : Bool
  minPc : Nat
  maxPc : Nat
  tic : Float32
  peaks : List (Peak Float32)
  /-- `Scorer::report_psms` (`score1`: 1000, i.e. everything is reported and nothing is trimmed) -/
  reportPsms : Nat := 1000
  /-- `Scorer::wide_window` -/
  wide : Bool := false
  /-- `Precursor::isolation_window` -/
  iw : Option (Tol Float32) := none
  /-- `Scorer::chimera` -/
  chimera : Bool := false

def allSomeK : List (Option Kind) → Option (List Kind)
  | [] => some []
  | none :: _ => none
  | some x :: xs => (allSomeK xs).map (x :: ·)

def pReq : P Req := do
  let kindNs ← list nat
  let minIdx ← nat
  let _bucket ← nat
  let raws ← list pRaw
  let ftol ← pTol
  let ptol ← pTol
  let mfcCfg ← opt nat
  let isoLo ← int
  let isoHi ← int
  let openms ← bool
  let annotate ← bool
  let minMatched ← nat
  let precMz ← f32
  -- `0` = not annotated, `1 z` = annotated, `2 z` = annotated and `override_precursor_charge = true`
  let tag ← nat
  let z ← (if tag == 0 then pure none else do let z ← nat; pure (some z))
  let overrideZ := tag == 2
  if tag > 2 then failure
  let minPc ← nat
  let maxPc ← nat
  let tic ← f32
  let peaks ← list pPeak
  match allSomeK (kindNs.map Kind.ofNat?) with
  | none => failure
  | some kinds =>
    pure { kinds, minIdx, raws, ftol, ptol, mfcCfg, isoLo, isoHi, openms, annotate, minMatched, precMz, z, overrideZ, minPc, maxPc, tic, peaks }

/-- the precursor charges `initial_hits` searches: the annotated one (unless overridden), else `min..=max` -/
def Req.charges (r : Req) : List Nat :=
  match r.z, r.overrideZ with
  | some z, false => [z]
  | _, _ => List.range' r.minPc (r.maxPc + 1 - r.minPc)

/-- requests the model covers: well-formed peptides (C09 domain), ascending peptide masses, ascending peak
    masses, no NaN mass, small charges -/
def Req.covered (r : Req) : Bool :=
  r.raws.all (fun p => p.seq.length ≥ 1 && p.mods.length ≥ p.seq.length) &&
  (let ms := r.raws.map (fun p => f32OfBits p.mass)
   (ms.zip (ms.drop 1)).all (fun ab => decide (ab.1 ≤ ab.2))) &&
  (let ms := r.peaks.map (·.mass)
   ms.all (fun m => !m.isNaN) && (ms.zip (ms.drop 1)).all (fun ab => decide (ab.1 ≤ ab.2))) &&
  r.charges.all (fun z => z ≥ 1 && z < 64) && r.maxPc < 64 && (match r.mfcCfg with | some c => c < 64 | none => true) &&
  r.isoLo ≤ r.isoHi && r.isoLo ≥ -8 && r.isoHi ≤ 8

/-- the property's domain: intensities ≥ 0 (and not NaN) -/
def Req.inDomain (r : Req) : Bool :=
  r.peaks.all (fun p => decide ((0.0 : Float32) ≤ p.intensity))

/-- more than one configured kind feeding the b-side (resp. y-side) counter -/
def Req.multiN (r : Req) : Bool := (r.kinds.filter (·.isN)).length > 1
def Req.multiC (r : Req) : Bool := (r.kinds.filter (fun k => !k.isN)).length > 1

/-- `Tolerance * f32` -/
def tolScale (t : Tol Float32) (c : Float32) : Tol Float32 :=
  match t with
  | .ppm lo hi => .ppm (lo * c) (hi * c)
  | .pct lo hi => .pct (lo * c) (hi * c)
  | .da lo hi => .da (lo * c) (hi * c)

/-- `peptide.missed_cleavages` as the harness sets it: the number of K/R before the last residue (capped at 255) -/
def missedCleavages (seq : List UInt8) : Nat :=
  min 255 ((seq.take (seq.length - 1)).filter (fun b => b == 75 || b == 82)).length

/-- the preliminary search (`initial_hits`): the surviving candidates and the two counters -/
def search (r : Req) : Hits :=
  let peps := r.raws.map RawPep.toF
  let monos := peps.map (·.mass)
  let monoArr := monos.toArray
  let mz := r.precMz - E32.proton
  let fragsOf (i : Nat) : List Float32 :=
    match peps[i]? with
    | none => []
    | some p => (Sage.C09.pepFragments constsF r.kinds r.minIdx i p).map (·.2)
  let perCharge (z : Nat) : Hits :=
    let zf := Float32.ofNat z
    let pm := mz * zf
    -- wide window: `isolation_window.unwrap_or(Da(-2.4, 2.4)) * charge`
    let ptol := if r.wide then tolScale (r.iw.getD (.da (-2.4) 2.4)) zf else r.ptol
    let mfc := maxFragmentCharge r.mfcCfg z
    Hits.overIsotopes r.reportPsms r.isoLo r.isoHi fun e =>
      let w := tolBounds E32 ptol (pm - (ofInt E32 e) * E32.neutron)
      let lr := Sage.C03.binarySearchSlice monoArr w.1 w.2      -- `IndexedDatabase::query`
      Hits.ofSub r.reportPsms (lr.2 - lr.1 + 1) (prelim E32 r.ftol ptol r.peaks z mfc pm [e] monos fragsOf)
  let single : Option Nat := if r.wide then none else match r.z, r.overrideZ with
    | some z, false => some z
    | _, _ => none
  Hits.overCharges r.reportPsms single (List.range' r.minPc (r.maxPc + 1 - r.minPc)) perCharge

/-- `useSpec = false`: the model (code-mirroring loop, binary search, `Run`);
    `useSpec = true`: the naive recomputation.
    Result: every candidate `build_features` scores and keeps (`min_matched_peaks`), with all columns, sorted by
    (peptide index, charge, isotope error); `report_psms` of them (the best by hyperscore) are reported. -/
def computeH (r : Req) (useSpec : Bool) (hits : Hits) : List (Feat Float32 Float) :=
  let peps := r.raws.map RawPep.toF
  let total := hits.matchedPeaks
  let nScored := hits.scoredCandidates
  let peakArr := r.peaks.toArray
  let pres := hits.pos.mergeSort (fun a b => a.pep < b.pep || (a.pep == b.pep &&
    (a.charge < b.charge || (a.charge == b.charge && a.iso ≤ b.iso))))
  pres.filterMap fun pre =>
    match peps[pre.pep]? with
    | none => none
    | some p =>
      let n := p.residues.length
      let mfc := maxFragmentCharge r.mfcCfg pre.charge
      let series := r.kinds.map (fun k => (k, Sage.C09.ions constsF k p))
      let fzs := fragCharges series mfc
      let s : Scored Float32 Float :=
        if useSpec then
          let sel := fun (mz : Float32) =>
            let b := tolBounds E32 r.ftol mz
            specSelect r.peaks b.1 b.2
          let v : SpecVals Float32 Float := specVals E32 n (specMatches E32 sel fzs)
          { matchedB := v.nb, matchedY := v.ny, summedB := v.ib, summedY := v.iy,
            -- one kind per terminus: the longest block of consecutive matched indices (`longest_spec`);
            -- several kinds sharing the counter: the longest contiguous ladder of the concatenated sequence
            -- (`longest_seq_spec`; the two coincide on ascending sequences, `run_spec_exec`/`run_seq_spec`)
            longestB := if r.multiN then specLongestSeq v.idxB else specLongest v.idxB,
            longestY := if r.multiC then specLongestSeq v.idxY else specLongest v.idxY,
            hyperscore := if r.openms then scoreOf E32 true v.nb v.ny v.ib v.iy else specHyperscore E32 v.nb v.ny v.ib v.iy,
            ppm := v.ppmNum / (v.ib + v.iy),
            ann := if r.annotate then some v.rows else none }
        else
          scoreCandidate E32 (fun mz => select E32 peakArr mz r.ftol none) series n mfc r.openms r.annotate
      if s.matchedB + s.matchedY ≥ r.minMatched then
        some (feature E32 pre s n r.precMz p.mass r.tic total nScored)
      else none

def compute (r : Req) (useSpec : Bool) : List (Feat Float32 Float) := computeH r useSpec (search r)

def tkString (l : List Tk) : String := " ".intercalate (l.map (·.2))

/-! ### judging the implementation's features against a candidate list (model's or spec's) -/

/-- split the implementation's reply into per-feature token lists (using the known layout) -/
def splitFeat (toks : List String) : Option (List String × List String) :=
  -- 21 fixed tokens, then `0` or `1 m (6 tokens)×m`
  if toks.length < 22 then none else
  let fixed := toks.take 21
  let rest := toks.drop 21
  match rest with
  | "0" :: tl => some (fixed ++ ["0"], tl)
  | "1" :: m :: tl =>
    match m.toNat? with
    | some k => if tl.length < 6 * k then none else some (fixed ++ ["1", m] ++ tl.take (6 * k), tl.drop (6 * k))
    | none => none
  | _ => none

def splitFeats : Nat → List String → Option (List (List String))
  | 0, [] => some []
  | 0, _ => none
  | k+1, toks => do
    let (f, rest) ← splitFeat toks
    let fs ← splitFeats k rest
    pure (f :: fs)

def fieldNames : List String :=
  ["peptide_idx", "isotope_error", "peptide_len", "charge", "expmass", "calcmass", "delta_mass", "average_ppm",
   "hyperscore", "matched_peaks", "longest_b", "longest_y", "longest_y_pct", "matched_intensity_pct",
   "candidate_count", "poisson", "ms2_intensity", "rank", "delta_next", "delta_best", "missed_cleavages"]

/-- compare one implementation feature (tokens) with a candidate's feature; name of the first bad clause -/
def featClause (r : Req) (want : Feat Float32 Float) (got : List String) : Option String :=
  let mc := missedCleavages ((r.raws.getD want.pep ⟨[], [], none, none, 0⟩).seq)
  let wt := featToks r.openms mc want
  let rec go : List Tk → List String → Nat → Option String
    | [], [], _ => none
    | (c, m) :: ms, i :: is, k =>
      let name := fieldNames.getD k "fragments"
      if tokAgree c m i then go ms is (k + 1) else some name
    | _, _, _ => some "fragments"
  go wt got 0

def findCand (cands : List (Feat Float32 Float)) (got : List String) : Option (Feat Float32 Float) :=
  cands.find? (fun w => some (toString w.pep) == got[0]? && some (canonF32 w.isotopeError) == got[1]? &&
    some (toString w.charge) == got[3]?)

def f64Tok (t : Option String) : Option Float := (t.bind String.toNat?).map (fun b => Float.ofBits b.toUInt64)

/-- the relational columns: `rank` is a numbering 1..count by non-increasing hyperscore, `delta_best` = best − own,
    `delta_next` = own − next (the next candidate's hyperscore, reported or not; `0.0` when there is none) — all
    computed from the implementation's own hyperscores, hence bit-exact; only the hyperscore of an UNREPORTED next
    candidate is taken from `cands` (allowance 1e-9, or 2e-6 for the OpenMS flavour whose `ln_1p` is emulated) -/
def relClause (openms : Bool) (cands : List (Feat Float32 Float)) (feats : List (List String)) : Option String :=
  let rows := feats.filterMap fun g => do
    let rk ← (g[17]?).bind String.toNat?
    let h ← f64Tok g[8]?
    let dn ← f64Tok g[18]?
    let db ← f64Tok g[19]?
    pure (rk, h, dn, db, g)
  if rows.length != feats.length then some "shape" else
  let sorted := rows.mergeSort (fun a b => a.1 ≤ b.1)
  if (sorted.map (·.1)) != (List.range' 1 sorted.length) then some "rank" else
  let hs := sorted.map (·.2.1)
  if !((hs.zip (hs.drop 1)).all (fun ab => decide (ab.2 ≤ ab.1))) then some "rank_order" else
  let best := hs.headD 0.0
  if sorted.any (fun x => x.2.2.2.1.toBits != (best - x.2.1).toBits) then some "delta_best" else
  let unreported := cands.filter (fun c => !feats.any (fun g => (findCand [c] g).isSome))
  let lastNext : Option Float :=      -- `none`: no further candidate
    unreported.foldl (fun acc c => match acc with
      | none => some c.hyperscore
      | some m => some (if m < c.hyperscore then c.hyperscore else m)) none
  let n := sorted.length
  let bad := (List.range n).any fun i =>
    match sorted[i]?, sorted[i+1]? with
    | some x, some y => x.2.2.1.toBits != (x.2.1 - y.2.1).toBits
    | some x, none =>
      (match lastNext with
       | none => x.2.2.1.toBits != (x.2.1 - 0.0).toBits
       | some m => !(absF (x.2.2.1 - (x.2.1 - m)) ≤ (if openms then 2.0e-6 else 1.0e-9) * (if absF m < 1.0 then 1.0 else absF m)))
    | none, _ => false
  if bad then some "delta_next" else none

/-- first failing clause of the implementation's reply w.r.t. the candidate list, `none` = all fine -/
def judge (r : Req) (cands : List (Feat Float32 Float)) (impl : List String) : Option String :=
  if impl == ["panic"] then some "panic" else
  match impl with
  | [] => some "shape"
  | cnt :: rest =>
    match cnt.toNat? with
    | none => some "shape"
    | some k =>
      match splitFeats k rest with
      | none => some "shape"
      | some feats =>
        -- every reported feature is a candidate the definition yields, with the definition's values
        let bad := feats.findSome? fun got =>
          match findCand cands got with
          | some w => featClause r w got
          | none =>
            -- name the column that makes it unknown, when the other two key columns identify a candidate
            if cands.any (fun w => some (toString w.pep) == got[0]? && some (toString w.charge) == got[3]?) then some "isotope_error"
            else if cands.any (fun w => some (toString w.pep) == got[0]? && some (canonF32 w.isotopeError) == got[1]?) then some "charge"
            else some "unknown_candidate"
        match bad with
        | some c => some c
        | none =>
          -- no candidate twice; `report_psms` of them (all, if there are fewer)
          let keys := feats.map (fun g => (g[0]?, g[1]?, g[3]?))
          if keys.eraseDups.length != keys.length then some "duplicate_psm" else
          if k != min r.reportPsms cands.length then some "reported_count" else
          relClause r.openms cands feats

/-! ### chimeric mode (`score_chimera_fast`) -/

/-- the (ion, charge) pairs `remove_matched_peaks` visits for a PSM of peptide `pep` reported with `charge` -/
def fzsOf (r : Req) (pep charge : Nat) : List (FZ Float32) :=
  match (r.raws.map RawPep.toF)[pep]? with
  | none => []
  | some p => fragCharges (r.kinds.map (fun k => (k, Sage.C09.ions constsF k p))) (maxFragmentCharge r.mfcCfg charge)

/-- `score_chimera_fast`, following the implementation's choices: the preliminary hits are computed ONCE on the
    original spectrum; round `i` scores every candidate on the CURRENT spectrum (peaks and TIC left after removing
    the matched peaks of the PSMs of rounds `< i`), reports the best one (`build_features(…, 1, …)`), gives it rank
    `i`, removes its matched peaks and recomputes the TIC. Which of several equally scored candidates a round reports
    is read off the implementation's reply (it must be a best one); everything else is recomputed.
    `useSpec` selects the naive recomputation (linear-scan windows, naive counts) or the code-mirroring model. -/
def judgeChimera (r : Req) (useSpec : Bool) (impl : List String) : Option String :=
  if impl == ["panic"] then some "panic" else
  match impl with
  | [] => some "shape"
  | cnt :: rest =>
    match (cnt.toNat?).bind (fun k => splitFeats k rest) with
    | none => some "shape"
    | some feats =>
      let ranked := (feats.map fun g => (((g[17]?).bind String.toNat?).getD 0, g)).mergeSort (fun a b => a.1 ≤ b.1)
      if ranked.map (·.1) != List.range' 1 ranked.length then some "rank" else
      if ranked.length > r.reportPsms then some "reported_count" else
      let hits := search r
      let tol : Float := if r.openms then 2.0e-6 else 1.0e-9
      let rel (m : Float) : Float := tol * (if absF m < 1.0 then 1.0 else absF m)
      let sel (peaks : List (Peak Float32)) : Float32 → Option (Peak Float32) :=
        if useSpec then (fun mz => let b := tolBounds E32 r.ftol mz; specSelect peaks b.1 b.2)
        else (let arr := peaks.toArray; fun mz => select E32 arr mz r.ftol none)
      let rec go : List (Nat × List String) → List (Peak Float32) → Float32 → Option String
        | [], peaks, tic =>
          -- the loop stops early only when a round reports nothing
          if ranked.length < r.reportPsms && !(computeH { r with peaks := peaks, tic := tic } useSpec hits).isEmpty
          then some "reported_count" else none
        | (_, got) :: more, peaks, tic =>
          let cands := computeH { r with peaks := peaks, tic := tic } useSpec hits
          match findCand cands got with
          | none =>
            if cands.any (fun w => some (toString w.pep) == got[0]? && some (toString w.charge) == got[3]?) then some "isotope_error"
            else if cands.any (fun w => some (toString w.pep) == got[0]? && some (canonF32 w.isotopeError) == got[1]?) then some "charge"
            else some "unknown_candidate"
          | some w =>
            match featClause r w got with
            | some c => some c
            | none =>
              if cands.any (fun c => w.hyperscore + rel w.hyperscore < c.hyperscore) then some "rank_order" else
              match f64Tok got[8]?, f64Tok got[18]?, f64Tok got[19]? with
              | some h, some dn, some db =>
                if db.toBits != (h - h).toBits then some "delta_best" else
                let others := (cands.filter (fun c => !(c.pep == w.pep && c.charge == w.charge && c.iso == w.iso))).map (·.hyperscore)
                let next : Option Float := others.foldl (fun acc x => match acc with
                  | none => some x
                  | some m => some (if m < x then x else m)) none
                let dnBad := match next with
                  | none => dn.toBits != (h - 0.0).toBits
                  | some m => !(absF (dn - (h - m)) ≤ rel m + rel h)
                if dnBad then some "delta_next" else
                let (peaks', tic') := removeMatched E32 (sel peaks) peaks (fzsOf r w.pep w.charge)
                go more peaks' tic'
              | _, _, _ => some "shape"
      go ranked r.peaks r.tic

/-- the model's rendering of the features the implementation reported (in the implementation's order) -/
def renderModel (r : Req) (cands : List (Feat Float32 Float)) (impl : List String) : String :=
  let want := min r.reportPsms cands.length
  let feats : List (List String) := match impl with
    | cnt :: rest => ((cnt.toNat?).bind (fun k => splitFeats k rest)).getD []
    | [] => []
  let body := feats.map fun got =>
    match findCand cands got with
    | none => "unknown-candidate"
    | some w =>
      let mc := missedCleavages ((r.raws.getD w.pep ⟨[], [], none, none, 0⟩).seq)
      " ".intercalate (((featToks r.openms mc w).zip got).map (fun (tk, g) => if tk.1 == 'r' then g else tk.2))
  " ".intercalate (toString want :: body)

def specVerdict (r : Req) (impl : List String) : String :=
  if !r.covered || !r.inDomain then "na" else
  match (if r.chimera then judgeChimera r true impl else judge r (compute r true) impl) with
  | none => "ok"
  | some c => s!"bad:{c}"

def runScore (r : Req) (impl : List String) : Reply :=
  if !r.covered then { model := "uncovered", agree := false, spec := "na" } else
  if r.chimera then
    let j := judgeChimera r false impl
    { model := (match j with | none => "chimera-rounds-agree" | some c => s!"chimera-model-differs:{c}"),
      agree := j.isNone, spec := specVerdict r impl }
  else
  let cands := compute r false
  { model := renderModel r cands impl, agree := (judge r cands impl).isNone, spec := specVerdict r impl }

/-! ### ops -/

def handle (op : String) (args impl : List String) : Option Reply :=
  match op with
  | "c04select" => do
    let (tol, center, off, peaks) ← run (do
      let t ← pTol; let c ← f32; let o ← opt f32; let p ← list pPeak; pure (t, c, o, p)) args
    let out (r : Option (Peak Float32)) : String :=
      match r with
      | none => "0"
      | some p => s!"1 {canonF32 p.mass} {canonF32 p.intensity}"
    let model := out (select E32 peaks.toArray center tol off)
    let b := tolBounds E32 tol center
    let o := off.getD (Float32.ofNat 0)
    let dom := peaks.all (fun p => decide ((0.0 : Float32) ≤ p.intensity) && !p.mass.isNaN)
    let spec : String :=
      if !dom then "na" else
      let want := out (specSelect peaks (b.1 + o) (b.2 + o))
      if words want == impl then "ok"
      else match specSelect peaks (b.1 + o) (b.2 + o), impl with
        | none, _ => "bad:matched_without_peak_in_window"
        | some _, ["0"] => "bad:peak_in_window_not_matched"
        | some _, _ => "bad:not_most_intense"
    pure (exact model (" ".intercalate impl) spec)
  | "score1" => do
    let r ← run pReq args
    pure (runScore r impl)
  | "scoremany" => do
    let (rp, wide, iw, r) ← run (do
      -- mode: bit 0 = wide_window, bit 1 = chimera
      let rp ← nat; let w ← nat; let iw ← opt pTol; let r ← pReq; pure (rp, w, iw, r)) args
    if wide > 3 then none else
    pure (runScore { r with reportPsms := rp, wide := wide % 2 == 1, chimera := wide / 2 == 1, iw := iw } impl)
  | _ => none

end Sage.C04
