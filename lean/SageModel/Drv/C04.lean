import SageModel.Proto
import SageModel.Model.C04
import SageModel.Drv.C09

/-! Driver ops for C04 (arithmetic at `Float32` / `Float`, same operations in the same order as the Rust code).

```
tol      := 0 u32(lo) u32(hi)      (ppm)   |   1 u32(lo) u32(hi)   (Da)
pep      := h:seq [n u32 mod…] opt(u32 nterm) opt(u32 cterm) u32(monoisotopic)        (as in C09)
peak     := u32(mass) u32(intensity)          mass = m/z − PROTON already applied (ProcessedSpectrum<Peak>)

c04select tol u32(center) opt(u32 offset) [n peak…]          |  0 | 1 u32(mass) u32(intensity)

score1 [k kind…] min_ion_index bucket [p pep…]               database (peptides ascending in monoisotopic mass)
       tol(fragment) tol(precursor) opt(max_fragment_charge) min_isotope_err max_isotope_err
       openms annotate min_matched_peaks
       u32(precursor m/z) charge(0 | 1 z | 2 z = annotated + override_precursor_charge) min_precursor_charge max_precursor_charge
       u32(total_ion_current) [n peak…]
   |  [f feature…]   sorted by (peptide index, charge, isotope error)   |  panic
feature  := pep_ix u32(isotope_error) peptide_len charge u32(expmass) u32(calcmass) u32(delta_mass)
            u32(average_ppm) u64(hyperscore) matched_peaks longest_b longest_y u32(longest_y_pct)
            u32(matched_intensity_pct) scored_candidates u64(poisson) u32(ms2_intensity)
            opt([m (kind charge ordinal u32(intensity) u32(mz_calculated) u32(mz_experimental))…])
```

`agree`: exact token equality, except for the two fields downstream of libm calls:
* `hyperscore`: ≤ 4 ulp (f64) for `SageHyperScore` (one `ln` of the intensities + Stirling terms; Lean's
  toolchain ships its own libm). For `OpenMSHyperScore` the code calls `f32::ln_1p`, which core Lean does not
  have; the driver computes `log1p` in f64 and rounds once to f32, so the term may differ by an f32 ulp or two:
  relative difference ≤ 1e-6.
* `poisson`: ≤ 16 ulp, or an absolute difference ≤ 1e-12 (three libm calls, and `log10` of a value that may be
  close to 1, where an ulp of the argument is many ulps of the result).
NaNs are canonicalised on both sides (every NaN prints as the default quiet NaN).

`spec` (on the IMPLEMENTATION's reply): every reported feature is recomputed naively (`specMatches` with the
linear-scan window `specSelect`, `specVals`, `specLongest`, `specHyperscore`, `feature`) and compared field by
field — sums are formed in the order of the property's enumeration (kinds, ion index, charge), which is the
code's order, so they are compared bit-exactly; hyperscore/poisson with the allowances above. `longest_b/y` are
checked against `specLongest` (longest block of consecutive matched indices) when at most one configured kind
feeds the terminus' counter, and against `specLongestSeq` (longest contiguous ladder in the concatenation of the
kinds' index sequences, in configuration order) when several kinds share it.
`na`: a negative or NaN intensity / NaN mass in the spectrum (outside the property's domain: intensities ≥ 0).
-/
namespace Sage.C04
open Sage.Proto
open Sage.C09 (Kind RawPep pRaw f32OfBits constsF)
open Sage.C03 (Tol)

def f64Lit (x : Float) : Float := x

/-- `f32::ln_1p` then `as f64`, via an f64 `log1p` (classical `x·log(u)/(u−1)` form) rounded once to f32 -/
def ln1p32 (x : Float32) : Float :=
  let xd := x.toFloat
  let u := 1.0 + xd
  let r := if u == 1.0 then xd else if (u - 1.0).isInf then Float.log u else Float.log u * xd / (u - 1.0)
  r.toFloat32.toFloat

def E32 : Env Float32 Float :=
  { add := (· + ·), sub := (· - ·), mul := (· * ·), div := (· / ·), abs := Float32.abs, neg := fun x => -x,
    ofNat := Float32.ofNat,
    proton := f32OfBits Sage.Gen.PROTON_bits, neutron := f32OfBits Sage.Gen.NEUTRON_bits,
    cast := Float32.toFloat,
    addD := (· + ·), subD := (· - ·), mulD := (· * ·), divD := (· / ·), negD := fun x => -x,
    ofNatD := Float.ofNat, half := 0.5, pi := 3.14159265358979323846264338327950288, tiny := Float.ofBits 1,
    ln := Float.log, exp := Float.exp, log10 := Float.log10, ln1p := ln1p32,
    isFinite := Float.isFinite, isInf := Float.isInf }

/-! ### parsing -/

def pTol : P (Tol Float32) := do
  let k ← nat
  let lo ← f32
  let hi ← f32
  match k with
  | 0 => pure (.ppm lo hi)
  | 1 => pure (.da lo hi)
  | _ => failure

def pPeak : P (Peak Float32) := do
  let m ← f32
  let i ← f32
  pure { mass := m, intensity := i }

/-! ### canonical output -/

def canonF32 (x : Float32) : String := if x.isNaN then "2143289344" else outF32 x
def canonF64 (x : Float) : String := if x.isNaN then "9221120237041090560" else outF64 x

/-- token with the comparison class: `x` exact, `h` hyperscore (sage), `o` hyperscore (OpenMS), `p` poisson -/
abbrev Tk := Char × String

def kindNat : Kind → Nat
  | .a => 0 | .b => 1 | .c => 2 | .x => 3 | .y => 4 | .z => 5

def annToks (a : Ann Float32) : List Tk :=
  [('x', toString (kindNat a.kind)), ('x', toString a.charge), ('x', toString a.ordinal),
   ('x', canonF32 a.intensity), ('x', canonF32 a.mzCalc), ('x', canonF32 a.mzExp)]

def featToks (openms : Bool) (f : Feat Float32 Float) : List Tk :=
  [('x', toString f.pep), ('x', canonF32 f.isotopeError), ('x', toString f.peptideLen), ('x', toString f.charge),
   ('x', canonF32 f.expmass), ('x', canonF32 f.calcmass), ('x', canonF32 f.deltaMass), ('x', canonF32 f.averagePpm),
   (if openms then 'o' else 'h', canonF64 f.hyperscore),
   ('x', toString f.matchedPeaks), ('x', toString f.longestB), ('x', toString f.longestY),
   ('x', canonF32 f.longestYPct), ('x', canonF32 f.matchedIntensityPct), ('x', toString f.scoredCandidates),
   ('p', canonF64 f.poisson), ('x', canonF32 f.ms2Intensity)] ++
  (match f.ann with
   | none => [('x', "0")]
   | some l => [('x', "1"), ('x', toString l.length)] ++ l.flatMap annToks)

def absF (x : Float) : Float := if x < 0.0 then -x else x

def tokAgree (cls : Char) (m i : String) : Bool :=
  if m == i then true else
  match cls, m.toNat?, i.toNat? with
  | 'h', some a, some b =>
    let x := Float.ofBits a.toUInt64; let y := Float.ofBits b.toUInt64
    !x.isNaN && !y.isNaN && ulpDistF64 x y ≤ 4
  | 'o', some a, some b =>
    let x := Float.ofBits a.toUInt64; let y := Float.ofBits b.toUInt64
    x.isFinite && y.isFinite && absF (x - y) ≤ 1.0e-6 * (if absF x < 1.0 then 1.0 else absF x)
  | 'p', some a, some b =>
    let x := Float.ofBits a.toUInt64; let y := Float.ofBits b.toUInt64
    !x.isNaN && !y.isNaN && (ulpDistF64 x y ≤ 16 || absF (x - y) ≤ 1.0e-12)
  | _, _, _ => false

def toksAgree : List Tk → List String → Bool
  | [], [] => true
  | (c, m) :: ms, i :: is => tokAgree c m i && toksAgree ms is
  | _, _ => false

/-- first position at which two token lists disagree -/
def firstDiff : List Tk → List String → Nat → Option Nat
  | [], [], _ => none
  | (c, m) :: ms, i :: is, k => if tokAgree c m i then firstDiff ms is (k + 1) else some k
  | _, _, k => some k

/-! ### the `score1` computation -/

structure Req where
  kinds : List Kind
  minIdx : Nat
  raws : List RawPep
  ftol : Tol Float32
  ptol : Tol Float32
  mfcCfg : Option Nat
  isoLo : Int
  isoHi : Int
  openms : Bool
  annotate : Bool
  minMatched : Nat
  precMz : Float32
  z : Option Nat
  /-- `override_precursor_charge`: search `min..=max` although the charge is annotated -/
  overrideZ : Bool
  minPc : Nat
  maxPc : Nat
  tic : Float32
  peaks : List (Peak Float32)

def allSomeK : List (Option Kind) → Option (List Kind)
  | [] => some []
  | none :: _ => none
  | some x :: xs => (allSomeK xs).map (x :: ·)

def pReq : P Req := do
  let kindNs ← list nat
  let minIdx ← nat
  let _bucket ← nat
  let raws ← list pRaw
  let ftol ← pTol
  let ptol ← pTol
  let mfcCfg ← opt nat
  let isoLo ← int
  let isoHi ← int
  let openms ← bool
  let annotate ← bool
  let minMatched ← nat
  let precMz ← f32
  -- `0` = not annotated, `1 z` = annotated, `2 z` = annotated and `override_precursor_charge = true`
  let tag ← nat
  let z ← (if tag == 0 then pure none else do let z ← nat; pure (some z))
  let overrideZ := tag == 2
  if tag > 2 then failure
  let minPc ← nat
  let maxPc ← nat
  let tic ← f32
  let peaks ← list pPeak
  match allSomeK (kindNs.map Kind.ofNat?) with
  | none => failure
  | some kinds =>
    pure { kinds, minIdx, raws, ftol, ptol, mfcCfg, isoLo, isoHi, openms, annotate, minMatched, precMz, z, overrideZ, minPc, maxPc, tic, peaks }

/-- the precursor charges `initial_hits` searches: the annotated one (unless overridden), else `min..=max` -/
def Req.charges (r : Req) : List Nat :=
  match r.z, r.overrideZ with
  | some z, false => [z]
  | _, _ => List.range' r.minPc (r.maxPc + 1 - r.minPc)

/-- requests the model covers: well-formed peptides (C09 domain), ascending peptide masses, ascending peak
    masses, no NaN mass, small charges -/
def Req.covered (r : Req) : Bool :=
  r.raws.all (fun p => p.seq.length ≥ 1 && p.mods.length ≥ p.seq.length) &&
  (let ms := r.raws.map (fun p => f32OfBits p.mass)
   (ms.zip (ms.drop 1)).all (fun ab => decide (ab.1 ≤ ab.2))) &&
  (let ms := r.peaks.map (·.mass)
   ms.all (fun m => !m.isNaN) && (ms.zip (ms.drop 1)).all (fun ab => decide (ab.1 ≤ ab.2))) &&
  r.charges.all (fun z => z ≥ 1 && z < 64) && r.maxPc < 64 && (match r.mfcCfg with | some c => c < 64 | none => true) &&
  r.isoLo ≤ r.isoHi && r.isoLo ≥ -8 && r.isoHi ≤ 8

/-- the property's domain: intensities ≥ 0 (and not NaN) -/
def Req.inDomain (r : Req) : Bool :=
  r.peaks.all (fun p => decide ((0.0 : Float32) ≤ p.intensity))

/-- more than one configured kind feeding the b-side (resp. y-side) counter -/
def Req.multiN (r : Req) : Bool := (r.kinds.filter (·.isN)).length > 1
def Req.multiC (r : Req) : Bool := (r.kinds.filter (fun k => !k.isN)).length > 1

/-- `useSpec = false`: the model (code-mirroring loop, binary search, `Run`);
    `useSpec = true`: the naive recomputation -/
def compute (r : Req) (useSpec : Bool) : List (Feat Float32 Float) :=
  let peps := r.raws.map RawPep.toF
  let mz := r.precMz - E32.proton
  let fragsOf (i : Nat) : List Float32 :=
    match peps[i]? with
    | none => []
    | some p => (Sage.C09.pepFragments constsF r.kinds r.minIdx i p).map (·.2)
  let pres := r.charges.flatMap fun z =>
    prelim E32 r.ftol r.ptol r.peaks z (maxFragmentCharge r.mfcCfg z) (mz * Float32.ofNat z)
      (isotopes r.isoLo r.isoHi) (peps.map (·.mass)) fragsOf
  let total := (pres.map (·.matched)).sum
  let nScored := pres.length
  let peakArr := r.peaks.toArray
  -- the harness sorts the features by (peptide index, isotope error)
  let pres := pres.mergeSort (fun a b => a.pep < b.pep || (a.pep == b.pep &&
    (a.charge < b.charge || (a.charge == b.charge && a.iso ≤ b.iso))))
  pres.filterMap fun pre =>
    match peps[pre.pep]? with
    | none => none
    | some p =>
      let n := p.residues.length
      let mfc := maxFragmentCharge r.mfcCfg pre.charge
      let series := r.kinds.map (fun k => (k, Sage.C09.ions constsF k p))
      let fzs := fragCharges series mfc
      let s : Scored Float32 Float :=
        if useSpec then
          let sel := fun (mz : Float32) =>
            let b := tolBounds E32 r.ftol mz
            specSelect r.peaks b.1 b.2
          let v : SpecVals Float32 Float := specVals E32 n (specMatches E32 sel fzs)
          { matchedB := v.nb, matchedY := v.ny, summedB := v.ib, summedY := v.iy,
            -- one kind per terminus: the longest block of consecutive matched indices (`longest_spec`);
            -- several kinds sharing the counter: the longest contiguous ladder of the concatenated sequence
            -- (`longest_seq_spec`; the two coincide on ascending sequences, `run_spec_exec`/`run_seq_spec`)
            longestB := if r.multiN then specLongestSeq v.idxB else specLongest v.idxB,
            longestY := if r.multiC then specLongestSeq v.idxY else specLongest v.idxY,
            hyperscore := if r.openms then scoreOf E32 true v.nb v.ny v.ib v.iy else specHyperscore E32 v.nb v.ny v.ib v.iy,
            ppm := v.ppmNum / (v.ib + v.iy),
            ann := if r.annotate then some v.rows else none }
        else
          scoreCandidate E32 (fun mz => select E32 peakArr mz r.ftol none) series n mfc r.openms r.annotate
      if s.matchedB + s.matchedY ≥ r.minMatched then
        some (feature E32 pre s n r.precMz p.mass r.tic total nScored)
      else none

def renderFeats (openms : Bool) (fs : List (Feat Float32 Float)) : List Tk :=
  ('x', toString fs.length) :: fs.flatMap (featToks openms)

def tkString (l : List Tk) : String := " ".intercalate (l.map (·.2))

/-! ### spec verdict on the implementation's features -/

/-- split the implementation's reply into per-feature token lists (using the known layout) -/
def splitFeat (toks : List String) : Option (List String × List String) :=
  -- 17 fixed tokens, then `0` or `1 m (6 tokens)×m`
  if toks.length < 18 then none else
  let fixed := toks.take 17
  let rest := toks.drop 17
  match rest with
  | "0" :: tl => some (fixed ++ ["0"], tl)
  | "1" :: m :: tl =>
    match m.toNat? with
    | some k => if tl.length < 6 * k then none else some (fixed ++ ["1", m] ++ tl.take (6 * k), tl.drop (6 * k))
    | none => none
  | _ => none

def splitFeats : Nat → List String → Option (List (List String))
  | 0, [] => some []
  | 0, _ => none
  | k+1, toks => do
    let (f, rest) ← splitFeat toks
    let fs ← splitFeats k rest
    pure (f :: fs)

def fieldNames : List String :=
  ["peptide_idx", "isotope_error", "peptide_len", "charge", "expmass", "calcmass", "delta_mass", "average_ppm",
   "hyperscore", "matched_peaks", "longest_b", "longest_y", "longest_y_pct", "matched_intensity_pct",
   "scored_candidates", "poisson", "ms2_intensity"]

/-- compare one implementation feature (tokens) with the spec's feature; name of the first bad clause -/
def featClause (r : Req) (want : Feat Float32 Float) (got : List String) : Option String :=
  let wt := featToks r.openms want
  let skip (_name : String) : Bool := false
  let rec go : List Tk → List String → Nat → Option String
    | [], [], _ => none
    | (c, m) :: ms, i :: is, k =>
      let name := fieldNames.getD k "fragments"
      if skip name || tokAgree c m i then go ms is (k + 1) else some name
    | _, _, _ => some "fragments"
  go wt got 0

def specVerdict (r : Req) (impl : List String) : String :=
  if !r.covered || !r.inDomain then "na" else
  if impl == ["panic"] then "bad:panic" else
  match impl with
  | [] => "bad:shape"
  | cnt :: rest =>
    match cnt.toNat? with
    | none => "bad:shape"
    | some k =>
      match splitFeats k rest with
      | none => "bad:shape"
      | some feats =>
        let wants := compute r true
        -- every reported feature must be one the definition yields, with the definition's values
        let bad := feats.findSome? fun got =>
          match wants.find? (fun w => some (toString w.pep) == got[0]? && some (canonF32 w.isotopeError) == got[1]? &&
              some (toString w.charge) == got[3]?) with
          | none => some "unknown_candidate"
          | some w => featClause r w got
        match bad with
        | some c => s!"bad:{c}"
        | none => "ok"

/-! ### `c04select` -/

def handle (op : String) (args impl : List String) : Option Reply :=
  match op with
  | "c04select" => do
    let (tol, center, off, peaks) ← run (do
      let t ← pTol; let c ← f32; let o ← opt f32; let p ← list pPeak; pure (t, c, o, p)) args
    let out (r : Option (Peak Float32)) : String :=
      match r with
      | none => "0"
      | some p => s!"1 {canonF32 p.mass} {canonF32 p.intensity}"
    let model := out (select E32 peaks.toArray center tol off)
    let b := tolBounds E32 tol center
    let o := off.getD (Float32.ofNat 0)
    let dom := peaks.all (fun p => decide ((0.0 : Float32) ≤ p.intensity) && !p.mass.isNaN)
    let spec : String :=
      if !dom then "na" else
      let want := out (specSelect peaks (b.1 + o) (b.2 + o))
      if words want == impl then "ok"
      else match specSelect peaks (b.1 + o) (b.2 + o), impl with
        | none, _ => "bad:matched_without_peak_in_window"
        | some _, ["0"] => "bad:peak_in_window_not_matched"
        | some _, _ => "bad:not_most_intense"
    pure (exact model (" ".intercalate impl) spec)
  | "score1" => do
    let r ← run pReq args
    if !r.covered then
      pure { model := "uncovered", agree := false, spec := "na" }
    else
    let m := renderFeats r.openms (compute r false)
    let agree := toksAgree m impl
    pure { model := tkString m, agree := agree, spec := specVerdict r impl }
  | _ => none

end Sage.C04
