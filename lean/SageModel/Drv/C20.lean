import SageModel.Proto
import SageModel.Model.C20

/-! Driver ops for C20.

```
align n_files [n (file pep label q:f32 rt:f32 charge rank)…]
    | [n_files (max_rt:f32 slope:f32 intercept:f32)…] [n aligned_rt:f32…]          (or `panic`)
rtpredict  [np seq…] [n (pep label q:f32 aligned_rt:f32)…]
    | 1 [n (r:f64 predicted:f32 delta:f32)…]   or   0 [n (predicted:f32 delta:f32)…]
imspredict [np seq…] [n (pep label q:f32 charge ims:f32)…]            (same reply shape)
```

## `align`: how `agree` is decided

`max_rt` is compared bit-exactly. `slope`/`intercept` are sums over the rows of the RT matrix, which the
code visits in `DashMap` iteration order (not fixed; the model uses first-occurrence order), so they
are compared within a **forward error bound of the f64 computation** (`fitErr`, derived from the
standard bound `|fl(Σ tᵢ) − Σ tᵢ| ≤ (n−1)·u·Σ|tᵢ|`, `u = 2⁻⁵³`, propagated through
`x̄, ȳ, ssxy, sx2, slope, intercept`), times 4, plus one f32 ulp for the final `as f32`. This is a bound,
not a tuned tolerance: for well-conditioned files it is ~10⁻¹⁴ relative, i.e. the f32 values must
agree to the last ulp. Finiteness classes (finite / NaN / ±∞) and the fallback values `1.0` / `0.0`
are compared exactly. `aligned_rt` is compared with the model's value within the bound propagated
through `(rt/max_rt)*slope+intercept`, AND (spec clause `aligned_ne_affine`) bit-exactly with that
f32 expression evaluated on the implementation's own parameters.

## spec clauses on the implementation's reply (`bad:<clause>`)

`panic` (valid input), `shape`, `nonfinite_param`, `max_rt_nonpositive`, `scale`, `aligned_ne_affine`,
`nonfinite_aligned`, `not_monotone`, `own_file_slope_out_of_range`, `not_equivariant`;
for the predict ops `nonfinite_prediction`, `predicted_out_of_range`, `delta_ne_abs_diff`,
`nonfinite_delta`, `touched_without_fit`.
-/
namespace Sage.C20
open Sage.Proto FloatLike

/-! ### constants of the code -/
def thr32 : Float32 := 0.01          -- `feat.spectrum_q <= 0.01`
def epsF : Float := 1e-8             -- `fold(1E-8f64, …)`
def epsQ : Rat := (ratOfF64Bits epsF.toBits.toNat).getD 0

def narrowF (x : Float) : Float := x.toFloat32.toFloat
def ceilF (x : Float) : Nat := x.toFloat32.ceil.toUInt32.toNat     -- `rt.ceil() as u32` (x is an f32 value)
def ceilQ (x : Rat) : Nat := min (Rat.ceil x).toNat (2^32 - 1)

def sameBits32 (a b : Float32) : Bool := a.toBits == b.toBits || (a.isNaN && b.isNaN)

/-! ### forward error bound of `fit` at f64 (see header) -/

def u53 : Float := Float.ofBits 0x3CA0000000000000   -- 2⁻⁵³

/-- bounds on `|computed − exact|` for `(slope, intercept)` of `fit ε pts`, any summation order -/
def fitErr (ε : Float) (pts : List (Float × Float)) : Float × Float :=
  if pts.isEmpty then (0, 0) else
  let n := pts.length.toFloat
  let u := u53
  let sA := sumFrom 0 (pts.map fun p => (p.1 * p.2).abs)
  let sBx := sumFrom 0 (pts.map fun p => p.1.abs)
  let sBy := sumFrom 0 (pts.map fun p => p.2.abs)
  let sx := sumFrom 0 (pts.map (·.1))
  let sy := sumFrom 0 (pts.map (·.2))
  let dot := sumFrom 0 (pts.map fun p => p.1 * p.2)
  let xm := sx / n
  let ym := sy / n
  let eDot := (n + 2) * u * sA
  let eXm := (n + 1) * u * sBx / n + u * xm.abs
  let eYm := (n + 1) * u * sBy / n + u * ym.abs
  let t := n * xm * ym
  let eT := n * (ym.abs * eXm + xm.abs * eYm + eXm * eYm) + 2 * u * t.abs
  let ssxy := dot - t
  let eSs := eDot + eT + u * ssxy.abs
  let d1 := sumFrom 0 (pts.map fun p => (p.1 - xm).abs)
  let d2 := sumFrom 0 (pts.map fun p => (p.1 - xm) * (p.1 - xm))
  let sx2 := ε + d2
  let eSx2 := 2 * eXm * d1 + n * eXm * eXm + 4 * u * d2 + (n + 2) * u * sx2
  let slope := ssxy / sx2
  let den := sx2 - eSx2
  if !(den > 0) then (1e300, 1e300) else
  let eSl := (eSs + slope.abs * eSx2) / den + u * slope.abs
  let eIn := eYm + slope.abs * eXm + xm.abs * eSl + eSl * eXm + 2 * u * (ym.abs + (slope * xm).abs)
  (eSl, eIn)

def ulp32 (v : Float) : Float :=
  let a := v.abs * Float.ofBits 0x3E80000000000000      -- 2⁻²³
  let m := Float.ofBits 0x36A0000000000000              -- 2⁻¹⁴⁹
  if a < m then m else a

/-- same finiteness class, and finite values within `tol` -/
def close32 (m i : Float32) (tol : Float) : Bool :=
  if m.isFinite && i.isFinite then decide ((m.toFloat - i.toFloat).abs ≤ tol)
  else sameBits32 m i

/-! ### `align` -/

abbrev RawFeat := Nat × Nat × Int × Float32 × Float32

def parseAlign : P (Nat × List RawFeat) := do
  let nf ← nat
  let fs ← list (do
    let f ← nat; let p ← nat; let l ← int; let q ← f32; let rt ← f32
    -- precursor charge and rank: present in the request, deliberately NOT part of the model's input
    -- (the anchor table is keyed by the peptide; charge, rank, psm_id, masses, scores must not matter)
    let _charge ← nat; let _rank ← nat
    pure (f, p, l, q, rt))
  pure (nf, fs)

def parseAlignReply : P (List (Float32 × Float32 × Float32) × List Float32) := do
  let al ← list (do let a ← f32; let b ← f32; let c ← f32; pure (a, b, c))
  let v ← list f32
  pure (al, v)

def renderAlign (al : List (Float32 × Float32 × Float32)) (v : List Float32) : String :=
  outList (fun a => s!"{outF32 a.1} {outF32 a.2.1} {outF32 a.2.2}") al ++ " " ++ outList outF32 v

def ratOf32 (x : Float32) : Option Rat := ratOfF32Bits x.toBits.toNat
def ratOf64 (x : Float) : Rat := (ratOfF64Bits x.toBits.toNat).getD (dyadic 1 0 * 10^300)

/-- `not_monotone`, evaluated per file on the RT-sorted PSMs (adjacent pairs; equal RTs must get equal
    values) — equivalent to the O(n²) `specMonotone` on NaN-free values, which is used when n ≤ 48 -/
def monotoneSorted (nFiles : Nat) (fs : List (Feat Float32)) (al : List (Float32 × Float32 × Float32))
    (aligned : List Float32) : Bool :=
  (List.range nFiles).all fun f =>
    match al[f]? with
    | none => false
    | some a =>
      if !(decide ((0 : Float32) ≤ a.2.1)) then true else
      let pts := ((fs.zip aligned).filter fun (x, _) => x.file == f && x.rt.isFinite).map fun (x, v) => (x.rt, v)
      let sorted := pts.mergeSort (fun p q => decide (p.1 ≤ q.1))
      (sorted.zip (sorted.drop 1)).all fun (p, q) =>
        decide (p.2 ≤ q.2) && (!(p.1 == q.1) || decide (q.2 ≤ p.2))

def handleAlign (args impl : List String) : Option Reply := do
  let (nFiles, raw) ← run parseAlign args
  let implText := " ".intercalate impl
  let feats : List (Feat Float) := raw.map fun (f, p, l, q, rt) => ⟨f, p, l, q.toFloat, rt.toFloat⟩
  let fs32 : List (Feat Float32) := raw.map fun (f, p, l, q, rt) => ⟨f, p, l, q, rt⟩
  match globalAlignment narrowF ceilF thr32.toFloat epsF feats nFiles with
  | none =>
    -- `file_id ≥ n_files`: the code indexes out of bounds; outside the property's domain
    pure (exact "panic" implText "na")
  | some alM =>
    let rows := rtRows ceilF thr32.toFloat feats nFiles
    let errs : List (Float × Float) := (List.range nFiles).map fun f => fitErr epsF (pairs rows f)
    let alM32 : List (Float32 × Float32 × Float32) :=
      alM.map fun a => (Float32.ofNat a.1, a.2.1.toFloat32, a.2.2.toFloat32)
    let alignedOf (al : List (Float32 × Float32 × Float32)) : List Float32 := fs32.map fun x =>
      match al[x.file]? with
      | some a => alignedRt x.rt a.1 a.2.1 a.2.2
      | none => Float32.ofBits 0x7fc00000
    let vM := alignedOf alM32
    let model := renderAlign alM32 vM
    match run parseAlignReply impl with
    | none =>
      let spec := if impl == ["panic"] then "bad:panic" else "bad:shape"
      pure { model := model, agree := false, spec := spec }
    | some (alI, vI) =>
      if alI.length != nFiles || vI.length != raw.length then
        pure { model := model, agree := false, spec := "bad:shape" }
      else
      -- per-file tolerances for slope / intercept
      let tols : List (Float × Float) := (alM32.zip errs).map fun (a, e) =>
        (4 * e.1 + ulp32 a.2.1.toFloat, 4 * e.2 + ulp32 a.2.2.toFloat)
      let paramsAgree := ((alM32.zip alI).zip tols).all fun ((m, i), t) =>
        sameBits32 m.1 i.1 && close32 m.2.1 i.2.1 t.1 && close32 m.2.2 i.2.2 t.2
      let alignedAgree := ((fs32.zip (vM.zip vI))).all fun (x, (m, i)) =>
        match alM32[x.file]?, tols[x.file]? with
        | some a, some t =>
          let xn := (x.rt / a.1).toFloat
          let tol := xn.abs * t.1 + t.2
            + 4 * ulp32 (max (max (xn * a.2.1.toFloat).abs a.2.2.toFloat.abs) m.toFloat.abs)
          close32 m i tol
        | _, _ => false
      let agree := paramsAgree && alignedAgree
      -- ---------------------------------------------------------------- spec on the impl's reply
      let spec : String :=
        if !specParamsFinite alI then "bad:nonfinite_param"
        else if !specMaxPos alI then "bad:max_rt_nonpositive"
        else if !specScale fs32 alI then "bad:scale"
        else if !specAffine sameBits32 fs32 alI vI then "bad:aligned_ne_affine"
        else if !specAlignedFinite fs32 vI then "bad:nonfinite_aligned"
        else if !(if raw.length ≤ 48 then specMonotone fs32 alI vI else monotoneSorted nFiles fs32 alI vI)
          then "bad:not_monotone"
        else
        -- exact-arithmetic clauses (only when every q and rt is finite)
        let featsQ? : Option (List (Feat Rat)) := raw.mapM fun (f, p, l, q, rt) => do
          let q' ← ratOf32 q; let rt' ← ratOf32 rt; pure (⟨f, p, l, q', rt'⟩ : Feat Rat)
        match featsQ?, ratOf32 thr32, alI.mapM (fun a => do
            let m ← ratOf32 a.1; let s ← ratOf32 a.2.1; let i ← ratOf32 a.2.2; pure (m, s, i)) with
        | some featsQ, some thrQ, some alQ =>
          let rowsQ := rtRows ceilQ thrQ featsQ nFiles
          let errQ : List (Rat × Rat) := errs.map fun e => (ratOf64 e.1, ratOf64 e.2)
          -- own file: regression of x on itself, slope = Sxx/(Sxx+ε) ∈ [0, 1]
          let ownBad := (List.range nFiles).any fun f =>
            ownFile rowsQ f &&
            match alQ[f]?, errQ[f]? with
            | some a, some e =>
              let tol := 4 * e.1 + absQ a.2.1 * dyadic 1 22 + dyadic 1 149
              !(decide (-tol ≤ a.2.1) && decide (a.2.1 ≤ 1 + tol))
            | _, _ => true
          if ownBad then "bad:own_file_slope_out_of_range" else
          let eqBad := (List.range nFiles).any fun f => (List.range nFiles).any fun g =>
            f < g &&
            match alQ[f]?, alQ[g]?, errQ[f]?, errQ[g]? with
            | some a, some b, some ea, some eb =>
              let allow (x x' : Rat) : Rat :=
                4 * (absQ x * ea.1 + ea.2 + absQ x' * eb.1 + eb.2)
                + dyadic 1 22 * (absQ (a.2.1 * x) + absQ a.2.2 + absQ (b.2.1 * x') + absQ b.2.2)
                + dyadic 1 140
              !specEquivariantPair epsQ rowsQ f g (a.2.1, a.2.2) (b.2.1, b.2.2) allow
            | _, _, _, _ => true
          if eqBad then "bad:not_equivariant" else "ok"
        | _, _, _ => "ok"   -- a non-finite q / rt in the input: the exact-arithmetic clauses do not apply
      pure { model := model, agree := agree, spec := spec }

/-! ### `rtpredict` / `imspredict` -/

def handlePredict (ims : Bool) (args impl : List String) (naturalQ : Bool := false) : Option Reply := do
  let parseReq : P (List (Float32)) := do
    let _ ← list bytes
    list (do
      let _ ← nat; let _ ← int
      if !naturalQ then let _ ← f32
      if ims || naturalQ then let _ ← nat
      let obs ← f32
      pure obs)
  let obs ← run parseReq args
  let hi : Float := if ims then 2.0 else 1.0
  let implText := " ".intercalate impl
  match impl with
  | "1" :: rest =>
    match run (list (do let r ← f64; let p ← f32; let d ← f32; pure (r, p, d))) rest with
    | none => pure { model := "unparsed", agree := false, spec := "bad:shape" }
    | some rows =>
      if rows.length != obs.length then pure { model := "shape", agree := false, spec := "bad:shape" } else
      -- the model takes the raw regression output `r` from the reply (the fit itself is C15's subject)
      let outs := (rows.zip obs).map fun ((r, _, _), o) =>
        (r, predictOut Float.toFloat32 Float32.abs 0.0 hi r o)
      let model := "1 " ++ outList (fun (t : Float × Float32 × Float32) =>
        s!"{outF64 t.1} {outF32 t.2.1} {outF32 t.2.2}") outs
      let bad := (rows.zip obs).filterMap fun ((_, p, d), o) =>
        specPredict sameBits32 Float32.abs (0.0 : Float32) hi.toFloat32 o p d
      let spec := match bad with
        | [] => "ok"
        | c :: _ => "bad:" ++ c
      pure (exact model implText spec)
  | "0" :: rest =>
    match run (list (do let p ← f32; let d ← f32; pure (p, d))) rest with
    | none => pure { model := "unparsed", agree := false, spec := "bad:shape" }
    | some rows =>
      -- fit failed: `predict` returns before touching any feature (harness initialises both to 0.0)
      let model := "0 " ++ outList (fun (_ : Float32) => "0 0") obs
      let spec := if rows.all (fun (p, d) => p.toBits == 0 && d.toBits == 0) && rows.length == obs.length
        then "ok" else "bad:touched_without_fit"
      pure (exact model implText spec)
  | _ =>
    pure { model := "?", agree := false, spec := if impl == ["panic"] then "bad:panic" else "bad:shape" }

/-! ### `predpools` / `chainpools`: the same computation under rayon pools of 1, 2, 4, 16 threads

Bound for `predpools` (derived from the f64 sum sizes): in `RetentionModel::fit` / `MobilityModel::fit`
every floating-point reduction — `rt.iter().sum()`, the variance, each cell of `Matrix::dot`
(`fold(0.0, |acc,(x,y)| acc + x*y)` over a row/column), the squared error, `predict_peptide`'s fold — is
a *sequential* fold; the only parallel constructs are order-preserving `collect`s and a per-cell /
per-feature `map`. The number of terms whose order can depend on the pool is therefore 0 and the
summation-error bound `(k−1)·u·Σ|tᵢ|` over the reorderable terms is 0: replies must be bit-identical.
A difference is reported as `bad:thread_dependent_prediction@r=<max ulp64>,pred=<max ulp32>`. -/

def splitBlocks (k : Nat) (toks : List String) : Option (List (List String)) :=
  if k == 0 then (if toks.isEmpty then some [] else none) else
  if toks.length % k != 0 then none else
  let m := toks.length / k
  some ((List.range k).map fun i => (toks.drop (i * m)).take m)

def handlePools (chain : Bool) (impl : List String) : Option Reply :=
  match impl with
  | ["panic"] => some { model := "pool-independent", agree := false, spec := "bad:panic" }
  | kTok :: rest =>
    match kTok.toNat?, (kTok.toNat?).bind (fun k => splitBlocks k rest) with
    | some _, some (b0 :: bs) =>
      let same := bs.all (· == b0)
      let model := " ".intercalate (kTok :: (b0 :: bs).flatMap (fun _ => b0))
      if same then some { model := model, agree := true, spec := "ok" } else
      -- measure the disagreement: tokens are bit patterns; compare position-wise with block 0
      let dist (a b : String) : Nat :=
        match a.toNat?, b.toNat? with
        | some x, some y =>
          if x < 2^32 && y < 2^32 then ulpDistF32 (Float32.ofBits x.toUInt32) (Float32.ofBits y.toUInt32)
          else ulpDistF64 (Float.ofBits x.toUInt64) (Float.ofBits y.toUInt64)
        | _, _ => 0
      let worst := bs.foldl (fun w b => (b0.zip b).foldl (fun w (x, y) => max w (dist x y)) w) 0
      if chain then
        -- observational: alignment sums follow DashMap order, which depends on the schedule
        some { model := model ++ s!" # pool-dependent, max ulp distance {worst}", agree := true, spec := "na" }
      else
        some { model := model, agree := false, spec := s!"bad:thread_dependent_prediction@maxulp={worst}" }
    | _, _ => some { model := "pool-independent", agree := false, spec := "bad:shape" }
  | [] => some { model := "pool-independent", agree := false, spec := "bad:shape" }

/-! ### `trainset`: which PSMs the regression is trained on

The training set of `RetentionModel::fit` / `MobilityModel::fit` is, by definition, the PSMs with
`label == 1 && spectrum_q <= 0.01` (`confident`, the same predicate as the alignment's). The harness
fits twice, the second time with the observed value of the masked PSMs shifted by `delta`:
* if no masked PSM is in the training set, the two fits get identical inputs: every raw prediction
  must be bit-identical (and the fit flags equal);
* if a masked PSM is in the training set, `β` changes by `(XᵀX+εI)⁻¹·xᵢ·δ ≠ 0` and that PSM's own
  prediction moves by `xᵢᵀ(XᵀX+εI)⁻¹xᵢ·δ > 0`: some raw prediction must differ.
Either failure is `bad:training_set_ne_definition`. Whether a model can be fitted at all is decided by
`Gauss::solve` on the design matrix only (`left_solved` reads `left`; the elimination never branches on
the right-hand side), so the two fit flags must be equal however the observed values were perturbed:
`bad:fit_outcome_depends_on_observed_values` otherwise. -/

def handleTrainset (args impl : List String) : Option Reply := do
  let parseReq : P (List (Int × Float32 × Bool)) := do
    let _ ← nat; let _ ← f32
    let _ ← list bytes
    list (do
      let _ ← nat; let l ← int; let q ← f32; let _ ← nat; let _ ← f32; let m ← bool
      pure (l, q, m))
  let fs ← run parseReq args
  let inTraining (t : Int × Float32 × Bool) : Bool :=
    confident thr32 (⟨0, 0, t.1, t.2.1, t.2.1⟩ : Feat Float32)
  let maskedTraining := fs.any fun t => t.2.2 && inTraining t
  match impl with
  | ["panic"] => pure { model := "relational", agree := false, spec := "bad:panic" }
  | _ =>
    match run (do let a ← bool; let b ← bool; let rs ← list (do let x ← nat; let y ← nat; pure (x, y)); pure (a, b, rs)) impl with
    | none => pure { model := "relational", agree := false, spec := "bad:shape" }
    | some (fa, fb, rs) =>
      if rs.length != fs.length then pure { model := "relational", agree := false, spec := "bad:shape" } else
      let same := rs.all fun (x, y) => x == y
      let spec :=
        if !maskedTraining then
          if fa == fb && same then "ok" else "bad:training_set_ne_definition"
        else if fa != fb then
          -- `Gauss::solve` succeeds or fails on the design matrix alone (`left_solved` reads `left` only)
          "bad:fit_outcome_depends_on_observed_values"
        else if fa && fb then
          if same then "bad:training_set_ne_definition" else "ok"
        else "na"
      pure { model := s!"relational masked_training={outBool maskedTraining}", agree := true, spec := spec }

/-! ### `alignbig`: large anchor tables, generated on both sides from the request's integers

`alignbig seed n a b8 half tmax`: 2 files × `n` peptides. Peptide `p` has profile time `k_p/8`
(`bigK`, the same integer formula as the harness' `big_k`); file 0: `rt = k_p/8`, every peptide
confident; file 1: `rt = (a·k_p + b8)/8`, confident for every `p` (`half = 0`) or every even `p`.
Hence `max_rt₀ = tmax` (k₀ = 8·tmax is the maximum), `max_rt₁ = a·tmax + ⌈b8/8⌉`, every row has an
entry for file 0, and the per-file regression is evaluated by the closed form of
`n, Σx, Σy, Σxy, Σx²` (theorem `fit_closed_form`) in exact rational arithmetic: one O(n) pass
accumulating integer numerators over the common denominators `D₀ = 8·max_rt₀`, `D₁ = 8·max_rt₁`,
`2·D₀·D₁` (for `y`). Inputs are exactly representable (eighths below 2¹⁵), so the only difference
to the code is f64 rounding, bounded as for `align` (`(n+2)·u·Σ|t|` propagated, all `x, y ∈ [0,1]`
so `Σ|·| ≤ n`; ×4; plus one f32 ulp). Spec clauses: `nonfinite_param`, `max_rt_nonpositive`,
`scale`, `aligned_ne_affine` (32 sampled PSMs, bit-exact), `nonfinite_aligned` (harness count),
`diagonal_fit_ne_closed_form` (theorem `diag_fit_eq`: all anchors of a file on `y = x` ⇒
`slope = Sxx/(ε+Sxx)`, `intercept = x̄(1−slope)`), `not_equivariant` (theorem `diag_fit_dev`: two such
files send equal normalised RTs to aligned times within `ε(|x−x̄_f|/Sxx_f + |x−x̄_g|/Sxx_g)` + allowance,
although their peptide sets differ). -/

def bigK (seed tmax p : Nat) : Nat :=
  if p == 0 then 8 * tmax else 8 + (p * 2654435761 + seed * 40503) % (8 * tmax - 8)

/-- integer sums of one pass: file 0 over all p, file 1 over its confident p -/
structure BigSums where
  sx0 : Nat := 0
  sy0 : Nat := 0
  sxy0 : Nat := 0
  sxx0 : Nat := 0
  n1 : Nat := 0
  sx1 : Nat := 0
  sy1 : Nat := 0
  sxy1 : Nat := 0
  sxx1 : Nat := 0
  diag : Bool := true     -- every shared anchor has x₁ = x₀ (then y = x in both files)
  lo1 : Nat := 0          -- min / max numerator of file 1's confident x₁ (for the equivariance clause)
  hi1 : Nat := 0

def bigSums (seed n a b8 : Nat) (half : Bool) (tmax d0 d1 : Nat) : BigSums :=
  Nat.fold n (fun p _ acc =>
    let k := bigK seed tmax p
    let x0 := k
    let x1 := a * k + b8
    let shared := !half || p % 2 == 0
    -- y over the denominator 2·d0·d1
    let yn := if shared then x0 * d1 + x1 * d0 else 2 * x0 * d1
    let acc := { acc with sx0 := acc.sx0 + x0, sy0 := acc.sy0 + yn, sxy0 := acc.sxy0 + x0 * yn,
                          sxx0 := acc.sxx0 + x0 * x0 }
    if shared then
      { acc with n1 := acc.n1 + 1, sx1 := acc.sx1 + x1, sy1 := acc.sy1 + yn, sxy1 := acc.sxy1 + x1 * yn,
                 sxx1 := acc.sxx1 + x1 * x1, diag := acc.diag && x1 * d0 == x0 * d1,
                 lo1 := if acc.n1 == 0 then x1 else min acc.lo1 x1, hi1 := max acc.hi1 x1 }
    else acc) {}

/-- closed form (`fit_closed_form`) from exact sums; also returns `x̄` and the centred `Sxx` -/
def closedFit (ε n sx sy sxy sxx : Rat) : Rat × Rat × Rat × Rat :=
  let c := sxx - sx * sx / n
  let slope := (sxy - sx * sy / n) / (ε + c)
  (slope, sy / n - slope * (sx / n), sx / n, c)

/-- `|computed − exact|` bounds for slope / intercept at f64, any summation order, all data in [0,1] -/
def bigErr (ε : Rat) (n : Nat) (slope xm ym c : Rat) : Rat × Rat :=
  let u : Rat := dyadic 1 53
  let nn : Rat := n
  let eXm := (nn + 1) * u + u
  let eDot := (nn + 2) * u * nn
  let eT := nn * (2 * eXm + eXm * eXm) + 2 * u * nn
  let eSs := eDot + eT + u * nn
  let sx2 := ε + c
  let eSx2 := 2 * eXm * nn + nn * eXm * eXm + 4 * u * nn + (nn + 2) * u * (sx2 + 1)
  let den := sx2 - eSx2
  if den ≤ 0 then (1, 1) else
  let eSl := (eSs + absQ slope * eSx2) / den + u * absQ slope
  let eIn := eXm + absQ slope * eXm + absQ xm * eSl + eSl * eXm + 2 * u * (absQ ym + absQ (slope * xm))
  (eSl, eIn)

def ratToF32 (q : Rat) : Float32 :=
  let nb := q.num.natAbs.log2
  let db := q.den.log2
  let sh := (max nb db) - 900
  let v := Float.ofNat (q.num.natAbs >>> sh) / Float.ofNat (max 1 (q.den >>> sh))
  (if q.num < 0 then -v else v).toFloat32

def handleAlignBig (args impl : List String) : Option Reply := do
  let (seed, n, a, b8, half, tmax) ← run (do
    let s ← nat; let n ← nat; let a ← nat; let b ← nat; let h ← bool; let t ← nat
    pure (s, n, a, b, h, t)) args
  if n == 0 || n > 2^20 || seed ≥ 2^31 || tmax < 2 || tmax > 4096 || a == 0 || a > 8 || b8 > 4096 then none else
  let m0 := tmax
  let m1 := a * tmax + (b8 + 7) / 8
  let d0 := 8 * m0
  let d1 := 8 * m1
  let S := bigSums seed n a b8 half tmax d0 d1
  let dy : Rat := (2 * d0 * d1 : Nat)
  let q (x : Nat) (d : Rat) : Rat := (x : Rat) / d
  let (s0, i0, xm0, c0) := closedFit epsQ n (q S.sx0 d0) (q S.sy0 dy) (q S.sxy0 (d0 * dy)) (q S.sxx0 ((d0 * d0 : Nat) : Rat))
  let (s1, i1, xm1, c1) := closedFit epsQ S.n1 (q S.sx1 d1) (q S.sy1 dy) (q S.sxy1 (d1 * dy)) (q S.sxx1 ((d1 * d1 : Nat) : Rat))
  let e0 := bigErr epsQ n s0 xm0 (q S.sy0 dy / n) c0
  let e1 := bigErr epsQ S.n1 s1 xm1 (q S.sy1 dy / S.n1) c1
  let model := s!"2 {outF32 (Float32.ofNat m0)} {outF32 (ratToF32 s0)} {outF32 (ratToF32 i0)} " ++
    s!"{outF32 (Float32.ofNat m1)} {outF32 (ratToF32 s1)} {outF32 (ratToF32 i1)}"
  match impl with
  | ["panic"] => pure { model := model, agree := false, spec := "bad:panic" }
  | _ =>
  match run (do
      let al ← list (do let x ← f32; let y ← f32; let z ← f32; pure (x, y, z))
      let v ← list f32
      let bad ← nat
      pure (al, v, bad)) impl with
  | none => pure { model := model, agree := false, spec := "bad:shape" }
  | some (al, v, nonfinite) =>
    match al, al.mapM (fun t => do let x ← ratOf32 t.1; let y ← ratOf32 t.2.1; let z ← ratOf32 t.2.2; pure (x, y, z)) with
    | [p0, p1], some [(M0, S0, I0), (M1, S1, I1)] =>
      if v.length != 32 then pure { model := model, agree := false, spec := "bad:shape" } else
      let tolOf (e v : Rat) : Rat := 4 * e + absQ v * dyadic 1 23 + dyadic 1 149
      let close (x v e : Rat) : Bool := decide (absQ (x - v) ≤ tolOf e v)
      let agree := M0 == (m0 : Rat) && M1 == (m1 : Rat) &&
        close S0 s0 e0.1 && close I0 i0 e0.2 && close S1 s1 e1.1 && close I1 i1 e1.2
      -- sampled PSMs: idx_j = j(2n−1)/31 ; file = idx / n ; p = idx % n
      let sampleOk := (List.range 32).all fun j =>
        let idx := j * (2 * n - 1) / 31
        let file := idx / n
        let k := bigK seed tmax (idx % n)
        let rt : Float32 := Float32.ofNat (if file == 0 then k else a * k + b8) / 8
        let par := if file == 0 then p0 else p1
        match v[j]? with
        | some x => sameBits32 x (alignedRt rt par.1 par.2.1 par.2.2)
        | none => false
      let spec : String :=
        if !specParamsFinite al then "bad:nonfinite_param"
        else if !specMaxPos al then "bad:max_rt_nonpositive"
        else if !(decide ((tmax : Rat) ≤ M0) && decide ((((a * 8 * tmax + b8 : Nat) : Rat) / 8) ≤ M1)) then "bad:scale"
        else if !sampleOk then "bad:aligned_ne_affine"
        else if nonfinite != 0 then "bad:nonfinite_aligned"
        else if S.diag && c0 > 0 && c1 > 0 && !([q S.lo1 d1, q S.hi1 d1].all fun x =>
            decide (absQ ((S0 * x + I0) - (S1 * x + I1))
              ≤ epsQ * (absQ (x - xm0) / c0 + absQ (x - xm1) / c1)
                + 4 * (absQ x * e0.1 + e0.2 + absQ x * e1.1 + e1.2)
                + dyadic 1 22 * (absQ (S0 * x) + absQ I0 + absQ (S1 * x) + absQ I1) + dyadic 1 140))
          then "bad:not_equivariant"
        else if S.diag && !(close S0 (c0 / (epsQ + c0)) e0.1 && close I0 (xm0 * (1 - c0 / (epsQ + c0))) e0.2
                          && close S1 (c1 / (epsQ + c1)) e1.1 && close I1 (xm1 * (1 - c1 / (epsQ + c1))) e1.2)
          then "bad:diagonal_fit_ne_closed_form"
        else "ok"
      pure { model := model, agree := agree, spec := spec }
    | _, _ =>
      pure { model := model, agree := false,
             spec := if al.length != 2 then "bad:shape" else "bad:nonfinite_param" }

def handle (op : String) (args impl : List String) : Option Reply :=
  match op with
  | "alignbig" => handleAlignBig args impl
  | "trainset" => handleTrainset args impl
  | "rtpredictq" => handlePredict false args impl true
  | "imspredictq" => handlePredict true args impl true
  | "predpools" => handlePools false impl
  | "chainpools" => handlePools true impl
  | "align" => handleAlign args impl
  | "rtpredict" => handlePredict false args impl
  | "imspredict" => handlePredict true args impl
  | _ => none

end Sage.C20
