import SageModel.Model.C07
import SageModel.Props.C06
import Mathlib.Data.List.Basic

/-!
# C07 — helper lemmas (slice reversal, the merge of `reorder_peptides`, `group_digests`, forms)
-/

namespace Sage.C07


/-! ## helper lemmas: `revSlice` -/

theorem revSlice_decomp {β : Type} (n : Nat) (a : β) (mid tail : List β) (hm : mid.length = n - 1) (hn : 1 ≤ n) :
    revSlice n (a :: (mid ++ tail)) = a :: (mid.reverse ++ tail) := by
  unfold revSlice
  obtain ⟨k, rfl⟩ : ∃ k, n = k + 1 := ⟨n - 1, by omega⟩
  simp only [Nat.add_sub_cancel] at hm
  subst hm
  simp

theorem decomp {β : Type} (n : Nat) (l : List β) (hn : 1 ≤ n) (h : n ≤ l.length) :
    ∃ a mid tail, l = a :: (mid ++ tail) ∧ mid.length = n - 1 := by
  cases l with
  | nil => simp at h; omega
  | cons a t =>
    refine ⟨a, t.take (n - 1), t.drop (n - 1), by simp, ?_⟩
    simp at h ⊢; omega

theorem revSlice_length {β : Type} (n : Nat) (l : List β) (hn : 1 ≤ n) (h : n ≤ l.length) :
    (revSlice n l).length = l.length := by
  obtain ⟨a, mid, tail, rfl, hm⟩ := decomp n l hn h
  rw [revSlice_decomp n a mid tail hm hn]; simp

theorem revSlice_revSlice {β : Type} (n : Nat) (l : List β) (hn : 1 ≤ n) (h : n ≤ l.length) :
    revSlice n (revSlice n l) = l := by
  obtain ⟨a, mid, tail, rfl, hm⟩ := decomp n l hn h
  rw [revSlice_decomp n a mid tail hm hn, revSlice_decomp n a mid.reverse tail (by simpa using hm) hn]
  simp

theorem revSlice_getElem? {β : Type} (n : Nat) (l : List β) (hn : 1 ≤ n) (h : n ≤ l.length) (i : Nat) :
    (revSlice n l)[i]? = if i = 0 then l[0]? else if i < n then l[n - i]? else l[i]? := by
  obtain ⟨a, mid, tail, rfl, hm⟩ := decomp n l hn h
  rw [revSlice_decomp n a mid tail hm hn]
  cases i with
  | zero => simp
  | succ j =>
    simp only [List.getElem?_cons_succ]
    by_cases hj : j + 1 < n
    · have : j < mid.reverse.length := by simp; omega
      rw [List.getElem?_append_left this]
      simp [hj]
      have h2 : n - (j + 1) = (n - 1 - 1 - j) + 1 := by omega
      rw [h2, List.getElem?_cons_succ]
      have : n - 1 - 1 - j < mid.length := by omega
      rw [List.getElem?_append_left this]
      rw [List.getElem?_reverse (by omega)]
      congr 1; omega
    · simp [hj]
      rw [List.getElem?_append_right (by simp; omega), List.getElem?_append_right (by omega)]
      simp

/-- the slice arithmetic of `Peptide::reverse` is the property's reversal: ends fixed, middle reversed -/
theorem revSlice_eq_mirrorList {β : Type} (l : List β) (h : 2 ≤ l.length) :
    revSlice (l.length - 1) l = mirrorList l := by
  cases l with
  | nil => simp at h
  | cons a rest =>
    have hne : rest ≠ [] := by intro h0; subst h0; simp at h
    have hr : rest = rest.dropLast ++ [rest.getLast hne] := (List.dropLast_append_getLast hne).symm
    have hl : rest.getLast? = some (rest.getLast hne) := List.getLast?_eq_getLast_of_ne_nil hne
    simp only [mirrorList, hl]
    have hlen : (a :: rest).length - 1 = rest.dropLast.length + 1 := by
      have : rest.length ≥ 1 := List.length_pos_iff.mpr hne
      simp; omega
    rw [hlen]
    conv => lhs; rw [hr]
    rw [revSlice_decomp _ a rest.dropLast [rest.getLast hne] (by simp) (by omega)]

theorem mirrorList_short {β : Type} (l : List β) (h : l.length ≤ 3) : mirrorList l = l := by
  match l, h with
  | [], _ => rfl
  | [_], _ => rfl
  | [_, _], _ => rfl
  | [_, _, _], _ => rfl

/-- the invariant every peptide made by `try_from` + `apply` satisfies: one modification slot per residue -/
def WF {α : Type} (p : Pep α) : Prop := p.mods.length = p.sequence.length

theorem reverse_of_gt {α : Type} (p : Pep α) (hn : p.sequence.length - 1 > 1) :
    reverse p = { p with decoy := !p.decoy, sequence := revSlice (p.sequence.length - 1) p.sequence,
                         mods := revSlice (p.sequence.length - 1) p.mods } := by
  unfold reverse; simp only [hn, if_true]

theorem reverse_of_le {α : Type} (p : Pep α) (hn : ¬ p.sequence.length - 1 > 1) :
    reverse p = { p with decoy := !p.decoy } := by
  unfold reverse; simp only [hn, if_false]

theorem reverse_wf {α : Type} (p : Pep α) (h : WF p) : WF (reverse p) := by
  unfold WF at *
  by_cases hn : p.sequence.length - 1 > 1
  · rw [reverse_of_gt p hn]
    simp only
    rw [revSlice_length _ _ (by omega) (by omega), revSlice_length _ _ (by omega) (by omega), h]
  · rw [reverse_of_le p hn]; exact h


/-! ## helper lemmas: the merge of `reorder_peptides` -/


section merge
variable {α : Type} [BEq α] [LawfulBEq α]

/-- the key `dedup_by` compares -/
def keyOf (p : Pep α) : α × List Nat × List α × Option α × Option α :=
  (p.mono, p.sequence, p.mods, p.nterm, p.cterm)

theorem sameKey_iff (a b : Pep α) : sameKey a b = true ↔ keyOf a = keyOf b := by
  simp [sameKey, keyOf, and_assoc]

theorem sameKey_false_iff (a b : Pep α) : sameKey a b = false ↔ keyOf a ≠ keyOf b := by
  rw [Ne, ← sameKey_iff]; simp

omit [BEq α] [LawfulBEq α] in
theorem absorbAll_spec (k : Pep α) (rs : List (Pep α)) :
    keyOf (absorbAll k rs) = keyOf k ∧
    (absorbAll k rs).decoy = (k.decoy && rs.all (·.decoy)) ∧
    (absorbAll k rs).proteins = k.proteins ++ rs.flatMap (·.proteins) := by
  induction rs generalizing k with
  | nil => simp [absorbAll]
  | cons r rs ih =>
    have := ih (absorb k r)
    simp only [absorbAll, List.foldl_cons] at this ⊢
    obtain ⟨h1, h3, h4⟩ := this
    refine ⟨by rw [h1]; rfl, ?_, ?_⟩
    · rw [h3]; simp [absorb, Bool.and_assoc]
    · rw [h4]; simp [absorb]

omit [BEq α] [LawfulBEq α] in
/-- the missed-cleavage count of a merged class is the minimum over the class -/
theorem absorbAll_mc (k : Pep α) (rs : List (Pep α)) :
    ((absorbAll k rs).mc = k.mc ∨ ∃ r ∈ rs, (absorbAll k rs).mc = r.mc) ∧
    (absorbAll k rs).mc ≤ k.mc ∧ ∀ r ∈ rs, (absorbAll k rs).mc ≤ r.mc := by
  induction rs generalizing k with
  | nil => simp [absorbAll]
  | cons r rs ih =>
    obtain ⟨h1, h2, h3⟩ := ih (absorb k r)
    have hm : (absorb k r).mc = min k.mc r.mc := rfl
    have hfold : absorbAll k (r :: rs) = absorbAll (absorb k r) rs := rfl
    rw [hfold]
    rw [hm] at h1 h2
    refine ⟨?_, by omega, ?_⟩
    · rcases h1 with h | ⟨r', hr', h⟩
      · rcases Nat.le_total k.mc r.mc with hle | hle
        · left; rw [h]; exact Nat.min_eq_left hle
        · right; exact ⟨r, by simp, by rw [h]; exact Nat.min_eq_right hle⟩
      · right; exact ⟨r', List.mem_cons_of_mem _ hr', h⟩
    · intro r' hr'
      rcases List.mem_cons.mp hr' with rfl | hr'
      · omega
      · exact h3 r' hr'

/-- what `reorder_peptides` leaves of a list of forms: for every entry `e` there is a source with
    its key whose bookkeeping fields it keeps; `e` is a decoy iff every source with its key is; its
    proteins are those of all sources with its key -/
theorem mem_mergeFuel (n : Nat) (l : List (Pep α)) (hn : l.length ≤ n) (e : Pep α) (he : e ∈ mergeFuel n l) :
    (∃ s0 ∈ l, keyOf e = keyOf s0 ∧ e.mc = s0.mc) ∧
    (e.decoy = true ↔ ∀ s ∈ l, keyOf s = keyOf e → s.decoy = true) ∧
    (∀ x, x ∈ e.proteins ↔ ∃ s ∈ l, keyOf s = keyOf e ∧ x ∈ s.proteins) := by
  induction n generalizing l with
  | zero =>
    cases l with
    | nil => simp [mergeFuel] at he
    | cons _ _ => simp at hn
  | succ n ih =>
    cases l with
    | nil => simp [mergeFuel] at he
    | cons p rest =>
      simp only [mergeFuel, List.mem_cons] at he
      rcases he with rfl | he
      · obtain ⟨h1, h3, h4⟩ := absorbAll_spec p (rest.filter fun q => sameKey q p)
        have hsrc : ∃ s0 ∈ p :: rest, keyOf (absorbAll p (rest.filter fun q => sameKey q p)) = keyOf s0 ∧
            (absorbAll p (rest.filter fun q => sameKey q p)).mc = s0.mc := by
          rcases (absorbAll_mc p (rest.filter fun q => sameKey q p)).1 with h2 | ⟨r, hr, h2⟩
          · exact ⟨p, by simp, h1, h2⟩
          · simp only [List.mem_filter, sameKey_iff] at hr
            exact ⟨r, List.mem_cons_of_mem _ hr.1, by rw [h1, hr.2], h2⟩
        refine ⟨hsrc, ?_, ?_⟩
        · rw [h3, h1]
          simp only [Bool.and_eq_true, List.all_eq_true, List.mem_filter, sameKey_iff, List.mem_cons]
          constructor
          · rintro ⟨hp, hs⟩ s (rfl | hs') hk
            · exact hp
            · exact hs s ⟨hs', hk⟩
          · intro h
            exact ⟨h p (Or.inl rfl) rfl, fun s hs => h s (Or.inr hs.1) hs.2⟩
        · intro x
          rw [h4, h1]
          simp only [List.mem_append, List.mem_flatMap, List.mem_filter, sameKey_iff, List.mem_cons]
          constructor
          · rintro (hx | ⟨s, ⟨hs, hk⟩, hx⟩)
            · exact ⟨p, Or.inl rfl, rfl, hx⟩
            · exact ⟨s, Or.inr hs, hk, hx⟩
          · rintro ⟨s, (rfl | hs), hk, hx⟩
            · exact Or.inl hx
            · exact Or.inr ⟨s, ⟨hs, hk⟩, hx⟩
      · have hlen : (rest.filter fun q => !sameKey q p).length ≤ n := by
          have := List.length_filter_le (fun q => !sameKey q p) rest
          simp at hn; omega
        obtain ⟨⟨s0, hs0, hk0, hm0⟩, hd, hp⟩ := ih _ hlen he
        simp only [List.mem_filter, Bool.not_eq_true', sameKey_false_iff] at hs0
        have hne : keyOf e ≠ keyOf p := by rw [hk0]; exact hs0.2
        have hsrc : ∀ s, (s ∈ p :: rest ∧ keyOf s = keyOf e) ↔
            (s ∈ rest.filter (fun q => !sameKey q p) ∧ keyOf s = keyOf e) := by
          intro s
          simp only [List.mem_cons, List.mem_filter, Bool.not_eq_true', sameKey_false_iff]
          constructor
          · rintro ⟨(rfl | hs), hk⟩
            · exact absurd hk.symm hne
            · exact ⟨⟨hs, by rw [hk]; exact hne⟩, hk⟩
          · rintro ⟨⟨hs, _⟩, hk⟩
            exact ⟨Or.inr hs, hk⟩
        refine ⟨⟨s0, List.mem_cons_of_mem _ hs0.1, hk0, hm0⟩, ?_, ?_⟩
        · rw [hd]
          constructor
          · intro h s hs hk; exact h s ((hsrc s).mp ⟨hs, hk⟩).1 hk
          · intro h s hs hk; exact h s ((hsrc s).mpr ⟨hs, hk⟩).1 hk
        · intro x
          rw [hp]
          constructor
          · rintro ⟨s, hs, hk, hx⟩; exact ⟨s, ((hsrc s).mpr ⟨hs, hk⟩).1, hk, hx⟩
          · rintro ⟨s, hs, hk, hx⟩; exact ⟨s, ((hsrc s).mp ⟨hs, hk⟩).1, hk, hx⟩

/-- every form is represented by an entry with its key -/
theorem mergeFuel_complete (n : Nat) (l : List (Pep α)) (hn : l.length ≤ n) (s : Pep α) (hs : s ∈ l) :
    ∃ e ∈ mergeFuel n l, keyOf e = keyOf s := by
  induction n generalizing l with
  | zero => cases l with
    | nil => simp at hs
    | cons _ _ => simp at hn
  | succ n ih =>
    cases l with
    | nil => simp at hs
    | cons p rest =>
      simp only [mergeFuel, List.mem_cons]
      by_cases hk : keyOf s = keyOf p
      · exact ⟨_, Or.inl rfl, by rw [(absorbAll_spec p _).1, hk]⟩
      · have hs' : s ∈ rest.filter (fun q => !sameKey q p) := by
          simp only [List.mem_filter, Bool.not_eq_true', sameKey_false_iff]
          rcases List.mem_cons.mp hs with rfl | h
          · exact absurd rfl hk
          · exact ⟨h, hk⟩
        have hlen : (rest.filter fun q => !sameKey q p).length ≤ n := by
          have := List.length_filter_le (fun q => !sameKey q p) rest
          simp at hn; omega
        obtain ⟨e, he, hke⟩ := ih _ hlen hs'
        exact ⟨e, Or.inr he, hke⟩

/-- the missed-cleavage count of an entry is at most that of every form with its key (with
    `mem_mergeFuel`: it is the minimum over them) -/
theorem mergeFuel_mc_le (n : Nat) (l : List (Pep α)) (hn : l.length ≤ n) (e : Pep α) (he : e ∈ mergeFuel n l) :
    ∀ s ∈ l, keyOf s = keyOf e → e.mc ≤ s.mc := by
  induction n generalizing l with
  | zero =>
    cases l with
    | nil => simp [mergeFuel] at he
    | cons _ _ => simp at hn
  | succ n ih =>
    cases l with
    | nil => simp [mergeFuel] at he
    | cons p rest =>
      simp only [mergeFuel, List.mem_cons] at he
      rcases he with rfl | he
      · obtain ⟨h1, _, _⟩ := absorbAll_spec p (rest.filter fun q => sameKey q p)
        obtain ⟨_, h2, h3⟩ := absorbAll_mc p (rest.filter fun q => sameKey q p)
        intro s hs hk
        rcases List.mem_cons.mp hs with rfl | hs
        · exact h2
        · exact h3 s (by simp only [List.mem_filter, sameKey_iff]; exact ⟨hs, by rw [hk, h1]⟩)
      · have hlen : (rest.filter fun q => !sameKey q p).length ≤ n := by
          have := List.length_filter_le (fun q => !sameKey q p) rest
          simp at hn; omega
        obtain ⟨⟨s0, hs0, hk0, _⟩, _, _⟩ := mem_mergeFuel n _ hlen e he
        simp only [List.mem_filter, Bool.not_eq_true', sameKey_false_iff] at hs0
        intro s hs hk
        rcases List.mem_cons.mp hs with rfl | hs
        · exact absurd (by rw [hk, hk0]) hs0.2
        · exact ih _ hlen he s (by
            simp only [List.mem_filter, Bool.not_eq_true', sameKey_false_iff]
            exact ⟨hs, by rw [hk, hk0]; exact hs0.2⟩) hk

/-- no two entries of the merged list have the same key -/
theorem mergeFuel_pairwise (n : Nat) (l : List (Pep α)) (hn : l.length ≤ n) :
    (mergeFuel n l).Pairwise (fun a b => keyOf a ≠ keyOf b) := by
  induction n generalizing l with
  | zero => cases l <;> simp [mergeFuel]
  | succ n ih =>
    cases l with
    | nil => simp [mergeFuel]
    | cons p rest =>
      have hlen : (rest.filter fun q => !sameKey q p).length ≤ n := by
        have := List.length_filter_le (fun q => !sameKey q p) rest
        simp at hn; omega
      simp only [mergeFuel, List.pairwise_cons]
      refine ⟨?_, ih _ hlen⟩
      intro e he
      obtain ⟨⟨s0, hs0, hk0, _⟩, _, _⟩ := mem_mergeFuel n _ hlen e he
      simp only [List.mem_filter, Bool.not_eq_true', sameKey_false_iff] at hs0
      rw [(absorbAll_spec p _).1, hk0]
      exact fun h => hs0.2 h.symm

end merge


/-! ## helper lemmas: digests and groups -/

theorem mem_insertSorted {β : Type} (le : β → β → Bool) (x y : β) (l : List β) :
    y ∈ insertSorted le x l ↔ y = x ∨ y ∈ l := by
  induction l with
  | nil => simp [insertSorted]
  | cons a as ih =>
    unfold insertSorted
    split
    · simp
    · simp only [List.mem_cons, ih]; tauto

theorem mem_isort {β : Type} (le : β → β → Bool) (y : β) (l : List β) : y ∈ isort le l ↔ y ∈ l := by
  induction l with
  | nil => simp [isort]
  | cons a as ih =>
    have : isort le (a :: as) = insertSorted le a (isort le as) := rfl
    rw [this, mem_insertSorted, ih]; simp

theorem mem_fastaDigest {par : C05.Params} {tag : Bytes} {gen : Bool} {recs : List (Bytes × Bytes)} {d : DDigest} :
    d ∈ fastaDigest par tag gen recs ↔
      ∃ r ∈ recs, ∃ c ∈ C05.digest par r.2, d.seq = c.seq ∧ d.protein = r.1 ∧
        d.decoy = C05.containsSub r.1 tag ∧ (gen = true → C05.containsSub r.1 tag = false) ∧
        d.mc = c.mc ∧ d.pos = c.pos ∧ d.semi = c.semi := by
  unfold fastaDigest
  simp only [List.mem_flatMap, List.mem_filterMap]
  constructor
  · rintro ⟨r, hr, c, hc, hm⟩
    refine ⟨r, hr, c, hc, ?_⟩
    unfold markDigest at hm
    cases hct : C05.containsSub r.1 tag <;> cases gen <;> simp [hct] at hm <;> subst hm <;> simp
  · rintro ⟨r, hr, c, hc, h1, h2, h3, h4, h5, h6, h7⟩
    refine ⟨r, hr, c, hc, ?_⟩
    unfold markDigest
    cases d
    simp only at h1 h2 h3 h5 h6 h7
    subst h1 h2 h3 h5 h6 h7
    cases hct : C05.containsSub r.1 tag <;> cases gen <;> simp_all

theorem sameGroup_iff (d r : DDigest) : sameGroup d r = true ↔ d.decoy = r.decoy ∧ d.pos = r.pos ∧ d.seq = r.seq := by
  simp [sameGroup, and_assoc]

theorem groupLoop_cur (cur : Group) (ds : List DDigest) :
    ∃ g ∈ groupLoop cur ds, g.ref = cur.ref ∧ ∀ x ∈ cur.proteins, x ∈ g.proteins := by
  induction ds generalizing cur with
  | nil => exact ⟨cur, by simp [groupLoop], rfl, fun _ h => h⟩
  | cons d ds ih =>
    unfold groupLoop
    by_cases hs : sameGroup d cur.ref = true
    · simp only [hs, if_true]
      obtain ⟨g, hg, h1, h2⟩ := ih { cur with proteins := cur.proteins ++ [d.protein] }
      exact ⟨g, hg, h1, fun x hx => h2 x (by simp [hx])⟩
    · simp only [hs]
      exact ⟨cur, by simp, rfl, fun _ h => h⟩

/-- invariant of the grouping loop -/
theorem groupLoop_spec (cur : Group) (ds : List DDigest) :
    (∀ g ∈ groupLoop cur ds, g.ref = cur.ref ∨ g.ref ∈ ds) ∧
    (∀ g ∈ groupLoop cur ds, ∀ x ∈ g.proteins,
        (g.ref = cur.ref ∧ x ∈ cur.proteins) ∨ ∃ d ∈ ds, sameGroup d g.ref = true ∧ d.protein = x) ∧
    (∀ d ∈ ds, ∃ g ∈ groupLoop cur ds, sameGroup d g.ref = true ∧ d.protein ∈ g.proteins) ∧
    (cur.proteins ≠ [] → ∀ g ∈ groupLoop cur ds, g.proteins ≠ []) := by
  induction ds generalizing cur with
  | nil => simp [groupLoop]
  | cons d ds ih =>
    unfold groupLoop
    by_cases hs : sameGroup d cur.ref = true
    · simp only [hs, if_true]
      obtain ⟨i1, i2, i3, i4⟩ := ih { cur with proteins := cur.proteins ++ [d.protein] }
      refine ⟨?_, ?_, ?_, ?_⟩
      · intro g hg
        rcases i1 g hg with h | h
        · exact Or.inl h
        · exact Or.inr (List.mem_cons_of_mem _ h)
      · intro g hg x hx
        rcases i2 g hg x hx with ⟨h, hx'⟩ | ⟨d', hd', h1, h2⟩
        · simp only [List.mem_append, List.mem_singleton] at hx'
          rcases hx' with hx' | rfl
          · exact Or.inl ⟨h, hx'⟩
          · refine Or.inr ⟨d, by simp, ?_, rfl⟩
            simp only at h; rw [h]; exact hs
        · exact Or.inr ⟨d', List.mem_cons_of_mem _ hd', h1, h2⟩
      · intro d' hd'
        rcases List.mem_cons.mp hd' with rfl | hd'
        · -- the head went into the current group; find where the current group ended up
          obtain ⟨g, hg, h1, h2⟩ := groupLoop_cur { cur with proteins := cur.proteins ++ [d'.protein] } ds
          refine ⟨g, hg, ?_, h2 _ (by simp)⟩
          simp only at h1; rw [h1]; exact hs
        · exact i3 d' hd'
      · intro hne g hg
        exact i4 (by simp) g hg
    · simp only [hs]
      obtain ⟨i1, i2, i3, i4⟩ := ih ⟨d, [d.protein]⟩
      have hrefl : sameGroup d d = true := by rw [sameGroup_iff]; exact ⟨rfl, rfl, rfl⟩
      refine ⟨?_, ?_, ?_, ?_⟩
      · intro g hg
        rcases List.mem_cons.mp hg with rfl | hg
        · exact Or.inl rfl
        · rcases i1 g hg with h | h
          · exact Or.inr (by rw [h]; simp)
          · exact Or.inr (List.mem_cons_of_mem _ h)
      · intro g hg x hx
        rcases List.mem_cons.mp hg with rfl | hg
        · exact Or.inl ⟨rfl, hx⟩
        · rcases i2 g hg x hx with ⟨h, hx'⟩ | ⟨d', hd', h1, h2⟩
          · simp only [List.mem_singleton] at hx'
            simp only at h
            exact Or.inr ⟨d, by simp, by rw [h]; exact hrefl, hx'.symm⟩
          · exact Or.inr ⟨d', List.mem_cons_of_mem _ hd', h1, h2⟩
      · intro d' hd'
        rcases List.mem_cons.mp hd' with rfl | hd'
        · obtain ⟨g, hg, h1, h2⟩ := groupLoop_cur ⟨d', [d'.protein]⟩ ds
          refine ⟨g, List.mem_cons_of_mem _ hg, ?_, h2 _ (by simp)⟩
          simp only at h1; rw [h1]; exact hrefl
        · obtain ⟨g, hg, h⟩ := i3 d' hd'
          exact ⟨g, List.mem_cons_of_mem _ hg, h⟩
      · intro hne g hg
        rcases List.mem_cons.mp hg with rfl | hg
        · exact hne
        · exact i4 (by simp) g hg

/-- what `group_digests` returns: every group's reference is one of the digests; a group's proteins
    are proteins of digests of that group (and there is at least one); every digest is in a group -/
theorem groupDigests_spec {ds : List DDigest} {groups : List Group} (h : groupDigests ds = some groups) :
    (∀ g ∈ groups, g.ref ∈ ds) ∧
    (∀ g ∈ groups, ∀ x ∈ g.proteins, ∃ d ∈ ds, sameGroup d g.ref = true ∧ d.protein = x) ∧
    (∀ d ∈ ds, ∃ g ∈ groups, sameGroup d g.ref = true ∧ d.protein ∈ g.proteins) ∧
    (∀ g ∈ groups, g.proteins ≠ []) := by
  unfold groupDigests at h
  have hperm : ∀ d, d ∈ isort digestLe ds ↔ d ∈ ds := fun d => mem_isort _ d ds
  split at h
  · rename_i heq
    simp only [Option.some.injEq] at h
    subst h
    rw [heq] at hperm
    have hds : ∀ d, d ∉ ds := fun d hd => by simpa using (hperm d).mpr hd
    refine ⟨by simp, by simp, fun d hd => absurd hd (hds d), by simp⟩
  · rename_i d rest heq
    simp only [Option.some.injEq] at h
    subst h
    rw [heq] at hperm
    -- first step of the loop: the first digest joins the initial (empty) group
    have hrefl : sameGroup d d = true := by rw [sameGroup_iff]; exact ⟨rfl, rfl, rfl⟩
    have hstep : groupLoop ⟨d, []⟩ (d :: rest) = groupLoop ⟨d, [d.protein]⟩ rest := by
      rw [groupLoop]; simp [hrefl]
    rw [hstep]
    obtain ⟨i1, i2, i3, i4⟩ := groupLoop_spec ⟨d, [d.protein]⟩ rest
    refine ⟨?_, ?_, ?_, ?_⟩
    · intro g hg
      rcases i1 g hg with h | h
      · rw [h]; exact (hperm d).mp (by simp)
      · exact (hperm _).mp (List.mem_cons_of_mem _ h)
    · intro g hg x hx
      rcases i2 g hg x hx with ⟨h, hx'⟩ | ⟨d', hd', h1, h2⟩
      · simp only [List.mem_singleton] at hx'
        simp only at h
        exact ⟨d, (hperm d).mp (by simp), by rw [h]; exact hrefl, hx'.symm⟩
      · exact ⟨d', (hperm _).mp (List.mem_cons_of_mem _ hd'), h1, h2⟩
    · intro d' hd'
      rcases List.mem_cons.mp ((hperm d').mpr hd') with rfl | hd''
      · obtain ⟨g, hg, h1, h2⟩ := groupLoop_cur ⟨d', [d'.protein]⟩ rest
        refine ⟨g, hg, ?_, h2 _ (by simp)⟩
        simp only at h1; rw [h1]; exact hrefl
      · exact i3 d' hd''
    · exact i4 (by simp)


/-! ## helper lemmas: forms -/


theorem mem_groupForms {cfg : Cfg Rat} {g : Group} {f : Pep Rat} (h : f ∈ groupForms cfg g) :
    f.sequence = natSeq g.ref.seq ∧ f.decoy = g.ref.decoy ∧ f.proteins = g.proteins ∧ f.mc = g.ref.mc ∧ WF f := by
  unfold groupForms at h
  simp only [List.mem_map] at h
  obtain ⟨c, hc, rfl⟩ := h
  obtain ⟨p, hp, hap, _, _⟩ := (C06.range_filter _ _ _ _ _ _ _ _ _ c).mp hc
  obtain ⟨q, hq, rfl⟩ := C06.mem_apply hap
  obtain ⟨_, hseq, hmods, _⟩ := C06.tryFrom_some hp
  have f1 := C06.varForms_frame hq
  have f2 := C06.applyStatics_frame cfg.statics q
  have hs : (C06.finish (C06.applyStatics cfg.statics q)).sequence = natSeq g.ref.seq := by
    show (C06.applyStatics cfg.statics q).sequence = _
    rw [f2.2.1, f1.2.1, hseq]
  have hm : (C06.finish (C06.applyStatics cfg.statics q)).mods.length = (natSeq g.ref.seq).length := by
    show (C06.applyStatics cfg.statics q).mods.length = _
    rw [f2.2.2.2, f1.2.2.2, hmods]; simp
  refine ⟨hs, rfl, rfl, rfl, ?_⟩
  unfold WF
  show (C06.finish (C06.applyStatics cfg.statics q)).mods.length = (C06.finish (C06.applyStatics cfg.statics q)).sequence.length
  rw [hm, hs]



theorem mem_dedupAdj (l : List Bytes) (x : Bytes) : x ∈ dedupAdj l ↔ x ∈ l := by
  induction l using dedupAdj.induct with
  | case1 => simp [dedupAdj]
  | case2 y => simp [dedupAdj]
  | case3 a b rest h ih =>
    rw [dedupAdj, if_pos h, ih]
    have : a = b := by simpa using h
    subst this; simp
  | case4 a b rest h ih =>
    rw [dedupAdj, if_neg h]
    simp only [List.mem_cons] at ih ⊢
    rw [ih]

theorem mem_sortDedup (l : List Bytes) (x : Bytes) : x ∈ sortDedup l ↔ x ∈ l := by
  unfold sortDedup
  rw [mem_dedupAdj, mem_isort]

theorem mem_emit {gen : Bool} {T : List (List Nat)} {f q : Pep Rat} :
    q ∈ emit gen T f ↔ (q = f ∨ (gen = true ∧ q = reverse f)) ∧ (q.decoy = true → q.sequence ∉ T) := by
  unfold emit
  have key : (q.decoy = false ∨ q.sequence ∉ T) ↔ (q.decoy = true → q.sequence ∉ T) := by
    cases q.decoy <;> simp
  cases gen <;> simp [List.mem_filter, key]
  tauto


/-! ## helper lemmas: mirror keys, unfolding of the database -/


theorem mirrorList_length {β : Type} (l : List β) : (mirrorList l).length = l.length := by
  by_cases h : 2 ≤ l.length
  · rw [← revSlice_eq_mirrorList l h, revSlice_length _ _ (by omega) (by omega)]
  · rw [mirrorList_short l (by omega)]

theorem mirrorList_mirrorList {β : Type} (l : List β) : mirrorList (mirrorList l) = l := by
  by_cases h : 2 ≤ l.length
  · have h' : 2 ≤ (mirrorList l).length := by rw [mirrorList_length]; exact h
    rw [← revSlice_eq_mirrorList _ h', mirrorList_length, ← revSlice_eq_mirrorList l h,
      revSlice_revSlice _ _ (by omega) (by omega)]
  · rw [mirrorList_short l (by omega), mirrorList_short l (by omega)]

theorem mirrorList_inj {β : Type} {a b : List β} (h : mirrorList a = mirrorList b) : a = b := by
  rw [← mirrorList_mirrorList a, h, mirrorList_mirrorList]

/-- the key of the mirror image -/
def mirrorKey {α : Type} (k : α × List Nat × List α × Option α × Option α) :
    α × List Nat × List α × Option α × Option α :=
  (k.1, mirrorList k.2.1, mirrorList k.2.2.1, k.2.2.2.1, k.2.2.2.2)

theorem keyOf_mirror {α : Type} (p : Pep α) : keyOf (mirror p) = mirrorKey (keyOf p) := rfl

theorem mirrorKey_inj {α : Type} {a b : α × List Nat × List α × Option α × Option α}
    (h : mirrorKey a = mirrorKey b) : a = b := by
  obtain ⟨a1, a2, a3, a4, a5⟩ := a
  obtain ⟨b1, b2, b3, b4, b5⟩ := b
  simp only [mirrorKey, Prod.mk.injEq] at h ⊢
  exact ⟨h.1, mirrorList_inj h.2.1, mirrorList_inj h.2.2.1, h.2.2.2.1, h.2.2.2.2⟩

theorem mirrorKey_mirrorKey {α : Type} (a : α × List Nat × List α × Option α × Option α) :
    mirrorKey (mirrorKey a) = a := by
  simp [mirrorKey, mirrorList_mirrorList]

/-- unfolding `digestRecs` -/
theorem digestRecs_some {cfg : Cfg Rat} {recs : List (Bytes × Bytes)} {db : List (Pep Rat)}
    (h : digestRecs cfg recs = some db) :
    ∃ groups, groupDigests (fastaDigest cfg.par cfg.tag cfg.gen recs) = some groups ∧
      db = reorder (buildForms cfg groups) := by
  unfold digestRecs at h
  cases hg : groupDigests (fastaDigest cfg.par cfg.tag cfg.gen recs) with
  | none => simp [hg] at h
  | some groups => simp [hg] at h; exact ⟨groups, rfl, h.symm⟩

theorem mem_reorder {l : List (Pep Rat)} {e : Pep Rat} :
    e ∈ reorder l ↔ ∃ e' ∈ mergeFuel l.length l, e = finishProteins e' := by
  unfold reorder mergeAll
  simp only [List.mem_map]
  constructor
  · rintro ⟨e', h, rfl⟩; exact ⟨e', h, rfl⟩
  · rintro ⟨e', h, rfl⟩; exact ⟨e', h, rfl⟩

theorem mem_buildForms {cfg : Cfg Rat} {groups : List Group} {q : Pep Rat} :
    q ∈ buildForms cfg groups ↔
      ∃ g ∈ groups, ∃ f ∈ groupForms cfg g, q ∈ emit cfg.gen (targetSet groups) f := by
  unfold buildForms
  simp only [List.mem_flatMap]

theorem mem_targetSet {groups : List Group} {x : List Nat} :
    x ∈ targetSet groups ↔ ∃ g ∈ groups, g.ref.decoy = false ∧ natSeq g.ref.seq = x := by
  unfold targetSet
  simp only [List.mem_map, List.mem_filter, Bool.not_eq_true']
  constructor
  · rintro ⟨g, ⟨hg, hd⟩, rfl⟩; exact ⟨g, hg, hd, rfl⟩
  · rintro ⟨g, hg, hd, rfl⟩; exact ⟨g, ⟨hg, hd⟩, rfl⟩

/-- the target `DashSet` holds exactly the digest sequences of the untagged FASTA records -/
theorem targetSet_iff {cfg : Cfg Rat} {recs : List (Bytes × Bytes)} {groups : List Group}
    (hg : groupDigests (fastaDigest cfg.par cfg.tag cfg.gen recs) = some groups) (x : List Nat) :
    x ∈ targetSet groups ↔ x ∈ specTargets cfg.par cfg.tag recs := by
  obtain ⟨g1, _, g3, _⟩ := groupDigests_spec hg
  rw [mem_targetSet]
  unfold specTargets
  simp only [List.mem_flatMap, List.mem_filter, List.mem_map, Bool.not_eq_true']
  constructor
  · rintro ⟨g, hgm, hd, rfl⟩
    obtain ⟨r, hr, c, hc, h1, _, h3, _⟩ := mem_fastaDigest.mp (g1 g hgm)
    exact ⟨r, ⟨hr, by rw [← h3]; exact hd⟩, c, hc, by rw [h1]⟩
  · rintro ⟨r, ⟨hr, hct⟩, c, hc, rfl⟩
    have hd : (⟨false, c.semi, c.seq, r.1, c.mc, c.pos⟩ : DDigest) ∈ fastaDigest cfg.par cfg.tag cfg.gen recs :=
      mem_fastaDigest.mpr ⟨r, hr, c, hc, rfl, rfl, hct.symm, fun _ => hct, rfl, rfl, rfl⟩
    obtain ⟨g, hgm, hs, _⟩ := g3 _ hd
    rw [sameGroup_iff] at hs
    exact ⟨g, hgm, hs.1.symm, by rw [← hs.2.2]⟩


/-! ## helper lemmas: the exact protein list of a merged entry -/


section
variable {α : Type} [BEq α] [LawfulBEq α]

theorem sameKey_refl (a : Pep α) : sameKey a a = true := (sameKey_iff a a).mpr rfl

theorem sameKey_congr_right {a b : Pep α} (h : keyOf a = keyOf b) (s : Pep α) : sameKey s a = sameKey s b := by
  cases h1 : sameKey s a <;> cases h2 : sameKey s b <;> try rfl
  · rw [sameKey_false_iff] at h1; rw [sameKey_iff] at h2; exact absurd (h2.trans h.symm) h1
  · rw [sameKey_iff] at h1; rw [sameKey_false_iff] at h2; exact absurd (h1.trans h) h2

/-- the protein list of a merged entry: the protein lists of the forms with its key, concatenated in
    generation order -/
theorem mergeFuel_proteins_eq (n : Nat) (l : List (Pep α)) (hn : l.length ≤ n) (e : Pep α)
    (he : e ∈ mergeFuel n l) :
    e.proteins = (l.filter fun s => sameKey s e).flatMap (·.proteins) := by
  induction n generalizing l with
  | zero =>
    cases l with
    | nil => simp [mergeFuel] at he
    | cons _ _ => simp at hn
  | succ n ih =>
    cases l with
    | nil => simp [mergeFuel] at he
    | cons p rest =>
      simp only [mergeFuel, List.mem_cons] at he
      rcases he with rfl | he
      · obtain ⟨h1, _, h4⟩ := absorbAll_spec p (rest.filter fun q => sameKey q p)
        rw [h4]
        have hc : ∀ s, sameKey s (absorbAll p (rest.filter fun q => sameKey q p)) = sameKey s p :=
          sameKey_congr_right h1
        simp only [hc, List.filter_cons, sameKey_refl, if_true, List.flatMap_cons]
      · have hlen : (rest.filter fun q => !sameKey q p).length ≤ n := by
          have := List.length_filter_le (fun q => !sameKey q p) rest
          simp at hn; omega
        obtain ⟨⟨s0, hs0, hk0, _⟩, _, _⟩ := mem_mergeFuel n _ hlen e he
        simp only [List.mem_filter, Bool.not_eq_true', sameKey_false_iff] at hs0
        have hpe : sameKey p e = false := by
          rw [sameKey_false_iff, hk0]; exact fun h => hs0.2 h.symm
        rw [ih _ hlen he, List.filter_cons, hpe]
        simp only [Bool.false_eq_true, if_false, List.filter_filter]
        congr 1
        apply List.filter_congr
        intro s _
        cases hse : sameKey s e with
        | false => simp
        | true =>
          have : sameKey s p = false := by
            rw [sameKey_iff] at hse
            rw [sameKey_false_iff, hse, hk0]; exact hs0.2
          simp [this]
end

end Sage.C07
