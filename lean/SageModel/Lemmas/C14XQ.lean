import SageModel.Model.C14
import Mathlib.Algebra.Order.Field.Rat
import Mathlib.Tactic.Linarith
import Mathlib.Tactic.Positivity
import Mathlib.Tactic.NormNum

/-!
# C14 — `XQ = Option Rat`: exact rationals with a non-finite element

`none` stands for every non-finite `f64` (NaN, ±∞). Arithmetic is strict (`none` is absorbing),
`x / 0 = none` (IEEE gives ±∞ or NaN), `fmax`/`fmin` ignore `none` like `f64::max/min` ignore NaN.
The model of `SageModel/Model/C14.lean` is generic, so it runs at this type unchanged; a theorem
"the result is `some _`" then says that no division by zero and no non-finite intermediate value
occurs on the way.
-/

namespace Sage.C14

abbrev XQ := Option Rat

namespace XQ

def add : XQ → XQ → XQ
  | some a, some b => some (a + b)
  | _, _ => none
def sub : XQ → XQ → XQ
  | some a, some b => some (a - b)
  | _, _ => none
def mul : XQ → XQ → XQ
  | some a, some b => some (a * b)
  | _, _ => none
def div : XQ → XQ → XQ
  | some a, some b => if b = 0 then none else some (a / b)
  | _, _ => none
def neg : XQ → XQ
  | some a => some (-a)
  | none => none
def fmax : XQ → XQ → XQ
  | none, b => b
  | a, none => a
  | some a, some b => some (max a b)
def fmin : XQ → XQ → XQ
  | none, b => b
  | a, none => a
  | some a, some b => some (min a b)
def clamp01 : XQ → XQ
  | none => none
  | some x => some (if x < 0 then 0 else if 1 < x then 1 else x)
def floorNat : XQ → Nat
  | none => 0
  | some x => x.floor.toNat

end XQ

instance : Add XQ := ⟨XQ.add⟩
instance : Sub XQ := ⟨XQ.sub⟩
instance : Mul XQ := ⟨XQ.mul⟩
instance : Div XQ := ⟨XQ.div⟩
instance : Neg XQ := ⟨XQ.neg⟩
instance : NumExt XQ where
  ofNat n := some (n : Rat)
  floorNat := XQ.floorNat
  fmax := XQ.fmax
  fmin := XQ.fmin
  clamp01 := XQ.clamp01

@[simp] theorem xq_add (a b : Rat) : (some a : XQ) + some b = some (a + b) := rfl
@[simp] theorem xq_sub (a b : Rat) : (some a : XQ) - some b = some (a - b) := rfl
@[simp] theorem xq_mul (a b : Rat) : (some a : XQ) * some b = some (a * b) := rfl
@[simp] theorem xq_neg (a : Rat) : -(some a : XQ) = some (-a) := rfl
theorem xq_div (a b : Rat) (h : b ≠ 0) : (some a : XQ) / some b = some (a / b) := by
  show XQ.div (some a) (some b) = _
  simp [XQ.div, h]
theorem xq_div_zero (a : Rat) : (some a : XQ) / some 0 = none := by
  show XQ.div (some a) (some 0) = _
  simp [XQ.div]
@[simp] theorem xq_ofNat (n : Nat) : (ofNat n : XQ) = some (n : Rat) := rfl
@[simp] theorem xq_fmax (a b : Rat) : fmax (some a : XQ) (some b) = some (max a b) := rfl
@[simp] theorem xq_clamp01 (a : Rat) : clamp01 (some a : XQ) = some (if a < 0 then 0 else if 1 < a then 1 else a) := rfl
@[simp] theorem xq_fmin (a b : Rat) : fmin (some a : XQ) (some b) = some (min a b) := rfl

end Sage.C14
