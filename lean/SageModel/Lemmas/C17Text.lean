import SageModel.Model.C17

/-!
# C17 — lemmas about the text layer of the MGF model

What `rustLines`, `trim` and `classify` do on text written the way the format intends: one line per
`\n`-terminated piece, and each line shape (`BEGIN IONS`, `TITLE=…`, `PEPMASS=mz [intensity]`, `CHARGE=…`,
`TOL=…`, `TOLU=…`, `RTINSECONDS=…`, `mz [intensity]`, `END IONS`) classified as the `Line` it is meant to
be. `pf` (`str::parse::<f32>`) and `isNum` (`char::is_numeric`) stay parameters; the only thing assumed
of `isNum` is that the six capital letters the keywords start with are not numeric.
-/

namespace Sage.C17

variable {ν : Type}

/-- the keyword initials are not numeric characters (true of `char::is_numeric`) -/
def KeywordInitialsNotNumeric (isNum : Char → Bool) : Prop :=
  isNum 'B' = false ∧ isNum 'E' = false ∧ isNum 'P' = false ∧ isNum 'T' = false ∧ isNum 'C' = false ∧
  isNum 'R' = false

/-! ## `classify` on the line shapes of the format -/

section classify
variable (pf : String → Option ν) (isNum : Char → Bool) (hk : KeywordInitialsNotNumeric isNum)
include hk

theorem classify_begin (rest : List Char) : classify pf isNum ("BEGIN IONS".toList ++ rest) = .beginIons := by
  have e : "BEGIN IONS".toList = ['B','E','G','I','N',' ','I','O','N','S'] := by decide
  rw [e]; simp [classify, stripPrefix, hk.1]

theorem classify_end (rest : List Char) : classify pf isNum ("END IONS".toList ++ rest) = .endIons := by
  have e : "END IONS".toList = ['E','N','D',' ','I','O','N','S'] := by decide
  rw [e]; simp [classify, stripPrefix, hk.2.1]

theorem classify_title (rest : List Char) :
    classify pf isNum ("TITLE=".toList ++ rest) = .title (String.ofList rest) := by
  have e : "TITLE=".toList = ['T','I','T','L','E','='] := by decide
  rw [e]; simp [classify, stripPrefix, hk.2.2.2.1]

theorem classify_pepmass (rest : List Char) :
    classify pf isNum ("PEPMASS=".toList ++ rest) =
      .pepmass (tokAt pf (splitAsciiWs rest) 0) (tokAt pf (splitAsciiWs rest) 1) := by
  have e : "PEPMASS=".toList = ['P','E','P','M','A','S','S','='] := by decide
  rw [e]; simp [classify, stripPrefix, hk.2.2.1]

theorem classify_charge (rest : List Char) :
    classify pf isNum ("CHARGE=".toList ++ rest) = .charge (chargeDigits rest) := by
  have e : "CHARGE=".toList = ['C','H','A','R','G','E','='] := by decide
  rw [e]; simp [classify, stripPrefix, hk.2.2.2.2.1]

theorem classify_tol (rest : List Char) :
    classify pf isNum ("TOL=".toList ++ rest) = .tol (tokWhole pf rest) := by
  have e : "TOL=".toList = ['T','O','L','='] := by decide
  rw [e]; simp [classify, stripPrefix, hk.2.2.2.1]

theorem classify_tolu (rest : List Char) :
    classify pf isNum ("TOLU=".toList ++ rest) = .tolu (String.ofList rest) := by
  have e : "TOLU=".toList = ['T','O','L','U','='] := by decide
  rw [e]; simp [classify, stripPrefix, hk.2.2.2.1]

theorem classify_rt (rest : List Char) :
    classify pf isNum ("RTINSECONDS=".toList ++ rest) = .rt (tokWhole pf rest) := by
  have e : "RTINSECONDS=".toList = ['R','T','I','N','S','E','C','O','N','D','S','='] := by decide
  rw [e]; simp [classify, stripPrefix, hk.2.2.2.2.2]

end classify

/-- a CHARGE line without any ASCII digit lists no charge state at all -/
theorem classify_charge_no_digit (pf : String → Option ν) (isNum : Char → Bool)
    (hk : KeywordInitialsNotNumeric isNum) (rest : List Char) (hnd : ∀ c ∈ rest, c.isDigit = false) :
    classify pf isNum ("CHARGE=".toList ++ rest) = .charge [] := by
  rw [classify_charge pf isNum hk]
  congr 1
  unfold chargeDigits
  induction rest with
  | nil => rfl
  | cons c rest ih =>
    have hc := hnd c (by simp)
    rw [List.filterMap_cons]
    simp only [hc, Bool.false_eq_true, if_false]
    exact ih fun c' hc' => hnd c' (by simp [hc'])

/-- a line whose first character is numeric is a peak line: first two whitespace-separated columns -/
theorem classify_peak (pf : String → Option ν) (isNum : Char → Bool) (c : Char) (rest : List Char)
    (hc : isNum c = true) :
    classify pf isNum (c :: rest) =
      .peak (tokAt pf (splitAsciiWs (c :: rest)) 0) (tokAt pf (splitAsciiWs (c :: rest)) 1) := by
  simp [classify, hc]

/-- comment lines (`#`, `;`, `!`) and the empty line mean nothing -/
theorem classify_comment (pf : String → Option ν) (isNum : Char → Bool) (c : Char) (rest : List Char)
    (hc : c = '#' ∨ c = ';' ∨ c = '!') (hn : isNum c = false) :
    classify pf isNum (c :: rest) = .other := by
  rcases hc with rfl | rfl | rfl <;> simp [classify, stripPrefix, hn]

theorem classify_empty (pf : String → Option ν) (isNum : Char → Bool) (h0 : isNum (Char.ofNat 0) = false) :
    classify pf isNum [] = .other := by
  simp [classify, stripPrefix, h0]

/-! ## columns -/

/-- splitting never yields an empty column or one containing ASCII whitespace … -/
theorem splitAsciiWsAux_single (acc tok : List Char) (h : ∀ c ∈ tok, isAsciiWs c = false) :
    splitAsciiWsAux acc tok = if (tok.reverse ++ acc).isEmpty then [] else [(tok.reverse ++ acc).reverse] := by
  induction tok generalizing acc with
  | nil => simp [splitAsciiWsAux]
  | cons c tok ih =>
    have hc := h c (by simp)
    rw [splitAsciiWsAux]
    simp only [hc, Bool.false_eq_true, if_false]
    rw [ih (c :: acc) fun c' hc' => h c' (by simp [hc'])]
    simp

/-- … `"a b"` has the two columns `a`, `b` -/
theorem splitAsciiWsAux_two (acc a b : List Char) (ha : ∀ c ∈ a, isAsciiWs c = false)
    (hb : ∀ c ∈ b, isAsciiWs c = false) (hne : (a.reverse ++ acc) ≠ []) (hbne : b ≠ []) :
    splitAsciiWsAux acc (a ++ ' ' :: b) = [(a.reverse ++ acc).reverse, b] := by
  induction a generalizing acc with
  | nil =>
    have hacc : acc ≠ [] := by simpa using hne
    rw [List.nil_append, splitAsciiWsAux]
    have : isAsciiWs ' ' = true := by decide
    simp only [this, if_true]
    have hne' : acc.isEmpty = false := by cases acc <;> simp_all
    simp only [hne', Bool.false_eq_true, if_false]
    rw [splitAsciiWsAux_single [] b hb]
    cases b <;> simp_all
  | cons c a ih =>
    have hc := ha c (by simp)
    rw [List.cons_append, splitAsciiWsAux]
    simp only [hc, Bool.false_eq_true, if_false]
    rw [ih (c :: acc) (fun c' hc' => ha c' (by simp [hc'])) (by simp)]
    simp

theorem splitAsciiWs_one (a : List Char) (ha : ∀ c ∈ a, isAsciiWs c = false) (hne : a ≠ []) :
    splitAsciiWs a = [a] := by
  unfold splitAsciiWs
  rw [splitAsciiWsAux_single [] a ha]
  cases a <;> simp_all

theorem splitAsciiWs_two (a b : List Char) (ha : ∀ c ∈ a, isAsciiWs c = false)
    (hb : ∀ c ∈ b, isAsciiWs c = false) (hane : a ≠ []) (hbne : b ≠ []) :
    splitAsciiWs (a ++ ' ' :: b) = [a, b] := by
  unfold splitAsciiWs
  rw [splitAsciiWsAux_two [] a b ha hb (by simpa using hane) hbne]
  simp

/-! ## the two-column lines, column by column -/

/-- `PEPMASS=mz intensity` -/
theorem classify_pepmass_two (pf : String → Option ν) (isNum : Char → Bool) (hk : KeywordInitialsNotNumeric isNum)
    (a b : List Char) (ha : ∀ c ∈ a, isAsciiWs c = false) (hb : ∀ c ∈ b, isAsciiWs c = false)
    (hane : a ≠ []) (hbne : b ≠ []) :
    classify pf isNum ("PEPMASS=".toList ++ (a ++ ' ' :: b)) = .pepmass (tokOf pf a) (tokOf pf b) := by
  rw [classify_pepmass pf isNum hk, splitAsciiWs_two a b ha hb hane hbne]
  simp [tokAt]

/-- `PEPMASS=mz` -/
theorem classify_pepmass_one (pf : String → Option ν) (isNum : Char → Bool) (hk : KeywordInitialsNotNumeric isNum)
    (a : List Char) (ha : ∀ c ∈ a, isAsciiWs c = false) (hane : a ≠ []) :
    classify pf isNum ("PEPMASS=".toList ++ a) = .pepmass (tokOf pf a) .absent := by
  rw [classify_pepmass pf isNum hk, splitAsciiWs_one a ha hane]
  simp [tokAt]

/-- `mz intensity` -/
theorem classify_peak_two (pf : String → Option ν) (isNum : Char → Bool) (c : Char) (a b : List Char)
    (hc : isNum c = true) (ha : ∀ x ∈ c :: a, isAsciiWs x = false) (hb : ∀ x ∈ b, isAsciiWs x = false)
    (hbne : b ≠ []) :
    classify pf isNum (c :: a ++ ' ' :: b) = .peak (tokOf pf (c :: a)) (tokOf pf b) := by
  rw [List.cons_append, classify_peak pf isNum c _ hc, ← List.cons_append,
    splitAsciiWs_two (c :: a) b ha hb (by simp) hbne]
  simp [tokAt]

/-- `mz` alone: the intensity column is absent (the reader then stores intensity 1) -/
theorem classify_peak_one (pf : String → Option ν) (isNum : Char → Bool) (c : Char) (a : List Char)
    (hc : isNum c = true) (ha : ∀ x ∈ c :: a, isAsciiWs x = false) :
    classify pf isNum (c :: a) = .peak (tokOf pf (c :: a)) .absent := by
  rw [classify_peak pf isNum c _ hc, splitAsciiWs_one (c :: a) ha (by simp)]
  simp [tokAt]

/-! ## lines -/

theorem rustLinesAux_line (acc l rest : List Char) (hl : ∀ c ∈ l, c ≠ '\n') :
    rustLinesAux acc (l ++ '\n' :: rest) = finishLine (l.reverse ++ acc) :: rustLinesAux [] rest := by
  induction l generalizing acc with
  | nil => simp [rustLinesAux]
  | cons c l ih =>
    have hc : c ≠ '\n' := hl c (by simp)
    rw [List.cons_append, rustLinesAux]
    simp only [hc, if_false]
    rw [ih (c :: acc) fun c' hc' => hl c' (by simp [hc'])]
    simp

theorem finishLine_reverse (l : List Char) (h : l.getLast? ≠ some '\r') : finishLine l.reverse = l := by
  unfold finishLine
  split
  next a heq =>
    exfalso
    apply h
    have : l = (('\r' :: a : List Char)).reverse := by rw [← heq, List.reverse_reverse]
    rw [this]; simp
  next => simp

/-- a text made of `\n`-terminated lines (none containing `\n` or ending in `\r`) splits back into them -/
theorem rustLines_join (ls : List (List Char)) (hl : ∀ l ∈ ls, ∀ c ∈ l, c ≠ '\n')
    (hr : ∀ l ∈ ls, l.getLast? ≠ some '\r') :
    rustLines (ls.flatMap fun l => l ++ ['\n']) = ls := by
  unfold rustLines
  induction ls with
  | nil => simp [rustLinesAux]
  | cons l ls ih =>
    rw [List.flatMap_cons, List.append_assoc, List.singleton_append,
      rustLinesAux_line [] l _ (hl l (by simp)),
      ih (fun l' hl' => hl l' (by simp [hl'])) (fun l' hl' => hr l' (by simp [hl'])),
      List.append_nil, finishLine_reverse l (hr l (by simp))]

/-- `trim` leaves a line alone that neither starts nor ends with white space -/
theorem trim_id (l : List Char) (hf : ∀ c, l.head? = some c → isWs c = false)
    (hlast : ∀ c, l.getLast? = some c → isWs c = false) : trim l = l := by
  unfold trim
  have h1 : l.dropWhile isWs = l := by
    cases l with
    | nil => rfl
    | cons c r => simp [List.dropWhile, hf c rfl]
  rw [h1]
  have h2 : l.reverse.dropWhile isWs = l.reverse := by
    cases hrev : l.reverse with
    | nil => rfl
    | cons c r =>
      have : l.getLast? = some c := by
        rw [← List.head?_reverse, hrev]; rfl
      simp [List.dropWhile, hlast c this]
  rw [h2, List.reverse_reverse]

theorem finishLine_cr (l : List Char) : finishLine ((l ++ ['\r']).reverse) = l := by
  simp [finishLine]

/-- the same for `\r\n`-terminated lines (a line may even end in `\r` itself: only one is dropped) -/
theorem rustLines_join_crlf (ls : List (List Char)) (hl : ∀ l ∈ ls, ∀ c ∈ l, c ≠ '\n') :
    rustLines (ls.flatMap fun l => l ++ ['\r', '\n']) = ls := by
  unfold rustLines
  induction ls with
  | nil => simp [rustLinesAux]
  | cons l ls ih =>
    have e : l ++ ['\r', '\n'] = (l ++ ['\r']) ++ ['\n'] := by simp
    rw [List.flatMap_cons, e, List.append_assoc, List.singleton_append,
      rustLinesAux_line [] (l ++ ['\r']) _ (by
        intro c hc
        rcases List.mem_append.1 hc with hc | hc
        · exact hl l (by simp) c hc
        · rw [List.mem_singleton.1 hc]; decide),
      ih (fun l' hl' => hl l' (by simp [hl'])), List.append_nil, finishLine_cr]

/-- white space around a line (indentation, trailing blanks, Unicode spaces) is invisible to the reader -/
theorem trim_pad (pre l post : List Char) (hpre : ∀ c ∈ pre, isWs c = true) (hpost : ∀ c ∈ post, isWs c = true) :
    trim (pre ++ l ++ post) = trim l := by
  unfold trim
  rw [List.append_assoc, List.dropWhile_append_of_pos hpre, List.dropWhile_append]
  split
  next he =>
    have h1 : List.dropWhile isWs l = [] := by simpa using he
    have h2 : List.dropWhile isWs post = [] := by
      have := List.dropWhile_append_of_pos (l₂ := []) hpost
      simpa using this
    rw [h1, h2]
  next =>
    rw [List.reverse_append, List.dropWhile_append_of_pos (by simpa using hpost)]

/-! ## the lemmas are not vacuous -/

example : KeywordInitialsNotNumeric Char.isDigit := by unfold KeywordInitialsNotNumeric; decide

example :
    let pf : String → Option Nat := fun s =>
      if s = "500" then some 500 else if s = "7" then some 7 else if s = "10" then some 10 else
      if s = "60" then some 60 else if s = "100" then some 100 else if s = "5" then some 5 else none
    [ "BEGIN IONS", "END IONS", "TITLE=x y", "PEPMASS=500 7", "PEPMASS=", "PEPMASS=abc", "CHARGE=2+ and 3+", "TOL=10",
      "TOL= 10", "TOLU=ppm", "RTINSECONDS=60", "100 5", "100", "100 x", "# c", "", "SCANS=3" ].map
      (fun l => classify pf Char.isDigit l.toList) =
    [ .beginIons, .endIons, .title "x y", .pepmass (.ok 500) (.ok 7), .pepmass .absent .absent, .pepmass .bad .absent,
      .charge [2, 3], .tol (.ok 10), .tol .bad, .tolu "ppm", .rt (.ok 60), .peak (.ok 100) (.ok 5),
      .peak (.ok 100) .absent, .peak (.ok 100) .bad, .other, .other, .other ] := by decide

example : ["CHARGE=", "CHARGE=unknown", "CHARGE=Mr", "CHARGE=٣+"].map
    (fun l => classify (ν := Nat) (fun _ => none) Char.isDigit l.toList) = [.charge [], .charge [], .charge [], .charge []] := by
  decide

example : rustLines "a\nb\r\n\nc".toList = ["a".toList, "b".toList, [], "c".toList] ∧
    rustLines "a\n".toList = ["a".toList] ∧ rustLines [] = [] ∧
    trim "  \t a b \u00a0\r".toList = "a b".toList ∧
    splitAsciiWs " 100   5\t7 ".toList = ["100".toList, "5".toList, "7".toList] ∧
    rustLines "a\r\nb\r\r\n".toList = ["a".toList, "b\r".toList] := by decide

end Sage.C17
