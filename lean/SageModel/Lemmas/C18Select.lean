import SageModel.Model.Select
import Mathlib.Order.Defs.LinearOrder
import Mathlib.Order.Basic
import Mathlib.Tactic.Order

/-!
# Lemmas about the model of `select_most_intense_peak` (helper file of C18; reused by C04)

* the two walk loops of `binary_search_slice` cover every element of a sorted array that lies in
  `[lo, hi]`, for ANY start indices (i.e. any answer of std's `binary_search_by`);
* hence the slice scanned by `select_most_intense_peak` contains every in-window peak, and the result
  equals the linear scan over the whole peak list (`selectCore_eq_scan`);
* the invariant of the scan loop (`scan_spec`).
-/

namespace Sage.Select
variable {α : Type}

/-! ## the walk loops -/

theorem walkLeft_le [LinearOrder α] (l : Array α) (low : α) (s : Nat) : walkLeft l low s ≤ s := by
  induction s with
  | zero => simp [walkLeft]
  | succ i ih =>
    unfold walkLeft
    split
    · split <;> omega
    · omega

theorem walkLeft_succ_some [LinearOrder α] (l : Array α) (low x : α) (i : Nat) (h : l[i+1]? = some x) :
    walkLeft l low (i+1) = if x < low then i+1 else walkLeft l low i := by
  rw [walkLeft, h]

/-- exit condition of the left walk: index 0, or an element strictly below `low` -/
theorem walkLeft_exit [LinearOrder α] (l : Array α) (low : α) (s : Nat) (hs : s < l.size) :
    walkLeft l low s = 0 ∨ ∃ x, l[walkLeft l low s]? = some x ∧ x < low := by
  induction s with
  | zero => left; simp [walkLeft]
  | succ i ih =>
    have h1 : l[i+1]? = some l[i+1] := by simp [hs]
    rw [walkLeft_succ_some l low _ i h1]
    split
    · right; exact ⟨_, h1, by assumption⟩
    · exact ih (by omega)

/-- sortedness stated on optional reads -/
def SortedArr [LE α] (l : Array α) : Prop :=
  ∀ (i j : Nat) (x y : α), i ≤ j → l[i]? = some x → l[j]? = some y → x ≤ y

theorem left_covers [LinearOrder α] (l : Array α) (hl : SortedArr l) (low : α) (s : Nat) (hs : s < l.size)
    (i : Nat) (x : α) (hx : l[i]? = some x) (h : low ≤ x) : walkLeft l low s ≤ i := by
  rcases walkLeft_exit l low s hs with h0 | ⟨y, hy, hlt⟩
  · omega
  · by_contra hc
    have := hl i (walkLeft l low s) x y (by omega) hx hy
    order

/-- exit condition of the right walk: past the end, or an element strictly above `high` -/
theorem walkRight_exit [LinearOrder α] (l : Array α) (high : α) (idx f : Nat) (hf : idx + f ≥ l.size) :
    idx ≤ walkRight l high idx f ∧
      (walkRight l high idx f ≥ l.size ∨ ∃ x, l[walkRight l high idx f]? = some x ∧ high < x) := by
  induction f generalizing idx with
  | zero => simp only [walkRight]; exact ⟨Nat.le_refl _, Or.inl (by omega)⟩
  | succ f ih =>
    unfold walkRight
    cases hx : l[idx]? with
    | none =>
      simp only
      have : l.size ≤ idx := by
        by_contra hc
        have : l[idx]? = some l[idx] := by simp
        rw [this] at hx; cases hx
      exact ⟨Nat.le_refl _, Or.inl this⟩
    | some x =>
      simp only
      split
      · exact ⟨Nat.le_refl _, Or.inr ⟨x, hx, by assumption⟩⟩
      · have := ih (idx+1) (by omega)
        exact ⟨by omega, this.2⟩

theorem right_covers [LinearOrder α] (l : Array α) (hl : SortedArr l) (high : α) (idx f : Nat)
    (hf : idx + f ≥ l.size) (i : Nat) (x : α) (hx : l[i]? = some x) (h : x ≤ high) :
    i < walkRight l high idx f := by
  have hi' : i < l.size := by
    by_contra hc
    have : l[i]? = none := by simp; omega
    rw [this] at hx; cases hx
  rcases (walkRight_exit l high idx f hf).2 with hge | ⟨y, hy, hlt⟩
  · omega
  · by_contra hc
    have := hl (walkRight l high idx f) i y x (by omega) hy hx
    order

theorem walkRight_ge [LinearOrder α] (l : Array α) (high : α) (idx f : Nat) :
    idx ≤ walkRight l high idx f := by
  induction f generalizing idx with
  | zero => simp [walkRight]
  | succ f ih =>
    unfold walkRight
    split
    · split
      · omega
      · have := ih (idx+1); omega
    · omega

/-- `0 ≤ left ≤ right ≤ len` whenever the first binary search answers an index `≤ len` — so the slice
    expression `peaks[i..j]` of the Rust code cannot panic -/
theorem bss_le [LinearOrder α] (l : Array α) (lo hi : α) (rLo rHi : Nat) (hr : rLo ≤ l.size) :
    (bss l lo hi rLo rHi).1 ≤ (bss l lo hi rLo rHi).2 ∧ (bss l lo hi rLo rHi).2 ≤ l.size := by
  unfold bss
  simp only
  have h1 := walkLeft_le l lo (rLo - 1)
  have h2 := walkRight_ge l hi (rHi + walkLeft l lo (rLo - 1)) (l.size - (rHi + walkLeft l lo (rLo - 1)))
  omega

/-- the range returned by `binary_search_slice` contains every element of `[lo, hi]`, whatever the two
    binary searches answered (`rLo ≤ len` is all that is used) -/
theorem bss_covers [LinearOrder α] (l : Array α) (hl : SortedArr l) (lo hi : α) (rLo rHi : Nat)
    (hr : rLo ≤ l.size) (i : Nat) (x : α) (hx : l[i]? = some x) (h1 : lo ≤ x) (h2 : x ≤ hi) :
    (bss l lo hi rLo rHi).1 ≤ i ∧ i < (bss l lo hi rLo rHi).2 := by
  have hi' : i < l.size := by
    by_contra hc
    have : l[i]? = none := by simp; omega
    rw [this] at hx; cases hx
  unfold bss
  simp only
  constructor
  · exact left_covers l hl lo (rLo - 1) (by omega) i x hx h1
  · have := right_covers l hl hi (rHi + walkLeft l lo (rLo - 1)) (l.size - (rHi + walkLeft l lo (rLo - 1)))
      (by omega) i x hx h2
    omega

/-! ## std's binary search answers an index `≤ len` -/

theorem binLoop_lt [LinearOrder α] (l : Array α) (q : α) (n fuel size base : Nat)
    (h1 : 1 ≤ size) (h2 : base + size ≤ n) : binLoop l q fuel size base < n := by
  induction fuel generalizing size base with
  | zero => simp only [binLoop]; omega
  | succ f ih =>
    unfold binLoop
    split
    · apply ih
      · omega
      · split
        · split
          · show base + (size - size / 2) ≤ n
            omega
          · show base + size / 2 + (size - size / 2) ≤ n
            omega
        · show base + (size - size / 2) ≤ n
          omega
    · omega

theorem binSearchBy_le [LinearOrder α] (l : Array α) (q : α) : binSearchBy l q ≤ l.size := by
  unfold binSearchBy
  split
  · omega
  · have := binLoop_lt l q l.size l.size l.size 0 (by omega) (by omega)
    generalize binLoop l q l.size l.size 0 = base at this
    show (match l[base]? with
      | some x => (match cmp x q with | .eq => base | .lt => base + 1 | .gt => base)
      | none => base) ≤ l.size
    split
    · split
      · omega
      · show base + 1 ≤ l.size
        omega
      · omega
    · omega

/-! ## the scanned slice contains every in-window peak -/

theorem filter_slice {β : Type} (p : β → Bool) (l : List β) (i j : Nat)
    (h : ∀ (k : Nat) (x : β), l[k]? = some x → p x = true → i ≤ k ∧ k < j) :
    ((l.drop i).take (j - i)).filter p = l.filter p := by
  have e1 : l = l.take i ++ ((l.drop i).take (j - i) ++ (l.drop i).drop (j - i)) := by
    rw [List.take_append_drop, List.take_append_drop]
  have hA : (l.take i).filter p = [] := by
    rw [List.filter_eq_nil_iff]
    intro x hx
    obtain ⟨k, hk, rfl⟩ := List.mem_iff_getElem.mp hx
    intro hp
    have hk' : k < i := by
      have := hk; simp only [List.length_take] at this; omega
    have := h k ((l.take i)[k]) (by
      rw [List.getElem_take]
      have : k < l.length := by
        have := hk; simp only [List.length_take] at this; omega
      simp [this]) hp
    omega
  have hB : ((l.drop i).drop (j - i)).filter p = [] := by
    rw [List.filter_eq_nil_iff]
    intro x hx
    rw [List.drop_drop] at hx
    obtain ⟨k, hk, rfl⟩ := List.mem_iff_getElem.mp hx
    intro hp
    have := h (i + (j - i) + k) ((l.drop (i + (j - i)))[k]) (by
      rw [List.getElem_drop]
      have : i + (j - i) + k < l.length := by
        have := hk; simp only [List.length_drop] at this; omega
      simp [this]) hp
    omega
  conv => rhs; rw [e1]
  rw [List.filter_append, List.filter_append, hA, hB]
  simp

/-- sortedness of the mass array from sortedness of the peak list -/
theorem sortedArr_of_pairwise [LinearOrder α] (peaks : List (Peak α))
    (hs : peaks.Pairwise (fun a b => a.mass ≤ b.mass)) :
    SortedArr (peaks.map (·.mass)).toArray := by
  intro i j x y hij hx hy
  simp only [List.getElem?_toArray, List.getElem?_map] at hx hy
  cases hpi : peaks[i]? with
  | none => rw [hpi] at hx; cases hx
  | some a =>
    cases hpj : peaks[j]? with
    | none => rw [hpj] at hy; cases hy
    | some b =>
      rw [hpi] at hx; rw [hpj] at hy
      simp only [Option.map_some, Option.some.injEq] at hx hy
      subst hx; subst hy
      rcases Nat.lt_or_eq_of_le hij with hlt | heq
      · have hi := (List.getElem?_eq_some_iff.mp hpi)
        have hj := (List.getElem?_eq_some_iff.mp hpj)
        obtain ⟨hil, rfl⟩ := hi
        obtain ⟨hjl, rfl⟩ := hj
        exact (List.pairwise_iff_getElem.mp hs) i j hil hjl hlt
      · subst heq
        rw [hpi] at hpj
        cases hpj
        exact le_refl _

/-- **binary search is irrelevant**: for peaks sorted by mass and any answers of the two binary
    searches (`rLo ≤ len`), `select_most_intense_peak` equals the linear scan of the whole list -/
theorem selectCore_eq_scan [LinearOrder α] [OfNat α 0] (peaks : List (Peak α)) (lo hi : α) (rLo rHi : Nat)
    (hs : peaks.Pairwise (fun a b => a.mass ≤ b.mass)) (hr : rLo ≤ peaks.length) :
    selectCore peaks lo hi rLo rHi = scan peaks lo hi := by
  unfold selectCore scan
  simp only
  rw [filter_slice]
  intro k x hx hp
  simp only [inWin, Bool.and_eq_true, decide_eq_true_eq] at hp
  apply bss_covers _ (sortedArr_of_pairwise peaks hs) lo hi rLo rHi (by simpa using hr) k x.mass
  · simp [hx]
  · exact hp.1
  · exact hp.2

theorem selectIn_eq_scan [LinearOrder α] [OfNat α 0] (peaks : List (Peak α)) (lo hi : α)
    (hs : peaks.Pairwise (fun a b => a.mass ≤ b.mass)) :
    selectIn peaks lo hi = scan peaks lo hi := by
  unfold selectIn
  simp only
  apply selectCore_eq_scan _ _ _ _ _ hs
  have := binSearchBy_le (peaks.map (·.mass)).toArray lo
  simpa using this

/-! ## the scan loop -/

/-- invariant of the `for` loop, started from any state `(b, m)` -/
theorem scan_fold [LinearOrder α] (W : List (Peak α)) (b : Option (Peak α)) (m : α) :
    ((W.foldl scanStep (b, m)).1 = b ∧ (W.foldl scanStep (b, m)).2 = m ∧ ∀ q ∈ W, q.intensity < m) ∨
    (∃ p, (W.foldl scanStep (b, m)).1 = some p ∧ (W.foldl scanStep (b, m)).2 = p.intensity ∧
      m ≤ p.intensity ∧ (∀ q ∈ W, q.intensity ≤ p.intensity) ∧
      ∃ W1 W2, W = W1 ++ p :: W2 ∧ ∀ q ∈ W2, q.intensity < p.intensity) := by
  induction W generalizing b m with
  | nil => left; simp
  | cons x xs ih =>
    simp only [List.foldl_cons]
    by_cases hx : m ≤ x.intensity
    · have hstep : scanStep (b, m) x = (some x, x.intensity) := by simp [scanStep, hx]
      rw [hstep]
      rcases ih (some x) x.intensity with ⟨h1, h2, h3⟩ | ⟨p, h1, h2, h3, h4, W1, W2, h5, h6⟩
      · right
        refine ⟨x, h1, h2, hx, ?_, [], xs, rfl, h3⟩
        intro q hq
        rcases List.mem_cons.mp hq with rfl | hq
        · exact le_refl _
        · exact le_of_lt (h3 q hq)
      · right
        refine ⟨p, h1, h2, le_trans hx h3, ?_, x :: W1, W2, by rw [h5]; rfl, h6⟩
        intro q hq
        rcases List.mem_cons.mp hq with rfl | hq
        · exact h3
        · exact h4 q hq
    · have hstep : scanStep (b, m) x = (b, m) := by simp [scanStep, hx]
      rw [hstep]
      have hxm : x.intensity < m := lt_of_not_ge hx
      rcases ih b m with ⟨h1, h2, h3⟩ | ⟨p, h1, h2, h3, h4, W1, W2, h5, h6⟩
      · left
        refine ⟨h1, h2, ?_⟩
        intro q hq
        rcases List.mem_cons.mp hq with rfl | hq
        · exact hxm
        · exact h3 q hq
      · right
        refine ⟨p, h1, h2, h3, ?_, x :: W1, W2, by rw [h5]; rfl, h6⟩
        intro q hq
        rcases List.mem_cons.mp hq with rfl | hq
        · exact le_of_lt (lt_of_lt_of_le hxm h3)
        · exact h4 q hq

/-- what the linear scan returns, in terms of the in-window peaks `W` (no sign hypothesis) -/
theorem scan_spec [LinearOrder α] [OfNat α 0] (peaks : List (Peak α)) (lo hi : α) :
    (scan peaks lo hi = none ∧ ∀ q ∈ inWindow peaks lo hi, q.intensity < 0) ∨
    (∃ p, scan peaks lo hi = some p ∧ (0 : α) ≤ p.intensity ∧
      (∀ q ∈ inWindow peaks lo hi, q.intensity ≤ p.intensity) ∧
      ∃ W1 W2, inWindow peaks lo hi = W1 ++ p :: W2 ∧ ∀ q ∈ W2, q.intensity < p.intensity) := by
  unfold scan inWindow
  rcases scan_fold (peaks.filter (inWin lo hi)) none (0 : α) with ⟨h1, _, h3⟩ | ⟨p, h1, _, h3, h4, h5⟩
  · left; exact ⟨h1, h3⟩
  · right; exact ⟨p, h1, h3, h4, h5⟩

end Sage.Select
