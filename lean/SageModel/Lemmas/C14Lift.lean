import SageModel.Lemmas.C14XQ
import Mathlib.Tactic.Ring
import Mathlib.Tactic.FieldSimp

/-!
# C14 — the model at `XQ` is `some` of the model at `Rat` unless it divides by zero

`Lifts F Fq`: the transcendental parameters at `XQ` are the strict liftings of those at `Rat`
(finite in, finite out — no overflow; `Fq.exp` MAY return 0, which is how underflow is modelled;
non-finite in, non-finite out for `exp`). Under it every piece of the model at `XQ` either equals
`some` of the same piece at `Rat`, or is `none` because a divisor is 0. This is what makes an exact
"non-finite iff …" statement possible.
-/

namespace Sage.C14

structure Lifts (F : Fns XQ) (Fq : Fns Rat) : Prop where
  exp : ∀ x : Rat, F.exp (some x) = some (Fq.exp x)
  exp_none : F.exp none = none
  sqrt : ∀ x : Rat, F.sqrt (some x) = some (Fq.sqrt x)
  powf : ∀ a b : Rat, F.powf (some a) (some b) = some (Fq.powf a b)
  pi : F.pi = some Fq.pi

@[simp] theorem xq_none_add (a : XQ) : (none : XQ) + a = none := rfl
@[simp] theorem xq_add_none (a : XQ) : a + (none : XQ) = none := by cases a <;> rfl
@[simp] theorem xq_none_mul (a : XQ) : (none : XQ) * a = none := rfl
@[simp] theorem xq_mul_none (a : XQ) : a * (none : XQ) = none := by cases a <;> rfl
@[simp] theorem xq_none_sub (a : XQ) : (none : XQ) - a = none := rfl
@[simp] theorem xq_sub_none (a : XQ) : a - (none : XQ) = none := by cases a <;> rfl
@[simp] theorem xq_none_div (a : XQ) : (none : XQ) / a = none := rfl
@[simp] theorem xq_div_none (a : XQ) : a / (none : XQ) = none := by cases a <;> rfl
@[simp] theorem xq_neg_none : -(none : XQ) = none := rfl
theorem xq_div_eq (a b : Rat) : (some a : XQ) / some b = if b = 0 then none else some (a / b) := rfl

@[simp] theorem ofNat_rat' (n : Nat) : (ofNat n : Rat) = (n : Rat) := rfl

theorem sum_lift (l : List Rat) : sum (l.map some : List XQ) = some (sum l) := by
  unfold sum
  have : ∀ (a : Rat), (l.map some).foldl (fun (acc : XQ) x => acc + x) (some a) =
      some (l.foldl (fun acc x => acc + x) a) := by
    induction l with
    | nil => intro a; rfl
    | cons x xs ih => intro a; simp only [List.map_cons, List.foldl_cons, xq_add]; exact ih _
  exact this _

theorem mean_lift (l : List Rat) (hl : l ≠ []) : mean (l.map some : List XQ) = some (mean l) := by
  unfold mean
  rw [sum_lift, List.length_map]
  have : ((l.length : Nat) : Rat) ≠ 0 := by
    have := List.length_pos_iff.mpr hl
    exact_mod_cast (ne_of_gt this)
  simp only [xq_ofNat, ofNat_rat']
  rw [xq_div _ _ this]

theorem ssd_lift (m : Rat) (l : List Rat) : ssd (some m : XQ) (l.map some) = some (ssd m l) := by
  unfold ssd
  have : ∀ (a : Rat), (l.map some).foldl (fun (acc : XQ) x => acc + sq (x - some m)) (some a) =
      some (l.foldl (fun acc x => acc + sq (x - m)) a) := by
    induction l with
    | nil => intro a; rfl
    | cons x xs ih => intro a; simp only [List.map_cons, List.foldl_cons, xq_sub, sq, xq_mul, xq_add]; exact ih _
  exact this _

theorem std_lift (F : Fns XQ) (Fq : Fns Rat) (L : Lifts F Fq) (l : List Rat) (hl : l ≠ []) :
    std F.sqrt (l.map some : List XQ) = some (std Fq.sqrt l) := by
  unfold std
  simp only [mean_lift l hl, ssd_lift, List.length_map, xq_ofNat, ofNat_rat']
  have : ((l.length : Nat) : Rat) ≠ 0 := by
    have := List.length_pos_iff.mpr hl
    exact_mod_cast (ne_of_gt this)
  rw [xq_div _ _ this, L.sqrt]

/-- `Kde::new` at `XQ` on a non-empty finite sample is the lifting of `Kde::new` at `Rat` -/
theorem kde_new_lift (F : Fns XQ) (Fq : Fns Rat) (L : Lifts F Fq) (l : List Rat) (hl : l ≠ []) (adj : Rat) :
    Kde.new F (l.map some) (some adj) =
      { sample := l.map some, bandwidth := some (Kde.new Fq l adj).bandwidth,
        constant := some (Kde.new Fq l adj).constant } := by
  have hn : ((l.length : Nat) : Rat) ≠ 0 := by
    have := List.length_pos_iff.mpr hl
    exact_mod_cast (ne_of_gt this)
  unfold Kde.new
  simp only [std_lift F Fq L l hl, List.length_map, xq_ofNat, ofNat_rat', L.pi]
  rw [xq_div _ _ (by norm_num : ((3 : Nat) : Rat) ≠ 0), xq_div _ _ (by norm_num : ((5 : Nat) : Rat) ≠ 0),
    xq_div _ _ hn]
  simp only [L.powf, L.sqrt, xq_mul]

theorem kernel_lift (F : Fns XQ) (Fq : Fns Rat) (L : Lifts F Fq) (z : Rat) :
    kernel F (some z : XQ) = some (kernel Fq z) := by
  unfold kernel sq
  simp only [xq_ofNat, ofNat_rat']
  rw [xq_div _ _ (by norm_num : ((2 : Nat) : Rat) ≠ 0)]
  simp only [xq_neg, xq_mul, L.exp]

theorem kernel_none (F : Fns XQ) (Fq : Fns Rat) (L : Lifts F Fq) : kernel F (none : XQ) = none := by
  unfold kernel sq
  simp only [xq_mul_none, L.exp_none]

/-- the kernel sum: lifted when the bandwidth is non-zero, non-finite when it is zero -/
theorem ksum_lift (F : Fns XQ) (Fq : Fns Rat) (L : Lifts F Fq) (l : List Rat) (h x : Rat) (c : XQ) (cq : Rat) :
    Kde.ksum F { sample := l.map some, bandwidth := some h, constant := c } (some x) =
      if h = 0 ∧ l ≠ [] then none
      else some (Kde.ksum Fq { sample := l, bandwidth := h, constant := cq } x) := by
  unfold Kde.ksum
  simp only [xq_ofNat, ofNat_rat']
  by_cases hh : h = 0
  · subst hh
    cases l with
    | nil => simp
    | cons y ys =>
      simp only [List.map_cons, List.foldl_cons, xq_sub, xq_div_zero, kernel_none F Fq L, xq_add_none]
      have : ∀ (l : List XQ), l.foldl (fun (acc : XQ) xi => acc + kernel F ((some x - xi) / some 0)) none = none := by
        intro l; induction l with
        | nil => rfl
        | cons z zs ih => simp only [List.foldl_cons, xq_none_add]; exact ih
      rw [this]; simp
  · have : ∀ (a : Rat), (l.map some).foldl (fun (acc : XQ) xi => acc + kernel F ((some x - xi) / some h)) (some a) =
        some (l.foldl (fun acc xi => acc + kernel Fq ((x - xi) / h)) a) := by
      induction l with
      | nil => intro a; rfl
      | cons y ys ih =>
        intro a
        simp only [List.map_cons, List.foldl_cons, xq_sub]
        rw [xq_div _ _ hh, kernel_lift F Fq L, xq_add]
        exact ih _
    rw [this]; simp [hh]

theorem classOf_map (b : Bool) (scores : List Rat) (decoys : List Bool) :
    classOf b (scores.map some : List XQ) decoys = (classOf b scores decoys).map some := by
  unfold classOf
  induction scores generalizing decoys with
  | nil => simp
  | cons s ss ih =>
    cases decoys with
    | nil => simp
    | cons d ds =>
      simp only [List.map_cons, List.zip_cons_cons, List.filter_cons]
      split <;> simp [ih ds]

end Sage.C14
