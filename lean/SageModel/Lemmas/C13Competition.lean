import SageModel.Model.C13
import Mathlib.Order.Defs.LinearOrder

/-!
# C13 — what the competition loop computes

`competition bot psms` (the imperative loop: find-or-insert, then update) is, entry for entry,
`(keysOf psms).map fun k => (k, compOf bot psms k)`: the keys in order of first appearance, each with
the fold of the updates of *its* PSMs. Everything else about the map follows from this.
-/

namespace Sage.C13

variable {κ ι σ : Type} [DecidableEq κ]

/-- keys in order of first appearance -/
def keysOf (psms : List (Psm κ ι σ)) : List κ :=
  psms.foldl (fun ks p => if p.key ∈ ks then ks else ks ++ [p.key]) []

/-- the entry of key `k`: the updates of the PSMs filed under `k`, in supply order -/
def compOf [LE σ] [DecidableLE σ] (bot : σ) (psms : List (Psm κ ι σ)) (k : κ) : Comp ι σ :=
  (psms.filter fun p => p.key = k).foldl Comp.upd (Comp.init bot)

theorem keys_fold_mem (l : List (Psm κ ι σ)) (ks : List κ) (k : κ) :
    k ∈ l.foldl (fun ks p => if p.key ∈ ks then ks else ks ++ [p.key]) ks ↔ k ∈ ks ∨ ∃ p ∈ l, p.key = k := by
  induction l generalizing ks with
  | nil => simp
  | cons p l ih =>
    simp only [List.foldl_cons, ih, List.mem_cons, exists_eq_or_imp]
    by_cases h : p.key ∈ ks
    · simp only [h, ↓reduceIte]
      constructor
      · rintro (h1 | h1)
        · exact Or.inl h1
        · exact Or.inr (Or.inr h1)
      · rintro (h1 | h1 | h1)
        · exact Or.inl h1
        · exact Or.inl (h1 ▸ h)
        · exact Or.inr h1
    · simp only [h, ↓reduceIte, List.mem_append, List.mem_singleton]
      constructor
      · rintro ((h1 | h1) | h1)
        · exact Or.inl h1
        · exact Or.inr (Or.inl h1.symm)
        · exact Or.inr (Or.inr h1)
      · rintro (h1 | h1 | h1)
        · exact Or.inl (Or.inl h1)
        · exact Or.inl (Or.inr h1.symm)
        · exact Or.inr h1

theorem keys_fold_nodup (l : List (Psm κ ι σ)) (ks : List κ) (h : ks.Nodup) :
    (l.foldl (fun ks p => if p.key ∈ ks then ks else ks ++ [p.key]) ks).Nodup := by
  induction l generalizing ks with
  | nil => simpa
  | cons p l ih =>
    simp only [List.foldl_cons]
    apply ih
    by_cases hm : p.key ∈ ks
    · simpa [hm] using h
    · simp only [hm, ↓reduceIte]
      rw [List.nodup_append]
      refine ⟨h, by simp, ?_⟩
      intro a ha b hb
      simp only [List.mem_singleton] at hb
      subst hb
      intro hab; subst hab; exact hm ha

theorem mem_keysOf (psms : List (Psm κ ι σ)) (k : κ) : k ∈ keysOf psms ↔ ∃ p ∈ psms, p.key = k := by
  simp [keysOf, keys_fold_mem]

theorem nodup_keysOf (psms : List (Psm κ ι σ)) : (keysOf psms).Nodup :=
  keys_fold_nodup psms [] List.nodup_nil

theorem keysOf_append_singleton (pre : List (Psm κ ι σ)) (p : Psm κ ι σ) :
    keysOf (pre ++ [p]) = if p.key ∈ keysOf pre then keysOf pre else keysOf pre ++ [p.key] := by
  unfold keysOf
  rw [List.foldl_append]
  rfl

section
variable [LE σ] [DecidableLE σ]

theorem compOf_append_singleton (bot : σ) (pre : List (Psm κ ι σ)) (p : Psm κ ι σ) (k : κ) :
    compOf bot (pre ++ [p]) k = if p.key = k then (compOf bot pre k).upd p else compOf bot pre k := by
  unfold compOf
  by_cases h : p.key = k
  · simp [List.filter_append, h, List.foldl_append]
  · simp [List.filter_append, h]

theorem compOf_of_not_mem (bot : σ) (pre : List (Psm κ ι σ)) (k : κ) (h : k ∉ keysOf pre) :
    compOf (ι := ι) bot pre k = Comp.init bot := by
  unfold compOf
  have : (pre.filter fun p => p.key = k) = [] := by
    rw [List.filter_eq_nil_iff]
    intro p hp
    simp only [decide_eq_true_eq]
    intro hk
    exact h ((mem_keysOf pre k).mpr ⟨p, hp, hk⟩)
  rw [this]; rfl

/-- one step of the loop on a map that is given as a function on a duplicate-free key list -/
theorem updMap_map (bot : σ) (ks : List κ) (hnd : ks.Nodup) (f : κ → Comp ι σ) (p : Psm κ ι σ) :
    updMap bot (ks.map fun k => (k, f k)) p =
      if p.key ∈ ks then ks.map fun k => (k, if p.key = k then (f k).upd p else f k)
      else (ks.map fun k => (k, f k)) ++ [(p.key, (Comp.init bot).upd p)] := by
  induction ks with
  | nil => simp [updMap]
  | cons k ks ih =>
    rw [List.nodup_cons] at hnd
    simp only [List.map_cons, updMap]
    by_cases hk : k = p.key
    · subst hk
      simp only [↓reduceIte, List.mem_cons, true_or, List.cons.injEq, true_and]
      apply List.map_congr_left
      intro k' hk'
      have : p.key ≠ k' := fun h => hnd.1 (h ▸ hk')
      simp [this]
    · have hk' : ¬ p.key = k := fun h => hk h.symm
      simp only [hk, ↓reduceIte, ih hnd.2, List.mem_cons, hk', false_or]
      split <;> simp

/-- the map after the loop, as a function of the PSM list -/
def repr (bot : σ) (psms : List (Psm κ ι σ)) : List (κ × Comp ι σ) :=
  (keysOf psms).map fun k => (k, compOf bot psms k)

theorem updMap_repr (bot : σ) (pre : List (Psm κ ι σ)) (p : Psm κ ι σ) :
    updMap bot (repr bot pre) p = repr bot (pre ++ [p]) := by
  unfold repr
  rw [updMap_map bot _ (nodup_keysOf pre), keysOf_append_singleton]
  by_cases h : p.key ∈ keysOf pre
  · simp only [h, ↓reduceIte]
    apply List.map_congr_left
    intro k _
    rw [compOf_append_singleton]
  · simp only [h, ↓reduceIte, List.map_append, List.map_cons, List.map_nil]
    congr 1
    · apply List.map_congr_left
      intro k hk
      have : ¬ p.key = k := fun e => h (e ▸ hk)
      rw [compOf_append_singleton]; simp [this]
    · rw [compOf_append_singleton, compOf_of_not_mem bot pre p.key h]; simp

theorem foldl_updMap_repr (bot : σ) (pre rest : List (Psm κ ι σ)) :
    rest.foldl (updMap bot) (repr bot pre) = repr bot (pre ++ rest) := by
  induction rest generalizing pre with
  | nil => simp
  | cons p rest ih =>
    simp only [List.foldl_cons, updMap_repr, ih]
    simp

/-- **the competition loop computes `repr`** -/
theorem competition_eq (bot : σ) (psms : List (Psm κ ι σ)) :
    competition bot psms = (keysOf psms).map fun k => (k, compOf bot psms k) := by
  have := foldl_updMap_repr bot [] psms
  simpa [competition, repr, keysOf] using this

theorem mem_competition (bot : σ) (psms : List (Psm κ ι σ)) (k : κ) (c : Comp ι σ) :
    (k, c) ∈ competition bot psms ↔ (∃ p ∈ psms, p.key = k) ∧ c = compOf bot psms k := by
  rw [competition_eq, ← mem_keysOf]
  simp only [List.mem_map, Prod.mk.injEq]
  constructor
  · rintro ⟨k', hk', rfl, rfl⟩; exact ⟨hk', rfl⟩
  · rintro ⟨hk, rfl⟩; exact ⟨k, hk, rfl, rfl⟩

theorem nodup_competition (bot : σ) (psms : List (Psm κ ι σ)) :
    ((competition bot psms).map (·.1)).Nodup := by
  rw [competition_eq]
  simpa [List.map_map, Function.comp_def] using nodup_keysOf psms

end

end Sage.C13

namespace Sage.C13

variable {κ ι σ : Type}

section content
variable [LE σ] [DecidableLE σ]

theorem foldl_upd_fwd (l : List (Psm κ ι σ)) (c : Comp ι σ) :
    (l.foldl Comp.upd c).fwd = (l.filter fun p => !p.decoy).foldl (fun m p => smax m p.score) c.fwd := by
  induction l generalizing c with
  | nil => rfl
  | cons p l ih =>
    simp only [List.foldl_cons, ih]
    cases hd : p.decoy <;> simp [Comp.upd, hd]

theorem foldl_upd_rev (l : List (Psm κ ι σ)) (c : Comp ι σ) :
    (l.foldl Comp.upd c).rev = (l.filter fun p => p.decoy).foldl (fun m p => smax m p.score) c.rev := by
  induction l generalizing c with
  | nil => rfl
  | cons p l ih =>
    simp only [List.foldl_cons, ih]
    cases hd : p.decoy <;> simp [Comp.upd, hd]

theorem foldl_upd_fix (l : List (Psm κ ι σ)) (c : Comp ι σ) :
    (l.foldl Comp.upd c).fix = (l.filter fun p => !p.decoy).foldl (fun _ p => some p.ix) c.fix := by
  induction l generalizing c with
  | nil => rfl
  | cons p l ih =>
    simp only [List.foldl_cons, ih]
    cases hd : p.decoy <;> simp [Comp.upd, hd]

theorem foldl_upd_rix (l : List (Psm κ ι σ)) (c : Comp ι σ) :
    (l.foldl Comp.upd c).rix = (l.filter fun p => p.decoy).foldl (fun _ p => some p.ix) c.rix := by
  induction l generalizing c with
  | nil => rfl
  | cons p l ih =>
    simp only [List.foldl_cons, ih]
    cases hd : p.decoy <;> simp [Comp.upd, hd]

end content

/-- "last index wins": the stored index is the index of some PSM of the list (or the initial value) -/
theorem foldl_last_some (l : List (Psm κ ι σ)) (o : Option ι) (i : ι)
    (h : l.foldl (fun _ p => some p.ix) o = some i) : o = some i ∨ ∃ p ∈ l, p.ix = i := by
  induction l generalizing o with
  | nil => exact Or.inl h
  | cons p l ih =>
    simp only [List.foldl_cons] at h
    rcases ih _ h with h1 | ⟨q, hq, hqi⟩
    · right; exact ⟨p, by simp, by simpa using h1⟩
    · right; exact ⟨q, List.mem_cons_of_mem _ hq, hqi⟩

/-- if all PSMs of the list carry the same index, that index is what is stored (when the list is not empty) -/
theorem foldl_last_const (l : List (Psm κ ι σ)) (o : Option ι) (i : ι) (h : ∀ p ∈ l, p.ix = i) :
    l.foldl (fun _ p => some p.ix) o = if l = [] then o else some i := by
  induction l generalizing o with
  | nil => rfl
  | cons p l ih =>
    simp only [List.foldl_cons, reduceCtorEq, ↓reduceIte]
    rw [ih _ (fun q hq => h q (List.mem_cons_of_mem _ hq))]
    split
    · rw [h p (by simp)]
    · rfl

end Sage.C13
