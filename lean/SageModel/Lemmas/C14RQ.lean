import SageModel.Model.C14
import Mathlib.Algebra.Order.Field.Rat
import Mathlib.Tactic.Linarith
import Mathlib.Tactic.Positivity
import Mathlib.Tactic.NormNum
import Mathlib.Tactic.Ring

/-!
# C14 — `RQ rnd`: rationals under an abstract rounding operator

Every arithmetic operation is followed by `rnd : Rat → Rat`, like IEEE arithmetic rounds every
operation to a representable number. Comparisons, `max`/`min`, negation, `floor` and the clamp are
exact (they are exact in IEEE arithmetic too). The generic model of `SageModel/Model/C14.lean` runs
at this type unchanged, so a theorem about `bayes (α := RQ rnd)` is a theorem about the code's formula
under ANY rounding with the properties collected in `Rounding` (hypotheses, not axioms): monotone,
`rnd 0 = 0`, `rnd 1 = 1`, odd, idempotent. IEEE round-to-nearest-even has all of them (overflow aside).
-/

namespace Sage.C14

/-- a number computed with the rounding operator `rnd` -/
structure RQ (rnd : Rat → Rat) where
  val : Rat

namespace RQ
variable {rnd : Rat → Rat}

instance : Add (RQ rnd) := ⟨fun a b => ⟨rnd (a.val + b.val)⟩⟩
instance : Sub (RQ rnd) := ⟨fun a b => ⟨rnd (a.val - b.val)⟩⟩
instance : Mul (RQ rnd) := ⟨fun a b => ⟨rnd (a.val * b.val)⟩⟩
instance : Div (RQ rnd) := ⟨fun a b => ⟨rnd (a.val / b.val)⟩⟩
instance : Neg (RQ rnd) := ⟨fun a => ⟨-a.val⟩⟩
instance : NumExt (RQ rnd) where
  ofNat n := ⟨rnd (n : Rat)⟩
  floorNat x := x.val.floor.toNat
  fmax a b := ⟨max a.val b.val⟩
  fmin a b := ⟨min a.val b.val⟩
  clamp01 x := ⟨if x.val < 0 then 0 else if 1 < x.val then 1 else x.val⟩

@[simp] theorem add_val (a b : RQ rnd) : (a + b).val = rnd (a.val + b.val) := rfl
@[simp] theorem sub_val (a b : RQ rnd) : (a - b).val = rnd (a.val - b.val) := rfl
@[simp] theorem mul_val (a b : RQ rnd) : (a * b).val = rnd (a.val * b.val) := rfl
@[simp] theorem div_val (a b : RQ rnd) : (a / b).val = rnd (a.val / b.val) := rfl
@[simp] theorem neg_val (a : RQ rnd) : (-a).val = -a.val := rfl
@[simp] theorem ofNat_val (n : Nat) : (ofNat n : RQ rnd).val = rnd (n : Rat) := rfl
@[simp] theorem clamp_val (x : RQ rnd) :
    (clamp01 x).val = if x.val < 0 then 0 else if 1 < x.val then 1 else x.val := rfl

end RQ

/-- what the theorems need of a rounding operator -/
structure Rounding (rnd : Rat → Rat) : Prop where
  mono : ∀ x y, x ≤ y → rnd x ≤ rnd y
  zero : rnd 0 = 0
  one : rnd 1 = 1
  odd : ∀ x, rnd (-x) = -rnd x
  idem : ∀ x, rnd (rnd x) = rnd x

namespace Rounding
variable {rnd : Rat → Rat} (R : Rounding rnd)
include R

theorem nonneg {x : Rat} (h : 0 ≤ x) : 0 ≤ rnd x := by
  have := R.mono 0 x h; rwa [R.zero] at this

theorem nonpos {x : Rat} (h : x ≤ 0) : rnd x ≤ 0 := by
  have := R.mono x 0 h; rwa [R.zero] at this

theorem le_one {x : Rat} (h : x ≤ 1) : rnd x ≤ 1 := by
  have := R.mono x 1 h; rwa [R.one] at this

end Rounding

/-- example of a genuinely lossy rounding: truncation toward zero to multiples of 1/8 -/
def rnd8 (x : Rat) : Rat :=
  if 0 ≤ x then ((x * 8).floor : Rat) / 8 else -(((-x * 8).floor : Rat) / 8)

theorem rnd8_rounding : Rounding rnd8 := by
  have fl_mono : ∀ a b : Rat, a ≤ b → ((a * 8).floor : Rat) / 8 ≤ ((b * 8).floor : Rat) / 8 := by
    intro a b h
    have : (a * 8).floor ≤ (b * 8).floor := Rat.floor_monotone (by linarith)
    have : ((a * 8).floor : Rat) ≤ ((b * 8).floor : Rat) := by exact_mod_cast this
    linarith
  have fl_nonneg : ∀ a : Rat, 0 ≤ a → 0 ≤ ((a * 8).floor : Rat) / 8 := by
    intro a h
    have : (0 : Int) ≤ (a * 8).floor := Rat.le_floor_iff.mpr (by simp; linarith)
    have : (0 : Rat) ≤ ((a * 8).floor : Rat) := by exact_mod_cast this
    positivity
  have f0 : (0 : Rat).floor = 0 := by decide +kernel
  have f8 : (8 : Rat).floor = 8 := by decide +kernel
  refine ⟨?_, ?_, ?_, ?_, ?_⟩
  · intro x y h
    unfold rnd8
    by_cases hx : 0 ≤ x
    · have hy : 0 ≤ y := le_trans hx h
      rw [if_pos hx, if_pos hy]; exact fl_mono x y h
    · rw [if_neg hx]
      by_cases hy : 0 ≤ y
      · rw [if_pos hy]
        have := fl_nonneg (-x) (by linarith)
        have := fl_nonneg y hy
        linarith
      · rw [if_neg hy]
        have := fl_mono (-y) (-x) (by linarith)
        linarith
  · unfold rnd8; simp [f0]
  · unfold rnd8; simp [f8]
  · intro x
    unfold rnd8
    rcases lt_trichotomy x 0 with h | h | h
    · rw [if_pos (by linarith : 0 ≤ -x), if_neg (by linarith : ¬ 0 ≤ x)]; simp
    · subst h; simp [f0]
    · rw [if_neg (by linarith : ¬ 0 ≤ -x), if_pos (by linarith : 0 ≤ x)]; simp
  · intro x
    have key : ∀ a : Rat, 0 ≤ a → (((((a * 8).floor : Rat) / 8) * 8).floor : Rat) / 8 = ((a * 8).floor : Rat) / 8 := by
      intro a _
      have : (((a * 8).floor : Rat) / 8) * 8 = (((a * 8).floor : Int) : Rat) := by ring
      rw [this, Rat.floor_intCast]
    unfold rnd8
    by_cases hx : 0 ≤ x
    · rw [if_pos hx, if_pos (fl_nonneg x hx)]; exact key x hx
    · rw [if_neg hx]
      have hnn := fl_nonneg (-x) (by linarith)
      by_cases hz : 0 ≤ -(((-x * 8).floor : Rat) / 8)
      · -- the truncation is 0
        have h0 : ((-x * 8).floor : Rat) / 8 = 0 := by linarith
        rw [if_pos hz, h0]; simp [f0]
      · rw [if_neg hz]
        simp only [neg_neg]
        rw [key (-x) (by linarith)]

end Sage.C14
