#!/bin/bash
# usage: tools/run_all.sh <tier> <seed> — every claimed check on the unchanged tree; prints one line per property
tier=${1:-quick}; seed=${2:-20260930}
cd /verif
for p in $(python3 -c "import json; print(' '.join(c['property_id'] for c in json.load(open('MANIFEST.json'))['checks']))"); do
  VERIF_SEED=$seed ./check $p --tier $tier 2>&1 | grep -E "VIOLATION|^\[$p\]" 
done
