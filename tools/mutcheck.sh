#!/bin/bash
# usage: tools/mutcheck.sh <patch.diff|-> <Cxx> [<Cxx>…]   (TIER=quick|thorough)
# Runs the checks of the listed properties against a PRIVATE copy of /repo with the patch applied
# (a git worktree under /work/mut/repo) using a private copy of /verif (/work/mut/verif), so that
# neither /repo nor /verif is disturbed. `-` = no patch (sanity run on the unchanged tree).
set -e
patch=$1; shift
# one mutation experiment at a time (the private copies are shared)
exec 9>/work/.mutcheck.lock; flock 9
M=/work/mut
mkdir -p $M
if [ ! -d $M/repo ]; then git -C /repo worktree add -f --detach $M/repo HEAD >/dev/null 2>&1; fi
git -C $M/repo checkout -q --detach $(git -C /repo rev-parse HEAD)
git -C $M/repo checkout -q -- .
git -C $M/repo clean -fdq -e target
mkdir -p $M/verif
rsync -a --delete --exclude '.git' --exclude 'lean/.lake' --exclude 'harness/target' --exclude 'harness/target-sage' --exclude 'replays' --exclude 'evidence' /verif/ $M/verif/
[ -d $M/verif/lean/.lake ] || cp -r /verif/lean/.lake $M/verif/lean/.lake
[ -d $M/verif/harness/target ] || cp -r /verif/harness/target $M/verif/harness/target
[ -d $M/verif/harness/target-sage ] || cp -r /verif/harness/target-sage $M/verif/harness/target-sage
sed -i "s#/repo/crates#$M/repo/crates#g" $M/verif/harness/Cargo.toml
if [ "$patch" != "-" ]; then git -C $M/repo apply "$patch"; fi
cd $M/verif
rc=0
for p in "$@"; do
  VERIF_REPO=$M/repo ./check $p --tier ${TIER:-quick} 2>&1 | grep -E "VIOLATION|KNOWN-FINDING|^\[$p\]" || true
done
git -C $M/repo checkout -q -- .
