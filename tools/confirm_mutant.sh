#!/bin/bash
# usage: tools/confirm_mutant.sh <worktree> <X> <demo-target-path> <cargo test args…>
#   e.g. tools/confirm_mutant.sh /tmp/mut/C03 A crates/sage/tests/demo_A.rs -p sage-core --test demo_A
# Confirms independently, inside the agent's scratch worktree:
#   (1) the patch applies on a clean checkout, (2) the baseline suite passes with it,
#   (3) the demo FAILS with the patch, (4) the demo PASSES without it.
set -u
W=$1; X=$2; demo=$3; shift 3
cd $W
git checkout -q -- . ; git clean -fdq -e target -e out
mkdir -p $(dirname $demo); cp out/demo_$X.rs $demo
echo "== without patch: demo must pass"
cargo test --offline "$@" 2>&1 | grep -E "^test result|FAILED|panicked|error(\[|:)" | head -5
git apply out/$X.diff || { echo "PATCH DOES NOT APPLY"; exit 2; }
echo "== with patch: demo must fail"
cargo test --offline "$@" 2>&1 | grep -E "^test result|FAILED|panicked|error(\[|:)" | head -5
rm -f $demo
echo "== with patch: baseline suite must pass"
cargo test --workspace --no-fail-fast --offline 2>&1 | grep -E "^test result" | awk '{p+=$4; f+=$6} END {print p" passed, "f" failed"}'
git checkout -q -- . ; git clean -fdq -e target -e out
