#!/usr/bin/env python3
"""usage: tools/mkprompt.py <Cxx> <worktree-name> -> prints a prompt for a mutant-writing agent (round >= 2:
lists the ideas already used in /verif/seeded/<Cxx>-*/meta.json so the agent does something different).
The prompt contains only the property's text, never anything else from /verif."""
import json, sys, glob, os
prop, name = sys.argv[1], sys.argv[2]
root = os.path.dirname(os.path.dirname(os.path.abspath(__file__)))
p = next(json.loads(l) for l in open(f"{root}/properties.jsonl") if json.loads(l)["id"] == prop)
t = open(f"{root}/tools/prompts/mutant.txt").read()
files = p["anchors"]["files"]
t = (t.replace("__DIR__", f"/tmp/mutw/{name}").replace("__TITLE__", p.get("title", ""))
       .replace("__STATEMENT__", p.get("statement", "")).replace("__QUANT__", p["quantifier"]["text"])
       .replace("__FILES__", ", ".join(files)))
used = []
for m in sorted(glob.glob(f"{root}/seeded/{prop}-*/meta.json")):
    j = json.load(open(m))
    import re
    # strip everything the verdict bookkeeping appended (nothing about the checks may reach a mutant agent)
    needs = re.sub(r"[,;]?\s*\(?\s*(first NOT caught|first MISSED|NOT caught|caught)\b.*$", "", j['needs']).rstrip()
    needs += ")" * (needs.count("(") - needs.count(")"))
    used.append(f"- {j['summary']} (needs: {needs})")
if used:
    t = t.replace('("seeded defects" A and B; the kind', '("seeded defects" A and B — this is a LATER round: see the list of already-used ideas at the end and do something genuinely different, attacking clauses of the statement, code paths, configuration options, output files and helper modules that the earlier ideas did not touch; favour defects that need a multi-step sequence, state carried between calls/iterations/files, two cooperating sites that each look fine alone, a particular thread count/interleaving, or an unusual-but-legal configuration; do not use `git stash`; the kind')
    t += "\n\nAlready used in earlier rounds for this property (do NOT repeat these or close variants):\n" + "\n".join(used) + "\n"
print(t)
