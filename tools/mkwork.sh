#!/bin/bash
# usage: tools/mkwork.sh Cxx  — isolated working copy of /verif for one builder agent under /work/Cxx
set -e
id=$1
mkdir -p /work
git -C /verif worktree add -f --detach /work/$id HEAD >/dev/null 2>&1
mkdir -p /work/$id/lean /work/$id/harness
cp -r /verif/lean/.lake /work/$id/lean/.lake
cp -r /verif/harness/target /work/$id/harness/target
cp /verif/harness/Cargo.lock /work/$id/harness/Cargo.lock
echo /work/$id
