# C17 file-route mutants (G1-G5: gzip-by-extension case handling, FileFormat case handling, dropped file id). Same private-copy setup as tools/c17_mutants.py (never touches /repo). 2026-09-30: 5/5 caught (generated cases and corpus/C17/file-route.req).
import subprocess, collections, os
H='/tmp/c17mut/harness'; D='/work/C17/lean/.lake/build/bin/sagemodel'
files={'lib':'/tmp/c17mut/crates/sage-cloudpath/src/lib.rs','util':'/tmp/c17mut/crates/sage-cloudpath/src/util.rs'}
orig={k:open(v.replace('/tmp/c17mut','/repo')).read() for k,v in files.items()}
muts=[
 ('G1 gzip heuristic case-sensitive','lib','Some(ext) => ext.to_ascii_lowercase() == "gz" || ext.to_ascii_lowercase() == "gzip",','Some(ext) => ext == "gz" || ext == "gzip",'),
 ('G2 FileFormat case-sensitive','util','let path_lower = s.to_lowercase();','let path_lower = s.to_string();'),
 ('G3 read_mgf drops file id','util','crate::mgf::MgfReader::with_file_id(file_id).parse(contents)','crate::mgf::MgfReader::with_file_id(0).parse(contents)'),
 ('G4 gzip heuristic never (gz read as text)','lib','match self.gzip_heuristic() {\n            true => {\n                let gzip = GzipDecoder::new(reader);','match self.gzip_heuristic() && false {\n            true => {\n                let gzip = GzipDecoder::new(reader);'),
 ('G5 gzip heuristic: any name containing gz... ends_with("Gz") only lower/upper','lib','Some(ext) => ext.to_ascii_lowercase() == "gz" || ext.to_ascii_lowercase() == "gzip",','Some(ext) => ext == "gz" || ext == "GZ" || ext == "gzip",'),
]
for name,f,a,b in muts:
    for k,v in files.items(): open(v,'w').write(orig[k])
    if a not in orig[f]: print(name,'PATTERN NOT FOUND'); continue
    open(files[f],'w').write(orig[f].replace(a,b,1))
    r=subprocess.run(['cargo','build','--offline'],cwd=H,capture_output=True,text=True)
    if r.returncode!=0: print(name,'BUILD FAILED',r.stderr[-500:]); continue
    subprocess.run([H+'/target/debug/sage-verif-harness','gen','C17','quick','20260930','/tmp/c17mut/run/m.cases'],capture_output=True)
    c=collections.Counter()
    for o in subprocess.run([D],stdin=open('/tmp/c17mut/run/m.cases'),capture_output=True,text=True).stdout.splitlines():
        p=o.rsplit(' | ',2); v=p[2].split('@')[0]
        if v.startswith('bad'): c[v]+=1
        elif p[1]!='1': c['disagree-only']+=1
    subprocess.run([H+'/target/debug/sage-verif-harness','exec','/work/C17/corpus/C17/file-route.req','/tmp/c17mut/run/c.cases'],capture_output=True)
    cc=collections.Counter()
    for o in subprocess.run([D],stdin=open('/tmp/c17mut/run/c.cases'),capture_output=True,text=True).stdout.splitlines():
        p=o.rsplit(' | ',2)
        if p[2].startswith('bad') or p[1]!='1': cc[p[2].split('@')[0]]+=1
    print(name,'| generated:',dict(c) or 'NOT CAUGHT','| corpus file-route.req:',dict(cc) or 'none',flush=True)
for k,v in files.items(): open(v,'w').write(orig[k])
