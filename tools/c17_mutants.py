#!/usr/bin/env python3
"""C17 mutation run (optional helper, not part of ./check). Never touches /repo.

Setup (about 2 min, ~750 MB under /tmp/c17mut):
  mkdir -p /tmp/c17mut/harness /tmp/c17mut/run && cp -r /repo/crates /tmp/c17mut/crates
  cd $W/harness && cp -r Cargo.toml Cargo.lock src .cargo target /tmp/c17mut/harness/
  sed -i 's#/repo/crates#/tmp/c17mut/crates#g' /tmp/c17mut/harness/Cargo.toml
  (cd /tmp/c17mut/harness && cargo build --offline)
Run:  python3 tools/c17_mutants.py [M1 M7 ...]      (W defaults to /work/C17; set W=... to override)
For every mutant of crates/sage-cloudpath/src/mgf.rs: rebuild the private harness, generate the quick
tier, run the Lean driver, and print the spec clauses hit + the corpus files that fail.
Result on 2026-09-30: 18/18 non-equivalent mutants caught by generated cases and by the corpus;
M13 (is_ascii_digit for is_numeric) and M20 (trim before the is_empty test) are equivalent mutants.
"""
W=__import__("os").environ.get("W","/work/C17")
import subprocess, shutil, os, sys, collections
SRC='/tmp/c17mut/crates/sage-cloudpath/src/mgf.rs'
ORIG=open('/repo/crates/sage-cloudpath/src/mgf.rs').read()
H='/tmp/c17mut/harness'
D=W+'/lean/.lake/build/bin/sagemodel'
muts=[
 ('M1 no init() before first block', '        query_data.init();\n\n        // query', '\n        // query'),
 ('M2 unwrap on missing BEGIN IONS', 'None => return Ok(Vec::new()),', 'None => panic!("no begin"),'),
 ('M3 init() keeps stale charge array', '        self.precursor_charge_array = self.default_params.charge_array.clone();\n', ''),
 ('M4 init() keeps stale rt', '        self.rt_in_minutes = None;\n', ''),
 ('M5 rt not divided by 60', 'let rt_in_minutes = rt_in_seconds / 60.0;', 'let rt_in_minutes = rt_in_seconds;'),
 ('M6 default intensity 0', 'query_data.ion_intensity_array.push(1.0)', 'query_data.ion_intensity_array.push(0.0)'),
 ('M7 no length check', '            || spectrum.mz.len() != spectrum.intensity.len()\n', ''),
 ('M8 Da reported as Ppm', '"Da" => return Some(Tolerance::Da(', '"Da" => return Some(Tolerance::Ppm('),
 ('M9 END IONS exact match', 'if line.starts_with("END IONS") {', 'if line == "END IONS" {'),
 ('M10 init() keeps stale title', '        self.id = String::default();\n', ''),
 ('M11 header CHARGE parser dropped', '            Self::parse_tol_unit,\n            Self::parse_charge,\n        ]\n    }\n    pub fn parse_begin', '            Self::parse_tol_unit,\n        ]\n    }\n    pub fn parse_begin'),
 ('M12 lower window bound not negated abs', '"ppm" => return Some(Tolerance::Ppm(-tol_value.abs(), tol_value.abs())),', '"ppm" => return Some(Tolerance::Ppm(-tol_value, tol_value.abs())),'),
 ('M13 is_ascii_digit instead of is_numeric (expected equivalent)', '.is_numeric()', '.is_ascii_digit()'),
 ('M14 no trim in query loop', '            let line = line.trim();\n            for parser in &query_parsers', '            for parser in &query_parsers'),
 ('M15 init() keeps stale precursors', '        self.precursors = Vec::new();\n', ''),
 ('M16 init() keeps stale tol unit', '        self.precursor_tol_unit = self.default_params.tol_unit.clone();\n', ''),
 ('M17 header TOL= not read', 'if let Some(tol_str) = line.strip_prefix("TOL=") {\n            if let Ok(tol) = tol_str.parse::<f32>() {\n                default_params.tol = Some(tol);', 'if let Some(tol_str) = line.strip_prefix("TOL=") {\n            if let Ok(_tol) = tol_str.parse::<f32>() {\n                default_params.tol = None;'),
 ('M18 second charge skipped (first only)', 'query_data.precursor_charge_array = Some(charge_array);', 'charge_array.truncate(1); query_data.precursor_charge_array = Some(charge_array);'),
 ('M19 PEPMASS intensity ignored', 'precursor.intensity = Some(intensity);', 'precursor.intensity = None; let _ = intensity;'),
 ('M20 empty-line skip also skips lines of blanks? (trim before is_empty: equivalent expected)', 'if line.is_empty() {\n                continue;\n            }\n            let line = line.trim();', 'let line = line.trim();\n            if line.is_empty() {\n                continue;\n            }'),
]
sel=sys.argv[1:]
for name,a,b in muts:
    if sel and not any(name.startswith(s+' ') for s in sel): continue
    if a not in ORIG:
        print(name,'PATTERN NOT FOUND'); continue
    src=ORIG.replace(a,b,1)
    if name.startswith('M18'):
        src=src.replace('let mut charge_array = Vec::new();\n            for cap in regex_for_charge.captures_iter(charge_str) {\n                if let Some(charge) = cap[0].chars().next().unwrap().to_digit(10) {\n                    charge_array.push(charge as u8);\n                }\n            }\n            charge_array.truncate','let mut charge_array: Vec<u8> = Vec::new();\n            for cap in regex_for_charge.captures_iter(charge_str) {\n                if let Some(charge) = cap[0].chars().next().unwrap().to_digit(10) {\n                    charge_array.push(charge as u8);\n                }\n            }\n            charge_array.truncate')
    open(SRC,'w').write(src)
    r=subprocess.run(['cargo','build','--offline'],cwd=H,capture_output=True,text=True)
    if r.returncode!=0:
        print(name,'BUILD FAILED',r.stderr[-600:]); continue
    subprocess.run([H+'/target/debug/sage-verif-harness','gen','C17','quick','20260930','/tmp/c17mut/run/m.cases'],capture_output=True)
    out=subprocess.run([D],stdin=open('/tmp/c17mut/run/m.cases'),capture_output=True,text=True).stdout.splitlines()
    c=collections.Counter()
    for o in out:
        parts=o.rsplit(' | ',2)
        v=parts[2].split('@')[0]
        if v.startswith('bad'): c[v]+=1
        elif parts[1]!='1': c['disagree-only']+=1
    # corpus
    cc=collections.Counter()
    for fn in sorted(os.listdir(W+'/corpus/C17')):
        subprocess.run([H+'/target/debug/sage-verif-harness','exec',W+'/corpus/C17/'+fn,'/tmp/c17mut/run/c.cases'],capture_output=True)
        for o in subprocess.run([D],stdin=open('/tmp/c17mut/run/c.cases'),capture_output=True,text=True).stdout.splitlines():
            parts=o.rsplit(' | ',2)
            if parts[2].startswith('bad') or parts[1]!='1': cc[fn]+=1
    print(name,'| generated:',dict(c) or 'NOT CAUGHT','| corpus files failing:',dict(cc) or 'none',flush=True)
open(SRC,'w').write(ORIG)
