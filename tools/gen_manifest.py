#!/usr/bin/env python3
"""Writes MANIFEST.json from config/*.json (claimed properties) + the not_applicable table below."""
import json, os, glob
ROOT = os.path.dirname(os.path.dirname(os.path.abspath(__file__)))
props = [json.loads(l) for l in open(os.path.join(ROOT, "properties.jsonl"))]
ids = [p["id"] for p in props]
claimed = {}
for p in sorted(glob.glob(os.path.join(ROOT, "config", "C*.json"))):
    cfg = json.load(open(p))
    if cfg.get("claim", True):
        claimed[os.path.basename(p)[:-5]] = cfg
checks = []
for pid in ids:
    if pid not in claimed:
        continue
    cfg = claimed[pid]
    checks.append({
        "property_id": pid,
        "quick_cmd": f"./check {pid} --tier quick",
        "thorough_cmd": f"./check {pid} --tier thorough",
        "evidence_file": f"evidence/{pid}.json",
        "replay_cmd_template": f"./check {pid} --replay {{path}}",
        "engine": "lean-model+harness",
        "level_claimed": {
            "category": "proof",
            "text": cfg["level_text"],
            "design_ref": cfg.get("design_ref", f"DESIGN.md §4 {pid}"),
        },
        "level_note": cfg["level_note"],
        "technique": cfg.get("technique", "Lean 4 theorems about a hand-written executable model; Rust differential correspondence harness against /repo; regenerated constant tables"),
    })
hooks_commits = []
hp = os.path.join(ROOT, "config", "hooks.json")
hooks = json.load(open(hp)) if os.path.exists(hp) else {}
manifest = {
    "version": 1,
    "setup_cmd": "./check --setup",
    "hooks": {
        "guard": "none - no hooks or instrumentation were added to /repo: every correspondence op goes through public APIs of sage-core / sage-cloudpath / sage-cli (linked by path) or runs the built sage binary",
        "enable": "n/a (checks build /repo's working tree as it is: `cargo build --offline` of the harness crate with path dependencies, and of the sage binary into harness/target-sage)",
        "baseline_off_cmd": "cd /repo && cargo test --workspace --no-fail-fast --offline",
        "source_commits": hooks.get("source_commits", []),
        "add_only": True,
    },
    "engines": [
        {"name": "lean-model", "path": "lean/", "serves_properties": sorted(claimed), "kind_free_text": "Lean 4 model, specs, theorems (lake project SageModel) and the line-protocol driver executable `sagemodel`"},
        {"name": "harness", "path": "harness/", "serves_properties": sorted(claimed), "kind_free_text": "Rust crate linking /repo's crates by path; generators + executors of the correspondence ops"},
        {"name": "translator", "path": "tools/gen_tables.py", "serves_properties": sorted(claimed), "kind_free_text": "regenerates constant/column tables of the model from /repo sources on every run"},
    ],
    "checks": checks,
    "not_applicable": [{"property_id": pid, "reason": "check not built yet in this round (see DESIGN.md §9 build order); no technique switch"} for pid in ids if pid not in claimed],
    "notes": "Every check: translator -> lake build of the property's theorems + axiom audit -> cargo build of the harness against /repo's working tree -> corpus + generated cases through real code and Lean model -> spec evaluated on the implementation's outputs. See DESIGN.md.",
}
json.dump(manifest, open(os.path.join(ROOT, "MANIFEST.json"), "w"), indent=1)
print("claimed:", sorted(claimed))
