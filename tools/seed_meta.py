#!/usr/bin/env python3
"""usage: seed_meta.py <dir> <property> <summary> <needs> — writes meta.json from the logs in the directory"""
import json, os, re, sys
d, prop, summary, needs = sys.argv[1:5]
confirm = open(os.path.join(d, "confirm.log")).read() if os.path.exists(os.path.join(d, "confirm.log")) else ""
check = open(os.path.join(d, "check.log")).read() if os.path.exists(os.path.join(d, "check.log")) else ""
viol = re.findall(r"VIOLATION property=(\S+) replay=\S+(.*)", check)
caught = sorted({v[0] for v in viol})
verdict = "caught" if caught else "NOT caught"
if caught and all("no-failing-input-found" in v[1] for v in viol):
    verdict = "caught (tie/proof break, no failing input found)"
meta = {
    "property": prop, "summary": summary, "needs": needs,
    "confirmed": {
        "demo_passes_without_patch": bool(re.search(r"without patch: demo must pass\ntest result: ok", confirm)),
        "demo_fails_with_patch": "FAILED" in confirm.split("with patch: demo must fail")[-1].split("== with patch: baseline")[0] if "with patch: demo must fail" in confirm else False,
        "baseline_suite_with_patch": (re.findall(r"(\d+ passed, \d+ failed)", confirm) or [""])[-1],
    },
    "ran": ["tools/confirm_mutant.sh (demo with/without patch, baseline suite with patch, in the scratch worktree)",
            "tools/mutcheck.sh patch.diff " + prop + " (the property's quick check against a private copy of /repo with the patch applied)"],
    "caught_by": ", ".join(caught), "verdict": verdict,
    "check_summary": [l for l in check.split("\n") if l.startswith("[")],
}
json.dump(meta, open(os.path.join(d, "meta.json"), "w"), indent=1)
print(d, verdict, meta["confirmed"])
