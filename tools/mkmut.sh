#!/bin/bash
# usage: tools/mkmut.sh <name>  — scratch git worktree of /repo for a mutant-writing agent (under /tmp/mutw/<name>)
set -e
n=$1
git -C /repo worktree add -f --detach /tmp/mutw/$n HEAD >/dev/null 2>&1
cp -r /repo/target /tmp/mutw/$n/target
echo /tmp/mutw/$n
