#!/bin/bash
# usage: tools/mkmut.sh <name>  — scratch git worktree of /repo for a mutant-writing agent (under /tmp/mut/<name>)
set -e
n=$1
git -C /repo worktree add -f --detach /tmp/mut/$n HEAD >/dev/null 2>&1
cp -r /repo/target /tmp/mut/$n/target
echo /tmp/mut/$n
