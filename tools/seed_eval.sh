#!/bin/bash
# usage: tools/seed_eval.sh <Cxx> <A|B> <demo placement path> <crate> [extra props to check…]
# Confirms a seeded change in its scratch worktree, runs the property's check against it in the private
# mutation environment, and stores everything under /verif/seeded/<Cxx>-<X>/.
id=$1; X=$2; demo=$3; crate=$4; shift 4
W=/tmp/mutw/$id; D=/verif/seeded/$id-$X
mkdir -p $D
cp $W/out/$X.diff $D/patch.diff; cp $W/out/demo_$X.rs $D/demo.rs
mkdir -p $W/$(dirname $demo)
/verif/tools/confirm_mutant.sh $W $X $demo -p $crate --test demo_$X > $D/confirm.log 2>&1
TIER=quick /verif/tools/mutcheck.sh $D/patch.diff $id "$@" > $D/check.log 2>&1
cp $W/out/README.md $D/README.md
echo "--- $id-$X"; cat $D/confirm.log; cat $D/check.log
