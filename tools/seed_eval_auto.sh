#!/bin/bash
# usage: tools/seed_eval_auto.sh <LA> <LB> <Cxx>[:extra,extra] …   (worktrees /tmp/mutw/<Cxx>r<R>, R from env ROUND)
# evaluates both seeded changes of each listed worktree; demo placement and crate are read from the demo header
LA=$1; LB=$2; shift 2
for spec in "$@"; do
  c=${spec%%:*}; extra=""; [[ "$spec" == *:* ]] && extra=$(echo "${spec#*:}" | tr ',' ' ')
  wt=${c}r${ROUND}
  for X in A B; do
    L=$LA; [ $X = B ] && L=$LB
    f=/tmp/mutw/$wt/out/demo_$X.rs
    [ -f $f ] || { echo "--- $c-$L: no demo file"; continue; }
    path=$(grep -o -m1 "crates/[a-z-]*/tests/demo_$X.rs" $f | head -1)
    [ -z "$path" ] && path=crates/sage/tests/demo_$X.rs
    dir=$(echo $path | cut -d/ -f2)
    case $dir in sage) crate=sage-core;; *) crate=$dir;; esac
    /verif/tools/seed_eval2.sh $wt $c $X $L $path $crate $extra
  done
done
