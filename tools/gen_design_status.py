#!/usr/bin/env python3
"""Rewrites the block between <!-- STATUS:BEGIN --> and <!-- STATUS:END --> in DESIGN.md from
config/*.json, known_findings.json and seeded/*/meta.json (measured facts only)."""
import json, os, glob, re
ROOT = os.path.dirname(os.path.dirname(os.path.abspath(__file__)))
props = [json.loads(l) for l in open(os.path.join(ROOT, "properties.jsonl"))]
out = []
out.append("### Claimed properties and their proved theorems (from config/*.json)\n")
out.append("| id | title | property theorems (all in `lean/SageModel/Props/`) | correspondence ops |")
out.append("|---|---|---|---|")
for p in props:
    cp = os.path.join(ROOT, "config", p["id"] + ".json")
    if not os.path.exists(cp):
        out.append(f"| {p['id']} | {p['title']} | *(not claimed yet)* | |")
        continue
    cfg = json.load(open(cp))
    thms = ", ".join("`" + t.split(".")[-1] + "`" for t in cfg.get("required_theorems", []))
    rs = os.path.join(ROOT, "harness", "src", "ops", p["id"].lower() + ".rs")
    ops = ""
    if os.path.exists(rs):
        m = re.search(r"pub const OPS: &\[&str\] = &\[(.*?)\];", open(rs).read(), re.S)
        if m:
            ops = ", ".join("`" + x + "`" for x in re.findall(r'"([^"]+)"', m.group(1)))
    out.append(f"| {p['id']} | {p['title']} | {thms} | {ops} |")
kf = json.load(open(os.path.join(ROOT, "known_findings.json")))
out.append("\n### Genuine defects repaired in /repo (`fix:` commits; replay cases are in the corpus and must pass)\n")
for f in kf.get("fixed", []):
    out.append("* " + f)
out.append("\n### Known findings (genuine, recorded rather than repaired; printed as KNOWN-FINDING)\n")
for k in kf.get("known", []):
    out.append(f"* **{k['property']}** `{k.get('id','')}` — {k['what']} (verdict `{k['verdict_regex']}`, replay `{k['replay']}`)")
metas = sorted(glob.glob(os.path.join(ROOT, "seeded", "*", "meta.json")))
out.append("\n### Seeded changes and which checks catch them (from seeded/*/meta.json)\n")
if metas:
    out.append("| seeded change | breaks | needs to manifest | caught by (quick) | verdict |")
    out.append("|---|---|---|---|---|")
    for mp in metas:
        m = json.load(open(mp))
        out.append(f"| `{os.path.basename(os.path.dirname(mp))}` {m.get('summary','')} | {m.get('property','')} | {m.get('needs','')} | {m.get('caught_by','')} | {m.get('verdict','')} |")
else:
    out.append("(none recorded yet)")
block = "\n".join(out) + "\n"
p = os.path.join(ROOT, "DESIGN.md")
s = open(p).read()
a, b = "<!-- STATUS:BEGIN -->", "<!-- STATUS:END -->"
if a in s:
    s = s[: s.index(a) + len(a)] + "\n" + block + s[s.index(b):]
    open(p, "w").write(s)
    print("DESIGN.md status block updated")
else:
    print("markers not found")
