#!/bin/bash
# usage: tools/seed_eval2.sh <worktree name under /tmp/mut> <Cxx> <A|B (file in out/)> <label for seeded dir, e.g. C> <demo placement path> <crate> [extra props…]
wt=$1; id=$2; X=$3; L=$4; demo=$5; crate=$6; shift 6
W=/tmp/mutw/$wt; D=/verif/seeded/$id-$L
mkdir -p $D
cp $W/out/$X.diff $D/patch.diff; cp $W/out/demo_$X.rs $D/demo.rs
/verif/tools/confirm_mutant.sh $W $X $demo -p $crate --test demo_$X > $D/confirm.log 2>&1
TIER=quick /verif/tools/mutcheck.sh $D/patch.diff $id "$@" > $D/check.log 2>&1
cp $W/out/README.md $D/README.md
echo "--- $id-$L"; grep -E "^test result|passed, " $D/confirm.log; grep -E "VIOLATION|^\[C" $D/check.log
