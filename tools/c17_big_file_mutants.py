# C17 large-file / chunking mutants of util::read_mgf (C17-M batch reader without header, E1 lossy 8 KiB chunk decoding, E2 line break at 64 KiB chunk ends, E3 byte lost at offset 8192). Private-copy setup as in tools/c17_mutants.py (never touches /repo). 2026-09-30: all caught on quick seeds 20260930, 1, 2 and by corpus/C17/big-file-header-defaults.req (E1 by the generated cases and the refreshed corpus).
import subprocess, collections
H='/tmp/c17mut/harness'; D='/work/C17/lean/.lake/build/bin/sagemodel'
U='/tmp/c17mut/crates/sage-cloudpath/src/util.rs'
orig=open('/repo/crates/sage-cloudpath/src/util.rs').read()
old=orig[orig.index('pub fn read_mgf<S: AsRef<str>>'):orig.index('pub fn read_fasta<S>(')]
HEAD='pub fn read_mgf<S: AsRef<str>>(path: S, file_id: usize) -> Result<Vec<RawSpectrum>, Error> {\n    read_and_execute(path, |mut bf| async move {\n'
TAIL='    })\n}\n\n'
muts={
'C17-M batches of 1 MiB cut after END IONS, each parsed without the header': HEAD+'''        use tokio::io::AsyncBufReadExt;
        let reader = crate::mgf::MgfReader::with_file_id(file_id);
        let mut out = Vec::new();
        let mut batch = String::new();
        let mut line = String::new();
        loop {
            line.clear();
            let n = bf.read_line(&mut line).await.map_err(crate::Error::IO)?;
            if n == 0 { break; }
            batch.push_str(&line);
            if batch.len() >= (1 << 20) && line.trim().starts_with("END IONS") {
                out.extend(reader.parse(std::mem::take(&mut batch)).map_err(Error::MGF)?);
            }
        }
        if !batch.is_empty() {
            out.extend(reader.parse(batch).map_err(Error::MGF)?);
        }
        Ok(out)
'''+TAIL,
'E1 8 KiB chunks decoded lossily one by one (multi-byte char across a chunk end)': HEAD+'''        let mut bytes = Vec::new();
        bf.read_to_end(&mut bytes).await.map_err(crate::Error::IO)?;
        if std::str::from_utf8(&bytes).is_err() {
            return Err(crate::Error::IO(std::io::Error::new(std::io::ErrorKind::InvalidData, "utf8")));
        }
        let mut contents = String::new();
        for chunk in bytes.chunks(8192) {
            contents.push_str(&String::from_utf8_lossy(chunk));
        }
        Ok(crate::mgf::MgfReader::with_file_id(file_id).parse(contents).map_err(Error::MGF)?)
'''+TAIL,
'E2 64 KiB chunks, a line break slips in at every chunk end': HEAD+'''        let mut contents = String::new();
        bf.read_to_string(&mut contents).await.map_err(crate::Error::IO)?;
        let mut patched = String::new();
        let mut last = 0usize;
        let mut next = 65536usize;
        while next < contents.len() {
            if contents.is_char_boundary(next) {
                patched.push_str(&contents[last..next]);
                patched.push('\\n');
                last = next;
            }
            next += 65536;
        }
        patched.push_str(&contents[last..]);
        Ok(crate::mgf::MgfReader::with_file_id(file_id).parse(patched).map_err(Error::MGF)?)
'''+TAIL,
'E3 line reader that drops a trailing CR-less LF pair split at 8 KiB (skips the byte at offset 8192)': HEAD+'''        let mut bytes = Vec::new();
        bf.read_to_end(&mut bytes).await.map_err(crate::Error::IO)?;
        if bytes.len() > 8192 { bytes.remove(8192); }
        let contents = String::from_utf8(bytes).map_err(|_| crate::Error::IO(std::io::Error::new(std::io::ErrorKind::InvalidData, "utf8")))?;
        Ok(crate::mgf::MgfReader::with_file_id(file_id).parse(contents).map_err(Error::MGF)?)
'''+TAIL,
}
for name,body in muts.items():
    open(U,'w').write(orig.replace(old,body))
    r=subprocess.run(['cargo','build','--offline'],cwd=H,capture_output=True,text=True)
    if r.returncode!=0: print(name,'BUILD FAILED',r.stderr[-1500:]); continue
    for seed in ('20260930','1','2'):
        subprocess.run([H+'/target/debug/sage-verif-harness','gen','C17','quick',seed,'/tmp/c17mut/run/m.cases'],capture_output=True)
        c=collections.Counter(); ops=collections.Counter()
        cases=open('/tmp/c17mut/run/m.cases').read().splitlines()
        outs=subprocess.run([D],stdin=open('/tmp/c17mut/run/m.cases'),capture_output=True,text=True).stdout.splitlines()
        for cs,o in zip(cases,outs):
            p=o.rsplit(' | ',2); v=p[2].split('@')[0]
            if v.startswith('bad') or p[1]!='1':
                c[v if v.startswith('bad') else 'disagree-only']+=1; ops[cs.split()[0]]+=1
        print(name,'| seed',seed,'| generated:',dict(c) or 'NOT CAUGHT',dict(ops),flush=True)
    subprocess.run([H+'/target/debug/sage-verif-harness','exec','/work/C17/corpus/C17/big-file-header-defaults.req','/tmp/c17mut/run/c.cases'],capture_output=True)
    cc=collections.Counter()
    for o in subprocess.run([D],stdin=open('/tmp/c17mut/run/c.cases'),capture_output=True,text=True).stdout.splitlines():
        p=o.rsplit(' | ',2)
        if p[2].startswith('bad') or p[1]!='1': cc[p[2]]+=1
    print(name,'| corpus big-file-header-defaults.req:',dict(cc) or 'none',flush=True)
open(U,'w').write(orig)
