#!/bin/bash
# usage: tools/merge.sh Cxx — copy one builder agent's files from /work/Cxx into /verif
set -e
id=$1; lid=$(echo $id | tr 'C' 'c'); W=/work/$id; V=/verif
for d in Model Props Lemmas Drv; do
  for f in $W/lean/SageModel/$d/${id}*.lean; do [ -e "$f" ] && cp -v "$f" $V/lean/SageModel/$d/; done
done
# shared, non-property-named model files an agent was asked to create
for f in $W/lean/SageModel/Model/Select.lean; do [ -e "$f" ] && cp -v "$f" $V/lean/SageModel/Model/; done
cp -v $W/harness/src/ops/$lid.rs $V/harness/src/ops/
for f in $W/harness/src/ops/${lid}_*.rs; do [ -e "$f" ] && cp -v "$f" $V/harness/src/ops/; done
[ -e $W/config/$id.json ] && cp -v $W/config/$id.json $V/config/
[ -d $W/corpus/$id ] && mkdir -p $V/corpus/$id && cp -rv $W/corpus/$id/. $V/corpus/$id/
# import lines added by the agent to the library root
grep -E "^import SageModel\.(Model|Props|Lemmas)\.${id}" $W/lean/SageModel.lean | while read l; do
  grep -qxF "$l" $V/lean/SageModel.lean || echo "$l" >> $V/lean/SageModel.lean
done
echo "--- other differences outside the property's own files:"
cd $W && git status --short | grep -v -E "(${id}|${lid})" || true
